"""Run the checks against the seeded property-breaking changes kept under /verif/seeded.

  python harness/seeded.py run [id ...]      # apply each patch to a scratch copy of /repo, run the property's check(s)
  python harness/seeded.py revert-patches    # (re)generate seeded/revert-<hash>/ from the fix commits in /repo

A scratch copy (outside /repo and /verif, removed afterwards) is used via SERIF_REPO so /repo itself is never touched.
"""
import os, sys, json, subprocess, shutil, time

HERE = os.path.dirname(os.path.abspath(__file__))
VERIF = os.path.dirname(HERE)
SEEDED = os.path.join(VERIF, "seeded")
SCRATCH = "/tmp/serif-seedrun-%d" % os.getpid()


def sh(cmd, **kw):
    return subprocess.run(cmd, shell=True, capture_output=True, text=True, **kw)


_VCOPY = {}


def verif_copy():
    """the checks are run from a private copy of /verif (one per worker thread) so that a seeded run never touches the real
    evidence files, the regenerated constants or the driver binary of /verif, and two workers never share a build directory"""
    import threading
    k = threading.get_ident()
    if k not in _VCOPY:
        d = os.path.join(SCRATCH, "verif-%d" % len(_VCOPY))
        _VCOPY[k] = d
        os.makedirs(SCRATCH, exist_ok=True)
        sh(f"rsync -a --delete --exclude .git --exclude replays {VERIF}/ {d}/")
    return _VCOPY[k]


def run_one(sid, tier="quick"):
    d = os.path.join(SEEDED, sid)
    meta = json.load(open(os.path.join(d, "meta.json")))
    props = meta.get("checks") or [meta["property"]]
    work = os.path.join(SCRATCH, sid.replace("/", "_"))
    shutil.rmtree(work, ignore_errors=True)
    os.makedirs(SCRATCH, exist_ok=True)
    # apply in a throw-away git worktree of HEAD: first strictly (no fuzz: `patch` with offsets can hit a look-alike hunk), then as a
    # three-way merge (the blobs named in the patch's index lines are in /repo's object store) for patches written against an
    # older commit; a patch without index lines (hand-made diff) falls back to `patch` without fuzz
    wt = work + ".wt"
    sh(f"git -C /repo worktree remove --force {wt}")
    sh(f"git -C /repo worktree add --detach {wt} HEAD")
    pf = os.path.join(d, "patch.diff")
    r = sh(f"git -C {wt} apply {pf}")
    how = "exact"
    if r.returncode != 0:
        r = sh(f"git -C {wt} apply -3 {pf}")
        how = "3-way"
        if r.returncode != 0 or sh(f"git -C {wt} diff --name-only --diff-filter=U").stdout.strip():
            sh(f"git -C {wt} reset -q --hard HEAD && git -C {wt} clean -fdq")
            r = sh(f"patch -p1 -F0 --no-backup-if-mismatch < {pf}", cwd=wt)
            how = "patch -F0"
    ok = r.returncode == 0
    if ok:
        sh(f"rsync -a --exclude .git {wt}/ {work}/")
    sh(f"git -C /repo worktree remove --force {wt}")
    sh("git -C /repo worktree prune")
    if not ok:
        shutil.rmtree(work, ignore_errors=True)
        return {"id": sid, "applied": False, "log": (r.stdout + r.stderr)[-400:]}
    res = {"id": sid, "applied": True, "applied_how": how, "property": meta["property"], "checks": {}}
    demo = os.path.join(d, "demo.py")
    if os.path.exists(demo):
        rd = sh(f"PYTHONPATH={work}/src /venv/bin/python {demo}")
        rc = sh(f"PYTHONPATH=/repo/src /venv/bin/python {demo}")
        res["demo_fails_with_patch"] = rd.returncode != 0
        res["demo_passes_clean"] = rc.returncode == 0
    rt = sh(f"cd {work} && PYTHONPATH={work}/src /venv/bin/python -m pytest -q -p no:cacheprovider 2>&1 | tail -1")
    res["suite"] = rt.stdout.strip()
    meta["verified"] = {"suite_with_patch": res["suite"], "demo_fails_with_patch": res.get("demo_fails_with_patch"),
                        "demo_passes_clean": res.get("demo_passes_clean"),
                        "ran": "patch applied to a scratch copy of /repo; pytest (full suite); demo.py with and without the patch; ./check <property> with SERIF_REPO=<scratch>"}
    json.dump(meta, open(os.path.join(d, "meta.json"), "w"), indent=1)
    for p in props:
        t0 = time.time()
        env = dict(os.environ, SERIF_REPO=work)
        vcopy = verif_copy()
        r = subprocess.run([os.path.join(vcopy, "check"), p, "--tier", tier], capture_output=True, text=True, env=env, cwd=vcopy)
        viol = [l for l in r.stdout.splitlines() if l.startswith("VIOLATION")]
        replay = None
        if viol:
            path = viol[0].split("replay=")[1].split()[0]
            try:
                j = json.load(open(os.path.join(vcopy, path)))
                replay = {"kind": j.get("kind"), "why": (j.get("verdict") or {}).get("why", "")[:300], "spec": json.dumps(j.get("spec"))[:300]}
            except Exception:
                pass
        res["checks"][p] = {"exit": r.returncode, "violations": len(viol), "concrete": bool(viol) and "no-failing-input-found" not in viol[0],
                            "wall_s": round(time.time() - t0, 1), "first_replay": replay}
    shutil.rmtree(work, ignore_errors=True)
    return res


# fixes whose reversal no longer breaks the property because a later fix covers the same ground
SUPERSEDED = {
    "79b6fe7": {"expect_quiet": True, "checks": ["C01"],
                "superseded": "Table.__copy__ is redundant since 3fef9e3 gave Vector (and so Table) a __copy__ that is copy()"},
    "ecf7e90": {"expect_quiet": True, "checks": ["C01"],
                "superseded": "the __getattr__ guard for half-built instances is no longer needed for t == t / copy.copy / deepcopy since "
                              "3fef9e3 defines __copy__ / __deepcopy__ (which never create a half-built instance); it still protects pickle"},
    "2e20a38": {"expect_quiet": True, "checks": ["C01"],
                "superseded": "the table-level writability pre-check is redundant since ff19998: Table.__setitem__ now rolls every "
                              "column back on ANY exception, AliasError included, so reverting the pre-check no longer leaves a partial write"},
}


def main():
    if len(sys.argv) >= 2 and sys.argv[1] == "run":
        ids = sys.argv[2:] or sorted(d for d in os.listdir(SEEDED) if os.path.exists(os.path.join(SEEDED, d, "patch.diff")))
        out_path = os.environ.get("SEEDED_RESULTS") or os.path.join(SEEDED, "RESULTS.json")
        results = json.load(open(out_path)) if os.path.exists(out_path) else {}
        from concurrent.futures import ThreadPoolExecutor
        jobs = int(os.environ.get("SEEDED_JOBS", "3"))
        with ThreadPoolExecutor(max_workers=jobs) as ex:
            for sid, r in zip(ids, ex.map(run_one, ids)):
                results[sid] = r
                caught = r.get("applied") and any(c["exit"] == 1 for c in r["checks"].values())
                meta = json.load(open(os.path.join(SEEDED, sid, "meta.json")))
                if meta.get("expect_quiet"):
                    noisy = [p for p, c in r.get("checks", {}).items() if c["exit"] != 0]
                    r["expect_quiet"] = True
                    print(sid, "QUIET (as it must be)" if r.get("applied") and not noisy else
                          f"FALSE ALARM / ERROR in {noisy}" if r.get("applied") else "PATCH-FAILED", flush=True)
                    json.dump(results, open(out_path, "w"), indent=1)
                    continue
                stale = r.get("applied") and r.get("demo_fails_with_patch") is False
                print(sid, "CAUGHT" if caught else "STALE (its own demonstration no longer fails with the patch)" if stale
                      else "MISSED" if r.get("applied") else "PATCH-FAILED",
                      {p: (c["exit"], "concrete" if c["concrete"] else "") for p, c in r.get("checks", {}).items()}, flush=True)
                json.dump(results, open(out_path, "w"), indent=1)
        shutil.rmtree(SCRATCH, ignore_errors=True)
    elif len(sys.argv) >= 2 and sys.argv[1] == "import":
        # import the deliverables of a mutation sub-agent: /tmp/seed/<pid>/out/{A,B}
        letters = os.environ.get("SEED_LETTERS", "A,B,C,D,E").split(",")
        for pid in sys.argv[2:]:
            for x in letters:
                src = f"{os.environ.get('SEED_BASE', '/tmp/seed')}/{pid}/out/{x}"
                if not os.path.exists(os.path.join(src, "patch.diff")):
                    continue
                dst = os.path.join(SEEDED, f"{pid}-{x}")
                os.makedirs(dst, exist_ok=True)
                for fn in ("patch.diff", "demo.py"):
                    if os.path.exists(os.path.join(src, fn)):
                        shutil.copy(os.path.join(src, fn), os.path.join(dst, fn))
                try:
                    meta = json.load(open(os.path.join(src, "meta.json")))
                except Exception:
                    meta = {}
                meta["property"] = pid
                meta["author"] = os.environ.get("SEED_AUTHOR", "independent sub-agent given only the property text and a scratch worktree")
                json.dump(meta, open(os.path.join(dst, "meta.json"), "w"), indent=1)
                print("imported", dst)
    elif len(sys.argv) >= 2 and sys.argv[1] == "revert-patches":
        kf = json.load(open(os.path.join(VERIF, "known_findings.json")))
        for line in kf["fixed"]:
            parts = line.split()
            prop = parts[1].split("=")[1]
            h = parts[2]
            d = os.path.join(SEEDED, f"revert-{h}")
            os.makedirs(d, exist_ok=True)
            # the change that undoes fix `h` ON TOP OF the current HEAD (later fixes may have touched the same lines):
            # `git revert --no-commit` in a throw-away worktree; a fix that cannot be reverted cleanly any more is marked so
            wt = f"/tmp/serif-revert-{os.getpid()}"
            sh(f"git -C /repo worktree remove --force {wt}")
            sh(f"git -C /repo worktree add --detach {wt} HEAD")
            rv = sh(f"git -C {wt} revert --no-commit {h}")
            diff = sh(f"git -C {wt} diff HEAD").stdout if rv.returncode == 0 else ""
            sh(f"git -C /repo worktree remove --force {wt}")
            sh("git -C /repo worktree prune")
            meta = {"property": prop, "origin": "reverse of fix commit " + h, "summary": " ".join(parts[3:]),
                    "needs_to_manifest": "see summary (the original defect)", "author": "main session (not an independent sub-agent)"}
            meta.update(SUPERSEDED.get(h, {}))
            if not diff.strip():
                meta["not_revertible"] = "git revert conflicts with later fixes in the same lines; not run"
                if os.path.exists(os.path.join(d, "patch.diff")):
                    os.unlink(os.path.join(d, "patch.diff"))
                json.dump(meta, open(os.path.join(d, "meta.json"), "w"), indent=1)
                print("not revertible", d)
                continue
            open(os.path.join(d, "patch.diff"), "w").write(diff)
            json.dump(meta, open(os.path.join(d, "meta.json"), "w"), indent=1)
            print("wrote", d)


if __name__ == "__main__":
    main()
