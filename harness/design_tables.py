"""Regenerate the machine-derived tables of DESIGN.md (between <!-- BEGIN:x --> / <!-- END:x --> markers)."""
import os, sys, json, re, subprocess
HERE = os.path.dirname(os.path.abspath(__file__)); VERIF = os.path.dirname(HERE)
sys.path.insert(0, HERE); sys.path.insert(0, "/repo/src")
import core

def status_table():
    rows = ["| property | model | theorems | check families (quick) | evidence (last quick run: cases / non-trivial / s) |", "|---|---|---|---|---|"]
    models = {"C01": "ObjHeap", "C02": "Tab", "C03": "Expr", "C04": "DType", "C05": "Vec", "C06": "Vec", "C07": "Index", "C08": "Assign",
              "C09": "Join", "C10": "Join", "C11": "Join", "C12": "Group", "C13": "Group", "C14": "Sort", "C15": "AliasHeap",
              "C16": "Fingerprint + ObjHeap", "C17": "Names", "C18": "Expr", "C19": "Csv", "C20": "Repr"}
    for n in range(1, 21):
        pid = f"C{n:02d}"
        th = core.theorem_names(pid)
        ev = {}
        p = os.path.join(VERIF, "evidence", pid + ".json")
        if os.path.exists(p):
            ev = json.load(open(p))
        cov = ev.get("coverage", {})
        fams = ", ".join(f"{k} {v}" for k, v in sorted(cov.get("families", {}).items()))
        rows.append(f"| {pid} | `Model/{models[pid]}.lean` | {len(th)} | {fams or '—'} | {cov.get('evaluations','—')} / {cov.get('distinct_nontrivial','—')} / {ev.get('wall_s','—')} |")
    return "\n".join(rows)

def fixes_table():
    kf = json.load(open(os.path.join(VERIF, "known_findings.json")))
    rows = ["| # | property | commit | what failed |", "|---|---|---|---|"]
    for i, line in enumerate(kf["fixed"], 1):
        parts = line.split()
        rows.append(f"| {i} | {parts[1].split('=')[1]} | `{parts[2]}` | {' '.join(parts[3:]).replace('|', '¦')} |")
    return "\n".join(rows)

def seeded_table():
    p = os.path.join(VERIF, "seeded", "RESULTS.json")
    res = json.load(open(p)) if os.path.exists(p) else {}
    rows = ["| seeded change | property | what it does (needs to manifest) | suite with change | caught by | first replay |", "|---|---|---|---|---|---|"]
    for sid in sorted(res):
        r = res[sid]
        mp = os.path.join(VERIF, "seeded", sid, "meta.json")
        meta = json.load(open(mp)) if os.path.exists(mp) else {}
        if not r.get("applied"):
            rows.append(f"| {sid} | {meta.get('property','')} | {meta.get('summary','')[:140]} | — | patch no longer applies (superseded by a later fix) | |")
            continue
        caught = [f"{p} ({'concrete replay' if c['concrete'] else 'obligation only'})" for p, c in r["checks"].items() if c["exit"] == 1]
        missed = [p for p, c in r["checks"].items() if c["exit"] != 1]
        first = ""
        for p, c in r["checks"].items():
            if c.get("first_replay"):
                first = (c["first_replay"].get("why") or c["first_replay"].get("kind") or "")[:110].replace("|", "¦").replace("\n", " ")
                break
        summ = (meta.get("summary", "") + (" — " + meta.get("needs_to_manifest", "") if meta.get("needs_to_manifest") else ""))[:230].replace("|", "¦").replace("\n", " ")
        rows.append(f"| {sid} | {r.get('property')} | {summ} | {r.get('suite','')} | {', '.join(caught) if caught else 'MISSED: ' + ', '.join(missed)} | {first} |")
    return "\n".join(rows)

def theorems_list():
    out = []
    for n in range(1, 21):
        pid = f"C{n:02d}"
        th = core.theorem_names(pid)
        if th:
            out.append(f"* **{pid}** ({len(th)}): " + ", ".join(f"`{t}`" for t in th))
    return "\n".join(out)


def ties_table():
    import tr
    owners = {}
    for pid, mods in list(core.TIES.items()) + list(tr.ties().items()):
        for m in mods:
            owners.setdefault(m, set()).add(pid)
    rows = ["| tie module | reported by | theorems | generated from |", "|---|---|---|---|"]
    plug = {mod: p for p in tr.plugins() for mod in getattr(p, "TIE", {})}
    for m in sorted(owners):
        path = os.path.join(VERIF, "lean", *m.split(".")) + ".lean"
        txt = core.strip_comments(open(path).read()) if os.path.exists(path) else ""
        n = len(re.findall(r"^theorem\s+", txt, re.M))
        gen = ("`harness/tr/%s.py` → `Gen/%s`" % (plug[m].__name__.split(".")[-1], plug[m].GEN_FILE)) if m in plug else "`harness/py2lean.py`"
        rows.append(f"| `{m}` | {', '.join(sorted(owners[m]))} | {n} | {gen} |")
    return "\n".join(rows)


TABLES = {"ties": ties_table, "status": status_table, "fixes": fixes_table, "seeded": seeded_table, "theorems": theorems_list}

def main():
    path = os.path.join(VERIF, "DESIGN.md")
    s = open(path).read()
    for name, fn in TABLES.items():
        pat = re.compile(r"(<!-- BEGIN:%s -->\n)(.*?)(<!-- END:%s -->)" % (name, name), re.S)
        if pat.search(s):
            body = fn()
            s = pat.sub(lambda m: m.group(1) + body + "\n" + m.group(3), s)
    open(path, "w").write(s)

if __name__ == "__main__":
    main()
