"""Translator plug-in: how `Vector` objects are (re)built -- constructor bookkeeping, copy, to_object, cast, unique (C03, C18).

Reads src/serif/vector.py and src/serif/typing.py with `ast` and translates, statement by statement, into
lean/Serif/Gen/TranslatedCastCopy.lean:

    Vector.__new__      the dtype decision (materialisation of an iterator, `has_items`, the Table exit, plain Python type ->
                        `DataType(type)`, absent dtype -> `infer_dtype(initial)` when there are items, what is stashed in `_dtype`)
                                                                                                    -> newT
    Vector.__init__     `_name` (None, then the argument if it is not None) and `_underlying` (`_precomputed_data` or
                        `tuple(initial)`)                                                           -> initT
    Vector.copy         `use_name`, the values chosen, the dtype / name handed to the constructor   -> copyT
    Vector.__copy__ / __deepcopy__                                                                  -> copyDunderT, deepcopyT
    Vector.to_object    `has_none`, `DataType(object, nullable=has_none)`, the name                 -> toObjectT
    Vector.cast         the two `caster` closures, the conversion loop (None kept, `has_none`, every exception of a conversion
                        -> ValueError), the dtype decision, the constructor call                    -> castT
    Vector.unique       the constructor calls `Vector(out)` of both paths (which elements survive is a parameter) -> uniqueT
    the defaults of `dtype=` / `name=` in the signature of `__new__` / `__init__` (used by `Vector(out)`)

lean/Serif/Tie/CastCopy.lean proves the translated definitions equal to the expression model's `mkVec`, `AVec.copy`, `AVec.copyWith`,
`toObject`, `cast` (Serif/Model/Expr.lean) for every vector, and restates the truthfulness / name theorems on them.

How: a small typed expression translator (`_Ex`: names, `self._underlying/_dtype/_name`, None/True/False/..., `X is None`,
`X is ...`, `A if C else B`, `any(G)`, `list(L)`/`tuple(L)`, `[E for x in L]`, `DataType(K[, nullable=B])`, `infer_dtype(L)`,
`deepcopy(x, memo)`, `self.copy(...)`, `Vector(values[, dtype=D][, name=N][, as_row=self._display_as_row])`) plus statement
translators for straight-line bodies (`N = E`, `return E`, `if C: N = E1 else: N = E2`) and for the one loop of `cast`
(`if elem is None: ...; continue`, `out.append(E)`, `N = E`, `try: <if/else of out.append(call)> except Exception: ... raise
ValueError(...)`).  `Vector.__new__` -- isinstance tests on ABCs, a set comprehension, a class dispatch -- is a *shape-checked
transcription at statement level*: every statement (docstrings, comments and message texts dropped) must unparse to the
understood text, and is then emitted as its one Lean step; the class-dispatch block is only checked not to assign `dtype`.

What stays a parameter (oracle) of the generated definitions: `infer_dtype`; `isinstance(x, cls)` on an element; `x.date()`,
`date.fromisoformat(x)` / `datetime.fromisoformat(x)`, `target_type(x)` (each returns a Python value or raises); the recursive
`elem.cast(target_type)` on a nested vector; `deepcopy(x, memo)`; whether `initial` is an iterator / a Vector / made of vectors of
one length; the element selection of `unique`.  `as_row=` / `_display_as_row`, `_wild`, the fingerprint cache, the alias tracker
and the subclass dispatch (`_String`, `_Int`, ...) are not represented: the model does not carry them.
The text of error messages, comments, docstrings and blank lines never reach the generated file.
"""
import ast, copy, os, textwrap

import py2lean
from py2lean import TranslateError, find_func, KINDS

GEN_FILE = "TranslatedCastCopy.lean"
TIE = {"Serif.Tie.CastCopy": ["C03", "C18"]}

LIST = "List (Option α)"
LEAN_TYPE = {"bool": "Bool", "kind": "Kind", "dtype": "DType", "dtarg": "DTypeArg", "list": LIST, "elem": "Option α", "val": "α",
             "optname": "Option String", "namearg": "Option (Option String)", "optlist": f"Option ({LIST})", "target": "CastTarget",
             "call": "VectorCall (Option α)"}
LEAN_RESERVED = py2lean._LEAN_WORDS | {"instance", "match", "if", "where", "structure", "theorem", "example", "set", "some", "none"}


def ln(name):
    return name + "_" if name in LEAN_RESERVED else name


def u(node):
    return ast.unparse(node)


def strip_doc(body):
    return [s for s in body if not (isinstance(s, ast.Expr) and isinstance(s.value, ast.Constant))]


class _NoMsg(ast.NodeTransformer):
    """`raise X(<message>) [from e]` -> `raise X(…)`, `warnings.warn(<message>)` -> `warnings.warn(…)`: wording is not behaviour"""

    def visit_Raise(self, node):
        if isinstance(node.exc, ast.Call):
            return ast.Raise(exc=ast.Call(func=node.exc.func, args=[ast.Name(id="…", ctx=ast.Load())], keywords=[]), cause=node.cause)
        return node

    def visit_Call(self, node):
        self.generic_visit(node)
        if u(node.func) == "warnings.warn":
            return ast.Call(func=node.func, args=[ast.Name(id="…", ctx=ast.Load())], keywords=[])
        return node


def norm(node):
    """the text of a statement with docstrings and message texts dropped (comments and blank lines are not in the AST)"""
    n = copy.deepcopy(node)
    for sub in ast.walk(n):
        if hasattr(sub, "body") and isinstance(sub.body, list):
            sub.body = strip_doc(sub.body) or [ast.Pass()]
    n = _NoMsg().visit(n)
    return ast.unparse(ast.fix_missing_locations(n))


def quote(node, first_line=False):
    txt = norm(node)
    lines = txt.split("\n")
    txt = lines[0] if first_line else "  ".join(l.strip() for l in lines)
    return txt.replace("-/", "- /").replace("/-", "/ -")


class _Ex:
    """typed expressions -> (lean text, type)"""

    def __init__(self, where, nullable_default, ctor_defaults=None, available=()):
        self.where = where
        self.nullable_default = nullable_default
        self.ctor_defaults = ctor_defaults            # {"dtype": "None", "name": "None"} read from the signatures
        self.available = set(available)
        self.oracles = []

    def fail(self, node, why=""):
        raise TranslateError(f"{self.where}: {why + ': ' if why else ''}{u(node)[:80] if isinstance(node, ast.AST) else node}")

    def use(self, o):
        if o not in self.oracles:
            self.oracles.append(o)

    def need(self, helper, node):
        if helper not in self.available:
            self.fail(node, f"uses {helper}, which was not translated")

    @staticmethod
    def key(node):
        if isinstance(node, ast.Name):
            return node.id
        if isinstance(node, ast.Attribute) and isinstance(node.value, ast.Name) and node.value.id == "self":
            return "self." + node.attr
        return None

    # which types are Python-optional, and what `is not None` refines them to
    REFINE = {"elem": "val", "optlist": "list", "optname": "name"}

    def test(self, node, env):
        """`N is None` / `N is not None` / `N is ...` on a name of an optional type -> (key, lean, positive = the `none` side)"""
        if isinstance(node, ast.Compare) and len(node.ops) == 1 and isinstance(node.ops[0], (ast.Is, ast.IsNot)) \
                and isinstance(node.comparators[0], ast.Constant):
            c = node.comparators[0].value
            k = self.key(node.left)
            if k in env:
                lean, t = env[k]
                if c is None and t in self.REFINE:
                    return k, lean, isinstance(node.ops[0], ast.Is), self.REFINE[t]
                if c is Ellipsis and t == "namearg":
                    return k, lean, isinstance(node.ops[0], ast.Is), "optname"
        return None

    def coerce(self, e, t, want, node):
        if t == want:
            return e
        if want == "dtarg":
            if t == "none":
                return "DTypeArg.none"
            if t == "dtype":
                return f"(DTypeArg.dataType {e})"
            if t == "kind":
                return f"(DTypeArg.pyType {e})"
        if want == "optname":
            if t == "none":
                return "none"
            if t == "name":
                return f"(some {e})"
        if want == "elem":
            if t == "none":
                return "none"
            if t == "val":
                return f"(some {e})"
        if want == "list" and t == "list":
            return e
        self.fail(node, f"type {t} where {want} is expected")

    def ex(self, node, env):
        if isinstance(node, ast.Constant):
            if node.value is None:
                return "none", "none"
            if node.value is True or node.value is False:
                return ("true" if node.value else "false"), "bool"
            self.fail(node, "constant")
        k = self.key(node)
        if k is not None and k in env:
            return env[k]
        if isinstance(node, ast.Name):
            if node.id in KINDS:
                return KINDS[node.id], "kind"
            self.fail(node, "unknown name")
        if isinstance(node, ast.List) and not node.elts:
            return f"([] : {LIST})", "list"
        if isinstance(node, ast.Compare):
            t = self.test(node, env)
            if t:
                _, lean, is_none, _ = t
                return (f"{lean}.isNone" if is_none else f"(!{lean}.isNone)"), "bool"
            if len(node.ops) == 1 and isinstance(node.ops[0], (ast.Is, ast.IsNot)):
                a, at = self.ex(node.left, env)
                b, bt = self.ex(node.comparators[0], env)
                if at == "target" and bt == "kind":                 # `target_type is date`: identity of classes
                    return (f"({a} == CastTarget.cls {b})" if isinstance(node.ops[0], ast.Is) else f"({a} != CastTarget.cls {b})"), "bool"
            self.fail(node, "comparison")
        if isinstance(node, ast.IfExp):
            t = self.test(node.test, env)
            if t:
                key, lean, is_none, refined = t
                nb, sb = (node.body, node.orelse) if is_none else (node.orelse, node.body)
                a, at = self.ex(nb, env)
                b, bt = self.ex(sb, dict(env, **{key: (lean, refined)}))
                a, b, rt = self.unify(a, at, b, bt, node)
                return f"(match {lean} with | none => {a} | some {lean} => {b})", rt
            self.fail(node, "conditional expression")
        if isinstance(node, ast.ListComp):
            return self.comp(node, env)
        if isinstance(node, ast.Call):
            return self.call(node, env)
        self.fail(node, "expression")

    def unify(self, a, at, b, bt, node):
        if at == bt:
            return a, b, at
        for want in ("optname", "elem", "dtarg"):
            try:
                return self.coerce(a, at, want, node), self.coerce(b, bt, want, node), want
            except TranslateError:
                pass
        self.fail(node, f"branches of types {at} and {bt}")

    def comp(self, node, env):
        """`E for x in L` -> map"""
        if len(node.generators) != 1 or node.generators[0].ifs or node.generators[0].is_async \
                or not isinstance(node.generators[0].target, ast.Name):
            self.fail(node, "comprehension")
        g = node.generators[0]
        src, st = self.ex(g.iter, env)
        if st != "list":
            self.fail(g.iter, "iteration over something that is not the tuple of elements")
        x = ln(g.target.id)
        e, t = self.ex(node.elt, dict(env, **{g.target.id: (x, "elem")}))
        return f"({src}.map (fun {x} => {e}))", ("list" if t == "elem" else "list:" + t)

    def call(self, node, env):
        f = node.func
        fn = u(f)
        if fn in ("list", "tuple") and len(node.args) == 1 and not node.keywords:
            e, t = self.ex(node.args[0], env)
            if t != "list":
                self.fail(node, f"{fn}() of a value of type {t}")
            return e, "list"                                          # same elements, same order
        if fn == "any" and len(node.args) == 1 and not node.keywords and isinstance(node.args[0], ast.GeneratorExp):
            e, t = self.comp(node.args[0], env)
            if t != "list:bool":
                self.fail(node, "any() over elements that are not booleans")
            return f"({e}.any (fun b => b))", "bool"
        if fn == "DataType" and 1 <= len(node.args) <= 2:
            k = self.coerce(*self.ex(node.args[0], env), "kind", node)
            n = self.coerce(*self.ex(node.args[1], env), "bool", node) if len(node.args) == 2 else None
            for kw in node.keywords:
                if kw.arg != "nullable" or n is not None:
                    self.fail(node, "DataType arguments")
                n = self.coerce(*self.ex(kw.value, env), "bool", node)
            if n is None:
                n = self.nullable_default
            return f"({{ kind := {k}, nullable := {n} }} : DType)", "dtype"
        if fn == "infer_dtype" and len(node.args) == 1 and not node.keywords:
            e = self.coerce(*self.ex(node.args[0], env), "list", node)
            self.use("infer_dtype")
            return f"(infer_dtype {e})", "dtype"
        if fn == "deepcopy" and len(node.args) == 2 and not node.keywords and u(node.args[1]) == "memo":
            e = self.coerce(*self.ex(node.args[0], env), "elem", node)
            self.use("deepcopy")
            return f"(deepcopy {e})", "elem"
        if fn == "self.copy" and not node.keywords and len(node.args) <= 1:
            self.need("copyT", node)
            nv = "none"
            if node.args:
                nv = "(some " + self.coerce(*self.ex(node.args[0], env), "list", node) + ")"
            s = " ".join(env[k][0] for k in ("self._underlying", "self._dtype", "self._name"))
            return f"(copyT {s} {nv} none)", "call"                 # `name` not passed: the sentinel `...`
        if fn == "Vector":
            return self.vector_call(node, env)
        self.fail(node, "call")

    def vector_call(self, node, env):
        if len(node.args) != 1:
            self.fail(node, "Vector arguments")
        vals = self.coerce(*self.ex(node.args[0], env), "list", node)
        if self.ctor_defaults is None:
            self.fail(node, "the defaults of Vector.__new__ / __init__ were not read")
        kws = {"dtype": None, "name": None}
        for kw in node.keywords:
            if kw.arg in kws and kws[kw.arg] is None:
                kws[kw.arg] = kw.value
            elif (kw.arg, u(kw.value)) == ("as_row", "self._display_as_row"):
                continue                                              # pass-through of self's, not represented
            else:
                self.fail(node, "Vector keyword " + str(kw.arg))
        parts = {}
        for arg, want in (("dtype", "dtarg"), ("name", "optname")):
            if kws[arg] is None:                                      # not passed: the default of the signature
                if self.ctor_defaults[arg] != "None":
                    self.fail(node, f"default of {arg}= is {self.ctor_defaults[arg]}")
                parts[arg] = "DTypeArg.none" if want == "dtarg" else "none"
            else:
                parts[arg] = self.coerce(*self.ex(kws[arg], env), want, node)
        return (f"({{ values := {vals}, dtype := {parts['dtype']}, name := {parts['name']} }} : VectorCall (Option α))"), "call"

    # -- straight-line statements ---------------------------------------------------------------------------------------
    def stmts(self, body, env, ind, wrap=lambda e: e):
        pad = " " * ind
        body = strip_doc(body)
        if not body:
            raise TranslateError(f"{self.where}: a path ends without return")
        s, rest = body[0], body[1:]
        if isinstance(s, ast.Return) and s.value is not None:
            if rest:
                self.fail(rest[0], "statement after return")
            e, t = self.ex(s.value, env)
            self.result_type = t
            return f"{pad}-- {quote(s)}\n{pad}{wrap(e)}"
        if isinstance(s, ast.Assign) and len(s.targets) == 1 and isinstance(s.targets[0], ast.Name):
            n = s.targets[0].id
            e, t = self.ex(s.value, env)
            if t == "none":
                self.fail(s, "assignment of a bare None")
            return f"{pad}-- {quote(s)}\n{pad}let {ln(n)} := {e}\n" + self.stmts(rest, dict(env, **{n: (ln(n), t)}), ind, wrap)
        if isinstance(s, ast.If) and len(s.body) == 1 and len(s.orelse) == 1 and all(
                isinstance(b, ast.Assign) and len(b.targets) == 1 and isinstance(b.targets[0], ast.Name) for b in (s.body[0], s.orelse[0])) \
                and s.body[0].targets[0].id == s.orelse[0].targets[0].id:
            n = s.body[0].targets[0].id
            note = f"{pad}-- if {quote(s.test)}: {quote(s.body[0])}  else: {quote(s.orelse[0])}\n"
            # `isinstance(T, type)` on the cast target: a class or something else
            if u(s.test).startswith("isinstance(") and len(s.test.args) == 2 and u(s.test.args[1]) == "type" \
                    and self.key(s.test.args[0]) in env and env[self.key(s.test.args[0])][1] == "target":
                key = self.key(s.test.args[0])
                lean = env[key][0]
                a, at = self.ex(s.body[0].value, dict(env, **{key: (lean, "kind")}))
                b, bt = self.ex(s.orelse[0].value, env)
                if at != bt:
                    self.fail(s, f"branches of types {at} and {bt}")
                e = (f"(match {lean} with\n{pad}    | CastTarget.cls {lean} => {a}\n{pad}    | CastTarget.callable _ => {b})")
                return note + f"{pad}let {ln(n)} := {e}\n" + self.stmts(rest, dict(env, **{n: (ln(n), at)}), ind, wrap)
            c = self.coerce(*self.ex(s.test, env), "bool", s)
            a, at = self.ex(s.body[0].value, env)
            b, bt = self.ex(s.orelse[0].value, env)
            a, b, t = self.unify(a, at, b, bt, s)
            return note + f"{pad}let {ln(n)} := (if {c} then {a} else {b})\n" + self.stmts(rest, dict(env, **{n: (ln(n), t)}), ind, wrap)
        self.fail(s, "statement")


# ---------------------------------------------------------------------------------------------------------------------
PRELUDE = """/-- the `dtype=` argument of a constructor call, and what `__new__` stashes in `_dtype`: `None`, a `DataType`, or a plain class -/
inductive DTypeArg where
  | none
  | dataType (d : DType)
  | pyType (k : Kind)
  deriving DecidableEq, Repr

/-- the arguments of a constructor call `Vector(values, dtype=…, name=…)` (`as_row=` is not represented) -/
structure VectorCall (ε : Type) where
  values : List ε
  dtype : DTypeArg
  name : Option String
  deriving DecidableEq, Repr

/-- the argument of `cast`: a class, or any other callable -/
inductive CastTarget where
  | cls (k : Kind)
  | callable (id : Nat)
  deriving DecidableEq, Repr

/-- what `Vector.__new__` returns: a ready `Table`, or an instance with `_dtype` (and `_precomputed_data` when it was set) -/
inductive NewResult (ε : Type) where
  | table
  | instance (dtype : DTypeArg) (precomputed : Option (List ε))
  deriving DecidableEq, Repr

/-- `enumerate(l)` -/
def enumerateFrom {β : Type} : Nat → List β → List (Nat × β)
  | _, [] => []
  | i, x :: xs => (i, x) :: enumerateFrom (i + 1) xs

def enumerate {β : Type} (l : List β) : List (Nat × β) := enumerateFrom 0 l

/-- a `for` loop whose body may raise: the state after the last iteration, or the first exception -/
def forLoop {σ β ε : Type} (body : σ → β → Except ε σ) : σ → List β → Except ε σ
  | s, [] => .ok s
  | s, x :: xs =>
    match body s x with
    | .ok s' => forLoop body s' xs
    | .error e => .error e"""

SELF3 = f"(self_underlying : {LIST}) (self_dtype : DTypeArg) (self_name : Option String)"
ORACLE_SIG = {
    "infer_dtype": f"(infer_dtype : {LIST} → DType)",
    "deepcopy": "(deepcopy : Option α → Option α)",
    "isinstance": "(isinstance : α → Kind → Bool)",
    "method_date": "(method_date : α → Except ε (Option α))",
    "fromisoformat": "(fromisoformat : Kind → α → Except ε (Option α))",
    "call_target": "(call_target : CastTarget → α → Except ε (Option α))",
    "is_vector": "(is_vector : α → Bool)",
    "elem_cast": "(elem_cast : α → CastTarget → Except ε (Option α))",
}
ORACLE_DOC = {
    "infer_dtype": "`infer_dtype` is the library's",
    "deepcopy": "`deepcopy x` is `copy.deepcopy(x, memo)` of one element",
    "isinstance": "`isinstance x K` is Python's `isinstance(x, K)` on a non-None element",
    "method_date": "`method_date x` is `x.date()`",
    "fromisoformat": "`fromisoformat K x` is `K.fromisoformat(x)`",
    "call_target": "`call_target T x` is `T(x)`, the call of the cast target on an element",
    "is_vector": "`is_vector x` is `isinstance(x, Vector)`",
    "elem_cast": "`elem_cast x T` is the recursive `x.cast(T)` on a nested vector",
}


def self_env():
    return {"self._underlying": ("self_underlying", "list"), "self._dtype": ("self_dtype", "dtarg"), "self._name": ("self_name", "optname")}


def doc_text(txt):
    return textwrap.fill("/-- " + txt + " -/", width=128, subsequent_indent="    ", break_on_hyphens=False)


def oracle_doc(tr):
    return (" (" + "; ".join(ORACLE_DOC[o] for o in tr.oracles) + ")") if tr.oracles else ""


def _sig(f, where, expect, defaults=None):
    a = f.args
    names = [x.arg for x in a.args]
    if names != expect or a.vararg or a.kwonlyargs or a.posonlyargs:
        raise TranslateError(f"{where}: signature ({', '.join(names)})")
    if defaults is not None and [u(d) for d in a.defaults] != defaults:
        raise TranslateError(f"{where}: defaults ({', '.join(u(d) for d in a.defaults)})")
    if defaults is None and a.defaults:
        raise TranslateError(f"{where}: defaults")


def _dataclass_nullable_default(ttree):
    for node in ast.walk(ttree):
        if isinstance(node, ast.ClassDef) and node.name == "DataType":
            fields = [s for s in node.body if isinstance(s, ast.AnnAssign) and isinstance(s.target, ast.Name)]
            if [s.target.id for s in fields][:2] != ["kind", "nullable"]:
                raise TranslateError("DataType: fields " + ", ".join(s.target.id for s in fields))
            s = fields[1]
            if isinstance(s.value, ast.Constant) and isinstance(s.value.value, bool):
                return "true" if s.value.value else "false"
    raise TranslateError("DataType: default of the field `nullable`")


# -- Vector.__new__: shape-checked transcription, statement by statement ----------------------------------------------------
def translate_new(vtree, nd):
    f = find_func(vtree, "__new__", "Vector")
    a = f.args
    if [x.arg for x in a.args] != ["cls", "initial", "dtype", "name", "as_row"] or [u(d) for d in a.defaults] != ["()", "None", "None", "False"] \
            or a.vararg or a.kwonlyargs:
        raise TranslateError("Vector.__new__: signature")
    body = strip_doc(f.body)
    W = "Vector.__new__"
    steps = []                      # (python text, lean lines)

    def take(expected, lean, what):
        if not body:
            raise TranslateError(f"{W}: missing statement ({what})")
        s = body.pop(0)
        got = norm(s)
        if got != expected:
            raise TranslateError(f"{W}: {what}: " + got.replace("\n", " ")[:100])
        steps.append((quote(s), lean))

    take("_precomputed_data = None", [f"let _precomputed_data : Option ({LIST}) := none"], "initialisation of _precomputed_data")
    take("if isinstance(initial, Iterator):\n    initial = tuple(initial)\n    _precomputed_data = initial",
         ["-- (`tuple(initial)` holds the elements of `initial` in order: the list `initial` stands for both)",
          "let _precomputed_data := if initial_is_iterator then some initial else _precomputed_data"], "materialisation of an iterator")
    take("has_items = len(initial) > 0 if isinstance(initial, Vector) else bool(initial)",
         ["let has_items := if initial_is_vector then decide (initial.length > 0) else !initial.isEmpty"], "has_items")
    take("if has_items and all((isinstance(x, Vector) for x in initial)):\n    if len({len(x) for x in initial}) == 1:\n"
         "        from .table import Table\n        return Table(initial=initial, dtype=dtype, name=name, as_row=as_row)\n    warnings.warn(…)",
         ["if has_items && all_vectors && same_length then NewResult.table else"], "the Table exit")
    take("if dtype is not None and (not isinstance(dtype, DataType)):\n    dtype = DataType(dtype)",
         ["let dtype := match dtype with",
          f"  | DTypeArg.pyType k => DTypeArg.dataType ({{ kind := k, nullable := {nd} }} : DType)",
          "  | d => d"], "conversion of a plain type")
    take("if dtype is None and has_items:\n    dtype = infer_dtype(initial)",
         ["let dtype := match dtype with",
          "  | DTypeArg.none => if has_items then DTypeArg.dataType (infer_dtype initial) else DTypeArg.none",
          "  | d => d"], "inference")
    # class dispatch: everything up to `instance._dtype = dtype` must leave `dtype` and `_precomputed_data` alone
    skipped = []
    while body and norm(body[0]) != "instance._dtype = dtype":
        s = body.pop(0)
        for sub in ast.walk(s):
            if isinstance(sub, ast.Name) and isinstance(sub.ctx, (ast.Store, ast.Del)) and sub.id in ("dtype", "_precomputed_data", "initial"):
                raise TranslateError(f"{W}: `{sub.id}` is assigned after the dtype decision: " + quote(s, True))
            if isinstance(sub, (ast.Return, ast.Raise, ast.Global, ast.Nonlocal)):
                raise TranslateError(f"{W}: exit inside the class dispatch: " + quote(s, True))
        skipped.append(quote(s, True))
    if [k for k in skipped if k.startswith("instance = ")] != ["instance = super(Vector, target_class).__new__(target_class)"]:
        raise TranslateError(f"{W}: creation of the instance")
    steps.append(("  ".join(skipped), ["-- (class dispatch and creation of the instance: `dtype` is not assigned here; not represented)"]))
    take("instance._dtype = dtype", [], "stash of the dtype")
    take("if _precomputed_data is not None:\n    instance._precomputed_data = _precomputed_data", [], "stash of the materialised data")
    take("return instance", ["NewResult.instance dtype _precomputed_data"], "return")
    if body:
        raise TranslateError(f"{W}: statements after return")
    lines = []
    for py, lean in steps:
        lines.append("  -- " + py)
        lines += ["  " + l for l in lean]
    doc = doc_text("transcribed statement by statement from `Vector.__new__` (every statement shape-checked against the understood text). "
                   "`initial` is the list of the elements of the argument; `initial_is_iterator` / `initial_is_vector` are "
                   "`isinstance(initial, Iterator)` / `isinstance(initial, Vector)`; `all_vectors` is `all(isinstance(x, Vector) for x in "
                   "initial)` and `same_length` is `len({len(x) for x in initial}) == 1`; `infer_dtype` is the library's")
    return (f"{doc}\ndef newT {{α : Type}} (infer_dtype : {LIST} → DType)\n"
            f"    (initial_is_iterator initial_is_vector all_vectors same_length : Bool)\n"
            f"    (initial : {LIST}) (dtype : DTypeArg) : NewResult (Option α) :=\n" + "\n".join(lines))


# -- Vector.__init__ ----------------------------------------------------------------------------------------------------
NOT_REPRESENTED_ATTRS = {"_display_as_row", "_wild", "_fp", "_fp_powers"}


def translate_init(vtree):
    f = find_func(vtree, "__init__", "Vector")
    a = f.args
    if [x.arg for x in a.args] != ["self", "initial", "dtype", "name", "as_row"] or [u(d) for d in a.defaults] != ["()", "None", "None", "False"] \
            or a.vararg or a.kwonlyargs:
        raise TranslateError("Vector.__init__: signature")
    W = "Vector.__init__"
    lines = []
    have_name = have_data = False
    for s in strip_doc(f.body):
        txt = norm(s)
        q = quote(s)
        # statements about other state than `_name` / `_underlying`
        tgt = None
        if isinstance(s, (ast.Assign, ast.AnnAssign)):
            t0 = s.targets[0] if isinstance(s, ast.Assign) else s.target
            if isinstance(s, ast.Assign) and len(s.targets) != 1:
                raise TranslateError(f"{W}: {q[:80]}")
            tgt = u(t0)
        if tgt is not None and tgt.startswith("self.") and tgt[5:] in NOT_REPRESENTED_ATTRS:
            lines.append(f"  -- {q}   (not represented)")
            continue
        if txt == "previous = self.__dict__.get('_underlying')" or txt.startswith("if previous is not None:\n    _ALIAS_TRACKER.unregister(") \
                or txt == "_ALIAS_TRACKER.register(self, id(self._underlying))":
            if "\n" in txt and len(s.body) != 1:
                raise TranslateError(f"{W}: {q[:80]}")
            lines.append(f"  -- {q}   (alias tracker: not represented)")
            continue
        if txt == "self._name = None" and not have_name:
            lines += [f"  -- {q}", "  let self_name : Option String := none"]
            have_name = True
            continue
        if txt == "if name is not None:\n    self._name = name" and have_name:
            lines += [f"  -- {q}", "  let self_name := match name with | none => self_name | some name => some name"]
            continue
        if txt == ("if '_precomputed_data' in self.__dict__:\n    self._underlying = self._precomputed_data\n    del self._precomputed_data\n"
                   "else:\n    self._underlying = tuple(initial)") and not have_data:
            lines += [f"  -- {q}", "  let self_underlying := match precomputed_data with | some data => data | none => initial"]
            have_data = True
            continue
        raise TranslateError(f"{W}: statement {q[:90]}")
    if not (have_name and have_data):
        raise TranslateError(f"{W}: `_name` or `_underlying` is not set")
    lines.append("  (self_name, self_underlying)")
    doc = doc_text("translated statement by statement from `Vector.__init__`: the `_name` and `_underlying` the instance ends with. "
                   "`precomputed_data` is the attribute `_precomputed_data` when `__new__` set it; `initial` is the list of the elements "
                   "of the argument (`tuple(initial)` holds them in order)")
    return (f"{doc}\ndef initT {{α : Type}} (precomputed_data : Option ({LIST})) (initial : {LIST}) (name : Option String) :\n"
            f"    Option String × {LIST} :=\n" + "\n".join(lines))


def ctor_defaults(vtree):
    out = {}
    for fn in ("__new__", "__init__"):
        f = find_func(vtree, fn, "Vector")
        names = [x.arg for x in f.args.args]
        d = dict(zip(names[len(names) - len(f.args.defaults):], [u(x) for x in f.args.defaults]))
        for k in ("dtype", "name"):
            if k not in d:
                raise TranslateError(f"Vector.{fn}: no default for {k}")
            if out.setdefault(k, d[k]) != d[k]:
                raise TranslateError(f"Vector.__new__ / __init__: different defaults for {k}")
    return out


# -- straight-line methods --------------------------------------------------------------------------------------------
def _method(vtree, name, lean_name, params, nd, defaults, available, sig_defaults=None, wrap_doc=""):
    f = find_func(vtree, name, "Vector")
    _sig(f, f"Vector.{name}", ["self"] + [p for p, _ in params], sig_defaults)
    tr = _Ex(f"Vector.{name}", nd, defaults, available)
    env = self_env()
    for p, t in params:
        if t is not None:
            env[p] = (ln(p), t)
    body = tr.stmts(f.body, env, 2)
    if tr.result_type != "call":
        raise TranslateError(f"Vector.{name}: result of type {tr.result_type}")
    ps = "\n    ".join([ORACLE_SIG[o] for o in tr.oracles] + [" ".join([SELF3] + [f"({ln(p)} : {LEAN_TYPE[t]})" for p, t in params if t is not None])])
    doc = doc_text(f"translated statement by statement from `Vector.{name}`{wrap_doc}: the arguments of the constructor call it returns" + oracle_doc(tr))
    return f"{doc}\ndef {lean_name} {{α : Type}} {ps} : VectorCall (Option α) :=\n{body}"


# -- Vector.cast --------------------------------------------------------------------------------------------------------
def _caster_def(tr, fdef, ind):
    """`def caster(x): if isinstance(x, K): return E ... return E` -> a Lean function α → Except ε (Option α)"""
    if fdef.name != "caster" or [a.arg for a in fdef.args.args] != ["x"] or fdef.args.defaults or fdef.args.vararg or fdef.args.kwarg:
        tr.fail(fdef, "nested function")
    pad = " " * ind

    def value(e):
        t = u(e)
        if t == "x":
            return ".ok (some x)"
        if t == "x.date()":
            tr.use("method_date")
            return "method_date x"
        if isinstance(e, ast.Call) and isinstance(e.func, ast.Attribute) and e.func.attr == "fromisoformat" and u(e.func.value) in ("date", "datetime") \
                and [u(a) for a in e.args] == ["x"] and not e.keywords:
            tr.use("fromisoformat")
            return f"fromisoformat {KINDS[u(e.func.value)]} x"
        tr.fail(e, "value returned by caster")

    lines = [f"{pad}fun x =>"]
    body = strip_doc(fdef.body)
    for i, s in enumerate(body):
        last = i == len(body) - 1
        if last:
            if not (isinstance(s, ast.Return) and s.value is not None):
                tr.fail(s, "caster must end with a return")
            lines += [f"{pad}  -- {quote(s)}", f"{pad}  {value(s.value)}"]
        else:
            if not (isinstance(s, ast.If) and not s.orelse and len(s.body) == 1 and isinstance(s.body[0], ast.Return) and s.body[0].value is not None
                    and isinstance(s.test, ast.Call) and u(s.test.func) == "isinstance" and len(s.test.args) == 2 and u(s.test.args[0]) == "x"
                    and u(s.test.args[1]) in KINDS):
                tr.fail(s, "statement of caster")
            tr.use("isinstance")
            lines += [f"{pad}  -- {quote(s)}", f"{pad}  if isinstance x {KINDS[u(s.test.args[1])]} then {value(s.body[0].value)} else"]
    return "\n".join(lines)


def _caster_chain(tr, s, env, ind):
    """if target_type is K1: def caster … elif target_type is K2: def caster … else: caster = target_type"""
    pad = " " * ind
    out = []
    node = s
    first = True
    while True:
        if isinstance(node, ast.If):
            c = tr.coerce(*tr.ex(node.test, env), "bool", node)
            b = strip_doc(node.body)
            if len(b) != 1 or not isinstance(b[0], ast.FunctionDef):
                tr.fail(node, "branch that does not define caster")
            out.append(f"{pad}{'if' if first else 'else if'} {c} then   -- {'if' if first else 'elif'} {quote(node.test)}: def caster(x):")
            out.append(_caster_def(tr, b[0], ind + 2))
            first = False
            if len(node.orelse) == 1 and isinstance(node.orelse[0], ast.If):
                node = node.orelse[0]
                continue
            rest = strip_doc(node.orelse)
            if len(rest) != 1 or norm(rest[0]) != "caster = target_type" or env.get("target_type", (None, None))[1] != "target":
                tr.fail(node, "last branch of the caster chain")
            tr.use("call_target")
            out.append(f"{pad}else   -- else: caster = target_type")
            out.append(f"{pad}  fun x => call_target {env['target_type'][0]} x")
            return "\n".join(out)
        tr.fail(node, "caster chain")


def _cast_loop(tr, loop, env, ind, state):
    """the conversion loop -> the Lean function of one iteration (state -> (index, element) -> Except Err state)"""
    pad = " " * ind
    if not (isinstance(loop.target, ast.Tuple) and len(loop.target.elts) == 2 and all(isinstance(e, ast.Name) for e in loop.target.elts)
            and u(loop.iter) == "enumerate(self._underlying)" and not loop.orelse):
        tr.fail(loop, "loop header")
    iv, ev = (e.id for e in loop.target.elts)
    if iv in state or ev in state or iv == ev:
        tr.fail(loop, "loop variables")
    st_t = " × ".join(LEAN_TYPE[env[v][1]] for v in state)
    lines = [f"{pad}fun (st : {st_t}) (ie : Nat × Option α) =>"]
    for j, v in enumerate(state):
        proj = ".".join(["st"] + ["2"] * j + (["1"] if j < len(state) - 1 else []))
        lines.append(f"{pad}  let {ln(v)} := {proj}")
    lines += [f"{pad}  let {ln(iv)} := ie.1", f"{pad}  let {ln(ev)} := ie.2"]
    env = dict(env, **{iv: (ln(iv), "nat"), ev: (ln(ev), "elem")})
    fin = "(" + ", ".join(ln(v) for v in state) + ")"

    def block(body, env, ind, in_loop_tail):
        pad = " " * ind
        body = strip_doc(body)
        if not body:
            if not in_loop_tail:
                raise TranslateError(f"{tr.where}: a branch of the loop body falls through into the statements after it")
            return f"{pad}.ok {fin}"
        s, rest = body[0], body[1:]
        note = f"{pad}-- {quote(s, first_line=isinstance(s, (ast.If, ast.Try)))}\n"
        if isinstance(s, ast.Continue):
            return note + f"{pad}.ok {fin}"
        if isinstance(s, ast.Expr) and isinstance(s.value, ast.Call) and u(s.value.func) in [v + ".append" for v in state if env[v][1] == "list"] \
                and len(s.value.args) == 1 and not s.value.keywords:
            v = s.value.func.value.id
            e = tr.coerce(*tr.ex(s.value.args[0], env), "elem", s)
            return note + f"{pad}let {ln(v)} := {ln(v)} ++ [{e}]\n" + block(rest, env, ind, in_loop_tail)
        if isinstance(s, ast.Assign) and len(s.targets) == 1 and isinstance(s.targets[0], ast.Name) and s.targets[0].id in state:
            v = s.targets[0].id
            e = tr.coerce(*tr.ex(s.value, env), env[v][1], s)
            return note + f"{pad}let {ln(v)} := {e}\n" + block(rest, env, ind, in_loop_tail)
        if isinstance(s, ast.If) and not s.orelse:
            t = tr.test(s.test, env)
            if t and t[0] == ev and t[2]:                                    # `if elem is None: …; continue`
                if not isinstance(strip_doc(s.body)[-1], ast.Continue):
                    tr.fail(s, "None branch that does not end with continue")
                return (note + f"{pad}match {t[1]} with\n{pad}| none =>\n" + block(s.body, env, ind + 2, False) + "\n"
                        + f"{pad}| some {t[1]} =>\n" + block(rest, dict(env, **{ev: (t[1], "val")}), ind + 2, in_loop_tail))
        if isinstance(s, ast.Try):
            return note + try_stmt(s, rest, env, ind, in_loop_tail)
        tr.fail(s, "statement of the loop body")

    def conversion(call, env):
        """a call that may raise: `caster(elem)` / `elem.cast(target_type)` on the (non-None) element"""
        t = u(call)
        if env[ev][1] != "val":
            tr.fail(call, "conversion of an element that may be None")
        if t == f"caster({ev})" and env.get("caster", (None, None))[1] == "fn":
            return f"caster {env[ev][0]}"
        if t == f"{ev}.cast(target_type)" and env.get("target_type", (None, None))[1] == "target":
            tr.use("elem_cast")
            return f"elem_cast {env[ev][0]} {env['target_type'][0]}"
        tr.fail(call, "conversion")

    def try_stmt(s, rest, env, ind, in_loop_tail):
        pad = " " * ind
        if s.orelse or s.finalbody or len(s.handlers) != 1 or u(s.handlers[0].type) != "Exception":
            tr.fail(s, "try shape")
        h = s.handlers[0]
        hb = strip_doc(h.body)
        if not hb or not isinstance(hb[-1], ast.Raise) or not isinstance(hb[-1].exc, ast.Call) or u(hb[-1].exc.func) != "ValueError":
            tr.fail(s, "handler that does not end with raise ValueError(…)")
        for x in hb[:-1]:                                                     # only names for the message may be computed
            if not (isinstance(x, ast.Assign) and len(x.targets) == 1 and isinstance(x.targets[0], ast.Name) and x.targets[0].id not in env):
                tr.fail(x, "statement of the handler")
        tb = strip_doc(s.body)
        if len(tb) != 1 or not isinstance(tb[0], ast.If) or len(tb[0].body) != 1 or len(tb[0].orelse) != 1:
            tr.fail(s, "try body")
        iff = tb[0]
        if u(iff.test) != f"isinstance({ev}, Vector)":
            tr.fail(iff.test, "test of the try body")
        calls, accs = [], set()
        for b in (iff.body[0], iff.orelse[0]):
            if not (isinstance(b, ast.Expr) and isinstance(b.value, ast.Call) and isinstance(b.value.func, ast.Attribute)
                    and b.value.func.attr == "append" and isinstance(b.value.func.value, ast.Name) and b.value.func.value.id in state
                    and env[b.value.func.value.id][1] == "list" and len(b.value.args) == 1 and not b.value.keywords):
                tr.fail(b, "branch of the try body")
            accs.add(b.value.func.value.id)
            calls.append(conversion(b.value.args[0], env))
        if len(accs) != 1:
            tr.fail(iff, "the branches append to different lists")
        acc = ln(accs.pop())
        tr.use("is_vector")
        lines = [f"{pad}--   if {quote(iff.test)}: {quote(iff.body[0])}  else: {quote(iff.orelse[0])}",
                 f"{pad}match (if is_vector {env[ev][0]} then {calls[0]} else {calls[1]}) with",
                 f"{pad}| .error _ =>",
                 f"{pad}  -- except Exception: {'  '.join(quote(x) for x in hb)}",
                 f"{pad}  .error Err.value",
                 f"{pad}| .ok converted =>",
                 f"{pad}  -- (the `{acc}.append(…)` of the branch taken)",
                 f"{pad}  let {acc} := {acc} ++ [converted]",
                 block(rest, env, ind + 2, in_loop_tail)]
        return "\n".join(lines)

    lines.append(block(loop.body, env, ind + 2, True))
    return "\n".join(lines), fin


def translate_cast(vtree, nd, defaults):
    f = find_func(vtree, "cast", "Vector")
    _sig(f, "Vector.cast", ["self", "target_type"])
    tr = _Ex("Vector.cast", nd, defaults)
    env = self_env()
    env["target_type"] = ("target_type", "target")
    body = strip_doc(f.body)
    out = []
    # leading assignments `N = E`, then the caster chain
    i = 0
    while i < len(body) and isinstance(body[i], ast.Assign):
        s = body[i]
        if len(s.targets) != 1 or not isinstance(s.targets[0], ast.Name):
            tr.fail(s, "assignment")
        e, t = tr.ex(s.value, env)
        n = s.targets[0].id
        out += [f"  -- {quote(s)}", f"  let {ln(n)} := {e}"]
        env[n] = (ln(n), t)
        i += 1
    if i >= len(body) or not isinstance(body[i], ast.If):
        tr.fail(body[i] if i < len(body) else f, "caster chain expected")
    out += ["  -- (the chain of tests that chooses `caster`)", "  let caster : α → Except ε (Option α) :=", _caster_chain(tr, body[i], env, 4)]
    env["caster"] = ("caster", "fn")
    i += 1
    # loop state: `out = []`, `has_none = False`
    state = []
    while i < len(body) and isinstance(body[i], ast.Assign):
        s = body[i]
        if len(s.targets) != 1 or not isinstance(s.targets[0], ast.Name):
            tr.fail(s, "assignment")
        e, t = tr.ex(s.value, env)
        if t not in ("list", "bool"):
            tr.fail(s, "loop state")
        n = s.targets[0].id
        out += [f"  -- {quote(s)}", f"  let {ln(n)} := {e}"]
        env[n] = (ln(n), t)
        state.append(n)
        i += 1
    if i >= len(body) or not isinstance(body[i], ast.For) or len(state) < 1:
        tr.fail(body[i] if i < len(body) else f, "conversion loop expected")
    step, fin = _cast_loop(tr, body[i], env, 6, state)
    out += [f"  -- {quote(body[i], first_line=True)}", "  match forLoop (", step + ")", f"      {fin} (enumerate self_underlying) with",
            "  | .error e => .error e", f"  | .ok {fin} =>"]
    i += 1
    tail = tr.stmts(body[i:], env, 4, wrap=lambda e: ".ok " + e)
    if tr.result_type != "call":
        raise TranslateError("Vector.cast: result type")
    out.append(tail)
    order = ["isinstance", "method_date", "fromisoformat", "call_target", "is_vector", "elem_cast", "infer_dtype"]
    unknown = [o for o in tr.oracles if o not in order]
    if unknown:
        raise TranslateError("Vector.cast: oracle " + ", ".join(unknown))
    tr.oracles = order              # a fixed parameter list: an edit that stops using an oracle must not change the signature
    ps = "\n    ".join([ORACLE_SIG[o] for o in tr.oracles] + [SELF3 + " (target_type : CastTarget)"])
    doc = doc_text("translated statement by statement from `Vector.cast`: the arguments of the constructor call it returns, or the exception "
                   "raised (`Err.value` = ValueError). A conversion returns a Python value (`none` = None) or raises (`.error`, any exception "
                   "class `ε`)" + oracle_doc(tr))
    return f"{doc}\ndef castT {{α ε : Type}} {ps} :\n    Except Err (VectorCall (Option α)) :=\n" + "\n".join(out)


# -- Vector.unique ------------------------------------------------------------------------------------------------------
def translate_unique(vtree, nd, defaults):
    """the constructor calls only: every `return` of the function must be `return Vector(out)`; how `out` is filled (the selection
    of the first occurrences) is a parameter"""
    f = find_func(vtree, "unique", "Vector")
    _sig(f, "Vector.unique", ["self"])
    tr = _Ex("Vector.unique", nd, defaults)
    rets = [n for n in ast.walk(f) if isinstance(n, ast.Return)]
    if not rets:
        raise TranslateError("Vector.unique: no return")
    texts = set()
    for r in rets:
        if r.value is None:
            tr.fail(r, "bare return")
        e, t = tr.ex(r.value, dict(self_env(), out=("out", "list")))
        if t != "call":
            tr.fail(r, "return of something that is not a constructor call")
        texts.add((e, quote(r)))
    if len(texts) != 1:
        raise TranslateError("Vector.unique: the returns differ: " + " / ".join(sorted(q for _, q in texts)))
    for n in ast.walk(f):                                                     # `out` must hold elements of self only
        if isinstance(n, ast.Call) and u(n.func) == "out.append" and [u(a) for a in n.args] != ["x"]:
            tr.fail(n, "out.append of something that is not the loop element")
        if isinstance(n, ast.For) and (u(n.iter) != "self._underlying" and u(n.iter) != "out" or u(n.target) not in ("x", "y")):
            tr.fail(n, "loop")
    e, q = texts.pop()
    doc = doc_text(f"transcribed from `Vector.unique`: each of its {len(rets)} return statements is `{q}`; `out`, the elements kept (a "
                   "sub-sequence of `self._underlying`), is a parameter")
    return f"{doc}\ndef uniqueT {{α : Type}} (out : {LIST}) : VectorCall (Option α) :=\n  -- {q}\n  {e}"


# ---------------------------------------------------------------------------------------------------------------------
def translate_all(vsrc, tsrc):
    parts, errors = [PRELUDE], []
    vtree, ttree = ast.parse(vsrc), ast.parse(tsrc)
    done = set()

    def piece(what, fn, provides=None):
        try:
            parts.append(fn())
            if provides:
                done.add(provides)
        except Exception as ex:
            errors.append((what, f"{type(ex).__name__}: {ex}"))
            parts.append(f"-- {what}: not translated ({type(ex).__name__})")

    ctx = {}

    def need_ctx():
        if "nd" not in ctx:
            ctx["nd"] = _dataclass_nullable_default(ttree)
        if "defaults" not in ctx:
            ctx["defaults"] = ctor_defaults(vtree)
        return ctx["nd"], ctx["defaults"]

    piece("Vector.__new__", lambda: translate_new(vtree, need_ctx()[0]))
    piece("Vector.__init__", lambda: translate_init(vtree))
    piece("Vector.copy", lambda: _method(vtree, "copy", "copyT", [("new_values", "optlist"), ("name", "namearg")], *need_ctx(), done,
                                         sig_defaults=["None", "..."]), "copyT")
    piece("Vector.__copy__", lambda: _method(vtree, "__copy__", "copyDunderT", [], *need_ctx(), done))
    piece("Vector.__deepcopy__", lambda: _method(vtree, "__deepcopy__", "deepcopyT", [("memo", None)], *need_ctx(), done))
    piece("Vector.to_object", lambda: _method(vtree, "to_object", "toObjectT", [], *need_ctx(), done))
    piece("Vector.cast", lambda: translate_cast(vtree, *need_ctx()))
    piece("Vector.unique", lambda: translate_unique(vtree, *need_ctx()))
    return parts, errors


def generate(src_dir):
    try:
        vsrc = open(os.path.join(src_dir, "vector.py")).read()
        tsrc = open(os.path.join(src_dir, "typing.py")).read()
        parts, errors = translate_all(vsrc, tsrc)
    except Exception as ex:
        parts, errors = [f"-- castcopy: not translated ({type(ex).__name__})"], [("castcopy", f"{type(ex).__name__}: {ex}")]
    text = ("/- GENERATED by harness/tr/castcopy.py from /repo's working tree — do not edit.\n"
            "   Vector.__new__ (dtype decision), Vector.__init__ (name, data), Vector.copy / __copy__ / __deepcopy__ / to_object / cast and the\n"
            "   constructor calls of Vector.unique, translated statement by statement; equivalence theorems in Serif/Tie/CastCopy.lean. -/\n"
            "import Serif.Prelude\n\nset_option linter.unusedVariables false\n\nnamespace Serif.Gen.TCC\nopen Serif\n\n"
            + "\n\n".join(parts) + "\n\nend Serif.Gen.TCC\n")
    return text, errors


if __name__ == "__main__":
    import sys
    t, e = generate(sys.argv[1] if len(sys.argv) > 1 else "/repo/src/serif")
    print(t)
    print(e, file=sys.stderr)
