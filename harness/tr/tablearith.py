"""Translator plug-in: arithmetic on tables (src/serif/table.py) -> lean/Serif/Gen/TranslatedTableArith.lean

Translated, statement by statement, from the AST of the current source:

* `Table._table_elementwise_operation(self, other, op_func, op_name, op_symbol)` -> `tableElementwiseOperationT` (+ the body of its
  table-with-table loop, `tableTableStepT`): the `isinstance(other, Table)` dispatch, `tuple(op_func(col, other) for col in
  self.cols())`, the loop that restores `_name` / `_wild`, the width check and its exception class, the
  `enumerate(zip(self.cols(), other.cols()))` loop with `_resolve_binary_name`, the `Table(...)` built at the end;
* the fourteen binary dunders `__add__ … __pow__`, `__radd__ … __rpow__` -> `table__add__T` …: which Python operator, and in
  which operand order (`operator.sub` = `col - o`, `lambda col, o: o - col` = reflected), is handed to
  `_table_elementwise_operation`; `tableBinaryT` is the table of the fourteen;
* the unary dunders `__neg__`, `__pos__`, `__abs__`, `__invert__` -> `table__neg__T` …;
* `Table._elementwise_compare(self, other, op)` -> `tableElementwiseCompareT` (the `Vector` branch with its width check, the
  row-wise iterable branch with its row-count check and `.T`, the scalar branch).

Parameters of the generated definitions (never re-implemented): the column operation `op_func(col, x)` / `-col`, `abs(col)` …
(it may raise: `Except Err`), reading and assigning `_name` / `_wild`, `Table(...)` / `Vector(tuple_of_columns)`,
`_resolve_binary_name` (own tie: Serif/Tie/Names.lean), the exception-class coding of the model (`Ops.exc`), and for the
comparison the row iteration / `.T`.  `isinstance(other, Table)` is the constructor of the generated `Operand`.

Not translated (no effect on the result): the `warnings.warn(...)` block after the loop (recognised by shape: it may only read
`warnings_to_emit`, build local strings and call `warnings.warn`); `op_name` / `op_symbol` (only used in messages).  Comments,
docstrings, blank lines and the wording of messages play no role; local variables keep the names they have in the source (a
renamed local renames the Lean binder, nothing else).  Anything not understood raises TranslateError.
"""
import ast, os

from py2lean import TranslateError, find_func, _ln

GEN_FILE = "TranslatedTableArith.lean"
TIE = {"Serif.Tie.TableArith": ["C05", "C18"]}

EXC = ("ValueError", "TypeError", "IndexError", "KeyError", "SerifValueError", "SerifTypeError", "SerifKeyError", "SerifIndexError")

SUPPORT = '''/-- Python exception classes a translated `raise` may name (`Ops.exc` gives the model's code for each) -/
inductive PyExc where
  | ValueError | TypeError | IndexError | KeyError | SerifValueError | SerifTypeError | SerifKeyError | SerifIndexError
  deriving DecidableEq, Repr

/-- the `other` operand of `_table_elementwise_operation` as `isinstance(other, Table)` classifies it -/
inductive Operand (κ ω : Type) where
  /-- `isinstance(other, Table)`; the payload is `other.cols()` -/
  | table (cols : List κ)
  /-- anything else (scalar, list, tuple, plain Vector …), as `op_func` receives it -/
  | other (o : ω)

/-- what the translated methods ask of objects they do not own.  `κ`: a column of a table (a `Vector`); `ω`: the second argument
    of the column operation; `ρ`: the column the column operation returns; `τ`: what `Table(...)` returns -/
structure Ops (κ ω ρ τ : Type) where
  /-- `col._name` -/
  name : κ → Option String
  /-- `col._wild` -/
  wild : κ → Bool
  /-- `result_col._name = n` (on a fresh result column) -/
  set_name : Option String → ρ → ρ
  /-- `result_col._wild = w` -/
  set_wild : Bool → ρ → ρ
  /-- a column of the other table handed to `op_func` as its second argument -/
  as_arg : κ → ω
  /-- `Table(cols)` -/
  Table : List ρ → Except Err τ
  /-- `_resolve_binary_name(left, right)`: `(result_name, warning_case)` -/
  resolve_binary_name : Option String → Option String → Option String × Option String
  /-- the model's code of a Python exception class -/
  exc : PyExc → Err

/-- `tuple(f(a) for a in l)`: the first element that raises aborts the whole expression -/
def tupleGen {α β : Type} (f : α → Except Err β) : List α → Except Err (List β)
  | [] => .ok []
  | a :: as =>
    match f a with
    | .error e => .error e
    | .ok b =>
      match tupleGen f as with
      | .error e => .error e
      | .ok bs => .ok (b :: bs)

/-- `enumerate(xs)` -/
def enumerateFrom {α : Type} : Nat → List α → List (Nat × α)
  | _, [] => []
  | k, a :: as => (k, a) :: enumerateFrom (k + 1) as

def enumerate {α : Type} (xs : List α) : List (Nat × α) := enumerateFrom 0 xs

/-- one entry of `warnings_to_emit` -/
abbrev Warning := Nat × Option String × Option String × Option String

/-- the column-level operators of the unary dunders: `-col`, `+col`, `abs(col)`, `~col` -/
structure UnaryOps (κ ρ : Type) where
  neg : κ → Except Err ρ
  pos : κ → Except Err ρ
  abs : κ → Except Err ρ
  invert : κ → Except Err ρ'''


def _u(n):
    return ast.unparse(n)


def _strip(stmts):
    return [s for s in stmts if not (isinstance(s, ast.Expr) and isinstance(s.value, ast.Constant))
            and not isinstance(s, (ast.Import, ast.ImportFrom, ast.Pass))]


class _Msg(ast.NodeTransformer):
    """messages do not matter: `raise X('…')` -> `raise X(…)`, `warnings.warn('…')` likewise"""
    def visit_Raise(self, node):
        if isinstance(node.exc, ast.Call):
            node.exc.args, node.exc.keywords = [ast.Constant(value=...)], []
        return node


def _doc(title, stmts, limit=40):
    lines = []
    for s in stmts:
        lines += _u(_Msg().visit(ast.parse(_u(s)))).split("\n")
    if len(lines) > limit:
        lines = lines[:limit] + ["…"]
    body = "\n".join("      " + ln for ln in lines).replace("-/", "- /").replace("/-", "/ -")
    return "/-- " + title + "\n" + body + " -/\n"


def _exc(raise_stmt, what):
    exc = raise_stmt.exc
    name = exc.func.id if isinstance(exc, ast.Call) and isinstance(exc.func, ast.Name) else exc.id if isinstance(exc, ast.Name) else None
    if name not in EXC:
        raise TranslateError(f"{what}: raises " + (_u(exc)[:40] if exc is not None else "<bare>"))
    return f"(O.exc .{name})"


CMP = {ast.NotEq: "!=", ast.Eq: "==", ast.Lt: "<", ast.Gt: ">", ast.LtE: "≤", ast.GtE: "≥"}


def _single_name_target(s):
    return isinstance(s, ast.Assign) and len(s.targets) == 1 and isinstance(s.targets[0], ast.Name)


# ---------------------------------------------------------------------------------------------
# Table._table_elementwise_operation
# ---------------------------------------------------------------------------------------------
class _Elementwise:
    W = "_table_elementwise_operation"

    def __init__(self, f):
        self.f = f
        a = [x.arg for x in f.args.args]
        if len(a) < 3 or f.args.vararg or f.args.kwarg or f.args.kwonlyargs or f.args.defaults:
            raise TranslateError(f"{self.W}: arguments")
        self.S, self.other, self.op_func = a[:3]
        self.extra = a[3:]                                # op_name, op_symbol: messages only
        if len(set(a)) != len(a):
            raise TranslateError(f"{self.W}: arguments")

    def bad(self, msg, node=None):
        raise TranslateError(f"{self.W}: {msg}" + (": " + _u(node)[:70] if node is not None else ""))

    # ---- lengths / conditions ------------------------------------------------------------------
    def cols_of(self, node, env):
        """`self.cols()` / `other.cols()` -> Lean list"""
        t = _u(node)
        if t == f"{self.S}.cols()":
            return "self_cols"
        if t == f"{self.other}.cols()" and env.get(self.other) == "table":
            return "other_cols"
        self.bad("column tuple", node)

    def length(self, node, env):
        if isinstance(node, ast.Call) and _u(node.func) == "len" and len(node.args) == 1 and not node.keywords:
            return self.cols_of(node.args[0], env) + ".length"
        if isinstance(node, ast.Constant) and type(node.value) is int and node.value >= 0:
            return str(node.value)
        self.bad("length expression", node)

    def len_cond(self, node, env):
        if isinstance(node, ast.Compare) and len(node.ops) == 1 and type(node.ops[0]) in CMP:
            l, r = self.length(node.left, env), self.length(node.comparators[0], env)
            op = CMP[type(node.ops[0])]
            return f"{l} {op} {r}" if op in ("!=", "==") else f"decide ({l} {op} {r})"
        self.bad("condition", node)

    # ---- values assigned to `_name` / `_wild` --------------------------------------------------
    def attr_value(self, node, env, attr):
        """expression of type Option String (`_name`) or Bool (`_wild`)"""
        if isinstance(node, ast.Attribute) and isinstance(node.value, ast.Name) and env.get(node.value.id) == "col" and node.attr == attr:
            return f"(O.{attr[1:]} {_ln(node.value.id)})"
        if attr == "_name":
            if isinstance(node, ast.Constant) and node.value is None:
                return "none"
            if isinstance(node, ast.Name) and env.get(node.id) == "optstr":
                return _ln(node.id)
        if attr == "_wild" and isinstance(node, ast.Constant) and type(node.value) is bool:
            return "true" if node.value else "false"
        self.bad(f"value assigned to {attr}", node)

    def set_attr(self, s, env, pad):
        """`<result col>.<_name|_wild> = <value>` -> one `let`"""
        t = s.targets[0]
        if not (len(s.targets) == 1 and isinstance(t, ast.Attribute) and isinstance(t.value, ast.Name) and env.get(t.value.id) == "res"
                and t.attr in ("_name", "_wild")):
            self.bad("assignment", s)
        rc = _ln(t.value.id)
        return pad + f"let {rc} := O.set_{t.attr[1:]} {self.attr_value(s.value, env, t.attr)} {rc}"

    def op_call(self, node, env, second):
        """`op_func(<col>, <second>)` -> Lean term of type Except Err ρ; `second(node)` translates the second argument"""
        if not (isinstance(node, ast.Call) and isinstance(node.func, ast.Name) and node.func.id == self.op_func and len(node.args) == 2
                and not node.keywords):
            self.bad("expected a call of the column operation op_func(col, x)", node)
        a, b = node.args
        if not (isinstance(a, ast.Name) and env.get(a.id) == "col"):
            self.bad("first argument of op_func is not the table's own column", node)
        return f"{_ln(self.op_func)} {_ln(a.id)} {second(b)}"

    def table_ctor(self, node, env):
        """`Table(<cols>)` / `Table(tuple(<cols>))` -> the Lean list"""
        if not (isinstance(node, ast.Call) and _u(node.func) == "Table" and len(node.args) == 1 and not node.keywords):
            self.bad("expected Table(<columns>)", node)
        a = node.args[0]
        if isinstance(a, ast.Call) and _u(a.func) in ("tuple", "list") and len(a.args) == 1 and not a.keywords:
            a = a.args[0]
        if isinstance(a, ast.Name) and env.get(a.id) == "reslist":
            return _ln(a.id)
        self.bad("argument of Table(...)", node)

    # ---- branch 1: other is not a Table --------------------------------------------------------
    def scalar_branch(self, stmts, ind):
        pad = " " * ind
        env = {self.other: "arg"}
        stmts = _strip(stmts)
        if len(stmts) != 3:
            self.bad("non-Table branch: expected <cols> = tuple(...); for ...: restore names; return Table(...)")
        a, loop, ret = stmts
        # result_cols = tuple(op_func(col, other) for col in self.cols())
        if not (_single_name_target(a) and isinstance(a.value, ast.Call) and _u(a.value.func) == "tuple" and len(a.value.args) == 1
                and isinstance(a.value.args[0], ast.GeneratorExp)):
            self.bad("non-Table branch: first statement", a)
        g = a.value.args[0]
        if not (len(g.generators) == 1 and not g.generators[0].ifs and isinstance(g.generators[0].target, ast.Name)
                and not g.generators[0].is_async):
            self.bad("non-Table branch: generator", a)
        col = g.generators[0].target.id
        src = self.cols_of(g.generators[0].iter, env)

        def second(b):
            if isinstance(b, ast.Name) and b.id == self.other:
                return _ln(self.other)
            self.bad("second argument of op_func in the non-Table branch is not `other`", b)
        call = self.op_call(g.elt, dict(env, **{col: "col"}), second)
        rcs = a.targets[0].id
        env[rcs] = "reslist"
        out = [pad + f"match tupleGen (fun {_ln(col)} => {call}) {src} with",
               pad + "| .error e => .error e",
               pad + f"| .ok {_ln(rcs)} =>"]
        # for orig_col, result_col in zip(self.cols(), result_cols): …
        if not (isinstance(loop, ast.For) and not loop.orelse and isinstance(loop.target, ast.Tuple) and len(loop.target.elts) == 2
                and all(isinstance(x, ast.Name) for x in loop.target.elts) and isinstance(loop.iter, ast.Call) and _u(loop.iter.func) == "zip"
                and len(loop.iter.args) == 2 and not loop.iter.keywords):
            self.bad("non-Table branch: expected `for a, b in zip(self.cols(), <cols>)`", loop)
        oc, rc = [x.id for x in loop.target.elts]
        if oc == rc or self.cols_of(loop.iter.args[0], env) != "self_cols" or _u(loop.iter.args[1]) != rcs:
            self.bad("non-Table branch: the restore loop does not pair self.cols() with the result columns", loop)
        lenv = dict(env, **{oc: "col", rc: "res"})
        body = [self.set_attr(s, lenv, " " * (ind + 6)) if isinstance(s, ast.Assign) else self.bad("restore loop statement", s)
                for s in _strip(loop.body)]
        out.append(pad + f"  let {_ln(rcs)} := List.zipWith (fun {_ln(oc)} {_ln(rc)} =>")
        out += body
        out.append(" " * (ind + 6) + f"{_ln(rc)}) self_cols {_ln(rcs)}")
        # return Table(result_cols)
        if not isinstance(ret, ast.Return) or ret.value is None:
            self.bad("non-Table branch: does not end with return Table(...)", ret)
        out.append(pad + f"  O.Table {self.table_ctor(ret.value, env)}")
        return "\n".join(out)

    # ---- branch 2: both tables -----------------------------------------------------------------
    def is_warning_block(self, s, wlist, protected):
        """`if warnings_to_emit: … warnings.warn(…)`: reads the list, builds local strings, warns -- nothing else"""
        if not (isinstance(s, ast.If) and _u(s.test) == wlist and not s.orelse):
            return False
        for n in ast.walk(s):
            if isinstance(n, (ast.Return, ast.Raise, ast.Break, ast.Continue, ast.AugAssign, ast.Delete, ast.Global, ast.Nonlocal,
                              ast.Yield, ast.YieldFrom, ast.Await, ast.Try, ast.With, ast.NamedExpr)):
                return False
            if isinstance(n, (ast.Assign, ast.For)):
                tg = n.targets if isinstance(n, ast.Assign) else [n.target]
                for t in tg:
                    for x in ast.walk(t):
                        if isinstance(x, (ast.Attribute, ast.Subscript)) or (isinstance(x, ast.Name) and x.id in protected):
                            return False
            if isinstance(n, ast.Call):
                fn = _u(n.func)
                if fn in ("warnings.warn", "len", "repr", "str", "'\\n'.join") or (isinstance(n.func, ast.Attribute) and n.func.attr == "append"
                                                                                   and isinstance(n.func.value, ast.Name) and n.func.value.id not in protected):
                    continue
                return False
        return any(isinstance(n, ast.Call) and _u(n.func) == "warnings.warn" for n in ast.walk(s))

    def table_branch(self, stmts, ind):
        pad = " " * ind
        env = {self.other: "table"}
        stmts = _strip(stmts)
        k = 0
        # if len(self.cols()) != len(other.cols()): raise ValueError(…)
        s = stmts[k]
        if not (isinstance(s, ast.If) and not s.orelse and len(_strip(s.body)) == 1 and isinstance(_strip(s.body)[0], ast.Raise)):
            self.bad("Table branch: expected the width check `if len(self.cols()) != len(other.cols()): raise …`", s)
        cond = self.len_cond(s.test, env)
        exc = _exc(_strip(s.body)[0], self.W)
        k += 1
        # result_cols = [] ; warnings_to_emit = []
        inits = []
        while k < len(stmts) and _single_name_target(stmts[k]) and _u(stmts[k].value) == "[]":
            inits.append(stmts[k].targets[0].id)
            k += 1
        loop = stmts[k] if k < len(stmts) else None
        if not (len(inits) == 2 and len(set(inits)) == 2 and isinstance(loop, ast.For) and not loop.orelse):
            self.bad("Table branch: expected two list initialisations followed by the column loop")
        # for idx, (left_col, right_col) in enumerate(zip(self.cols(), other.cols())):
        t, it = loop.target, loop.iter
        if not (isinstance(t, ast.Tuple) and len(t.elts) == 2 and isinstance(t.elts[0], ast.Name) and isinstance(t.elts[1], ast.Tuple)
                and len(t.elts[1].elts) == 2 and all(isinstance(x, ast.Name) for x in t.elts[1].elts)
                and isinstance(it, ast.Call) and _u(it.func) == "enumerate" and len(it.args) == 1 and not it.keywords
                and isinstance(it.args[0], ast.Call) and _u(it.args[0].func) == "zip" and len(it.args[0].args) == 2 and not it.args[0].keywords):
            self.bad("Table branch: loop header", loop)
        idx, lc, rc = t.elts[0].id, t.elts[1].elts[0].id, t.elts[1].elts[1].id
        if len({idx, lc, rc, *inits}) != 5:
            self.bad("Table branch: loop variables")
        if self.cols_of(it.args[0].args[0], env) != "self_cols" or self.cols_of(it.args[0].args[1], env) != "other_cols":
            self.bad("Table branch: the loop does not pair self.cols() with other.cols()", loop)
        step, rlist, wlist = self.loop_body(loop, idx, lc, rc, inits)
        k += 1
        # if warnings_to_emit: … warnings.warn(…)
        rest = stmts[k:]
        protected = {rlist, self.S, self.other, self.op_func}
        skipped = [s for s in rest if self.is_warning_block(s, wlist, protected)]
        rest = [s for s in rest if s not in skipped]
        if not (len(rest) == 1 and isinstance(rest[0], ast.Return) and rest[0].value is not None):
            self.bad("Table branch: after the loop only the warning block and `return Table(...)` are understood",
                     rest[0] if rest else None)
        env[rlist] = "reslist"
        tab = self.table_ctor(rest[0].value, env)
        R, Wl = _ln(rlist), _ln(wlist)
        lines = [pad + f"if {cond} then",
                 pad + f"  .error {exc}",
                 pad + "else"]
        for n in inits:
            lines.append(pad + f"  let {_ln(n)} : List {'ρ' if n == rlist else 'Warning'} := []")
        lines += [pad + f"  match (enumerate (List.zip self_cols other_cols)).foldlM (tableTableStepT O {_ln(self.op_func)}) ({R}, {Wl}) with",
                  pad + "  | .error e => .error e",
                  pad + f"  | .ok ({R}, {Wl}) =>"]
        if skipped:
            lines.append(pad + f"    -- `if {wlist}: … warnings.warn(…)`: a warning only, not translated")
        lines.append(pad + f"    O.Table {tab}")
        return step, "\n".join(lines), [stmts[0]] + stmts[1:k - 1] + [loop] + rest

    def loop_body(self, loop, idx, lc, rc, inits):
        env = {lc: "col", rc: "col", idx: "nat"}
        out = []
        rlist = wlist = None
        body = _strip(loop.body)
        depth = [4]

        def pad():
            return " " * depth[0]
        resolved = False
        for s in body:
            # result_col = op_func(left_col, right_col)
            if _single_name_target(s) and isinstance(s.value, ast.Call) and isinstance(s.value.func, ast.Name) and s.value.func.id == self.op_func:
                def second(b):
                    if isinstance(b, ast.Name) and b.id == rc:
                        return f"(O.as_arg {_ln(rc)})"
                    self.bad("second argument of op_func in the Table branch is not the right column", b)
                if not (isinstance(s.value.args[0], ast.Name) and s.value.args[0].id == lc):
                    self.bad("first argument of op_func in the Table branch is not the left column", s)
                call = self.op_call(s.value, env, second)
                v = s.targets[0].id
                if v in env or v in inits:
                    self.bad("loop variable reused", s)
                out += [pad() + f"match {call} with", pad() + "| .error e => .error e", pad() + f"| .ok {_ln(v)} =>"]
                depth[0] += 2
                env[v] = "res"
                continue
            # result_name, warning_case = _resolve_binary_name(left_col._name, right_col._name)
            if isinstance(s, ast.Assign) and len(s.targets) == 1 and isinstance(s.targets[0], ast.Tuple) and len(s.targets[0].elts) == 2 \
                    and all(isinstance(x, ast.Name) for x in s.targets[0].elts) and isinstance(s.value, ast.Call) \
                    and _u(s.value.func) == "_resolve_binary_name" and len(s.value.args) == 2 and not s.value.keywords:
                n1, n2 = [x.id for x in s.targets[0].elts]
                if n1 == n2 or n1 in env or n2 in env:
                    self.bad("loop variable reused", s)
                a = [self.attr_value(x, env, "_name") for x in s.value.args]
                out.append(pad() + f"match O.resolve_binary_name {a[0]} {a[1]} with")
                out.append(pad() + f"| ({_ln(n1)}, {_ln(n2)}) =>")
                depth[0] += 2
                env[n1], env[n2] = "optstr", "optstr"
                continue
            # result_col._name = … / result_col._wild = …
            if isinstance(s, ast.Assign) and len(s.targets) == 1 and isinstance(s.targets[0], ast.Attribute):
                out.append(self.set_attr(s, env, pad()))
                continue
            # if warning_case is not None: warnings_to_emit.append((idx, left_col._name, right_col._name, warning_case))
            if isinstance(s, ast.If) and not s.orelse and isinstance(s.test, ast.Compare) and len(s.test.ops) == 1 \
                    and isinstance(s.test.ops[0], ast.IsNot) and isinstance(s.test.left, ast.Name) and env.get(s.test.left.id) == "optstr" \
                    and _u(s.test.comparators[0]) == "None" and len(_strip(s.body)) == 1:
                ap = _strip(s.body)[0]
                if not (isinstance(ap, ast.Expr) and isinstance(ap.value, ast.Call) and isinstance(ap.value.func, ast.Attribute)
                        and ap.value.func.attr == "append" and isinstance(ap.value.func.value, ast.Name) and ap.value.func.value.id in inits
                        and len(ap.value.args) == 1 and isinstance(ap.value.args[0], ast.Tuple) and len(ap.value.args[0].elts) == 4):
                    self.bad("warning bookkeeping", s)
                w = ap.value.func.value.id
                if wlist not in (None, w) or w == rlist:
                    self.bad("warning bookkeeping: list", s)
                wlist = w
                e = ap.value.args[0].elts
                if not (isinstance(e[0], ast.Name) and env.get(e[0].id) == "nat" and isinstance(e[3], ast.Name) and env.get(e[3].id) == "optstr"):
                    self.bad("warning bookkeeping: entry", s)
                comps = [_ln(e[0].id), self.attr_value(e[1], env, "_name"), self.attr_value(e[2], env, "_name"), _ln(e[3].id)]
                W = _ln(w)
                out.append(pad() + f"let {W} := if ({_ln(s.test.left.id)}).isSome then {W} ++ [({', '.join(comps)})] else {W}")
                continue
            # result_cols.append(result_col)
            if isinstance(s, ast.Expr) and isinstance(s.value, ast.Call) and isinstance(s.value.func, ast.Attribute) and s.value.func.attr == "append" \
                    and isinstance(s.value.func.value, ast.Name) and s.value.func.value.id in inits and len(s.value.args) == 1 \
                    and isinstance(s.value.args[0], ast.Name) and env.get(s.value.args[0].id) == "res":
                r = s.value.func.value.id
                if rlist not in (None, r) or r == wlist:
                    self.bad("result list", s)
                rlist = r
                out.append(pad() + f"let {_ln(r)} := {_ln(r)} ++ [{_ln(s.value.args[0].id)}]")
                continue
            self.bad("statement of the column loop", s)
        if rlist is None:
            self.bad("the column loop never appends a result column")
        if wlist is None:
            wlist = [n for n in inits if n != rlist][0]
        out.append(pad() + f".ok ({_ln(rlist)}, {_ln(wlist)})")
        head = (_doc("translated from the body of the loop `for idx, (left, right) in enumerate(zip(self.cols(), other.cols()))` of\n"
                     "    `Table._table_elementwise_operation` (the state is the pair of lists the loop appends to):", [loop])
                + f"def tableTableStepT {{κ ω ρ τ : Type}} (O : Ops κ ω ρ τ) ({_ln(self.op_func)} : κ → ω → Except Err ρ)\n"
                f"    (state : List ρ × List Warning) (item : Nat × κ × κ) : Except Err (List ρ × List Warning) :=\n"
                f"  match state, item with\n  | ({_ln(rlist)}, {_ln(wlist)}), ({_ln(idx)}, {_ln(lc)}, {_ln(rc)}) =>\n")
        return head + "\n".join(out), rlist, wlist

    def translate(self):
        stmts = _strip(self.f.body)
        if not stmts:
            self.bad("empty body")
        s = stmts[0]
        # if not isinstance(other, Table): …return
        if not (isinstance(s, ast.If) and not s.orelse and _u(s.test) == f"not isinstance({self.other}, Table)"):
            self.bad("expected `if not isinstance(other, Table):` first", s)
        if not (isinstance(_strip(s.body)[-1], ast.Return)):
            self.bad("the non-Table branch does not return")
        b1 = self.scalar_branch(s.body, 4)
        step, b2, quoted = self.table_branch(stmts[1:], 4)
        O, F = _ln(self.other), _ln(self.op_func)
        main = (_doc("translated from `Table._table_elementwise_operation` (`self_cols` = `self.cols()`; the `Operand` constructor is the\n"
                     "    outcome of `isinstance(other, Table)`, `other_cols` = `other.cols()`; the loop restoring `_name` / `_wild` assigns on\n"
                     "    the fresh result columns, given here as `zipWith`; the table-with-table loop is a fold of `tableTableStepT`):",
                     [s] + quoted, 60)
                + f"def tableElementwiseOperationT {{κ ω ρ τ : Type}} (O : Ops κ ω ρ τ) (self_cols : List κ) ({O} : Operand κ ω)\n"
                f"    ({F} : κ → ω → Except Err ρ) : Except Err τ :=\n"
                f"  match {O} with\n"
                f"  | .other {O} =>\n{b1}\n"
                f"  | .table other_cols =>\n{b2}")
        return [step, main]


# ---------------------------------------------------------------------------------------------
# the dunders
# ---------------------------------------------------------------------------------------------
BIN = {"add": ast.Add, "sub": ast.Sub, "mul": ast.Mult, "truediv": ast.Div, "floordiv": ast.FloorDiv, "mod": ast.Mod, "pow": ast.Pow}
BIN_OF = {v: k for k, v in BIN.items()}


def _column_op(node, what):
    """the `op_func` argument of a dunder -> (operator, reflected?)"""
    if isinstance(node, ast.Attribute) and _u(node.value) == "operator" and node.attr in BIN:
        return node.attr, False                            # operator.sub(col, o) = col - o
    if isinstance(node, ast.Lambda):
        a = node.args
        if len(a.args) == 2 and not (a.vararg or a.kwarg or a.kwonlyargs or a.defaults or a.posonlyargs) \
                and isinstance(node.body, ast.BinOp) and type(node.body.op) in BIN_OF \
                and isinstance(node.body.left, ast.Name) and isinstance(node.body.right, ast.Name):
            col, o = a.args[0].arg, a.args[1].arg
            l, r = node.body.left.id, node.body.right.id
            if col != o and (l, r) == (col, o):
                return BIN_OF[type(node.body.op)], False
            if col != o and (l, r) == (o, col):
                return BIN_OF[type(node.body.op)], True
    raise TranslateError(f"{what}: column operation " + _u(node)[:60])


def translate_binary_dunders(tree):
    out, table = [], []
    for op in BIN:
        for refl in (False, True):
            name = f"__{'r' if refl else ''}{op}__"
            f = find_func(tree, name, "Table")
            args = [a.arg for a in f.args.args]
            body = _strip(f.body)
            if len(args) != 2 or len(body) != 1 or not isinstance(body[0], ast.Return) or body[0].value is None:
                raise TranslateError(f"Table.{name}: expected a single return")
            c = body[0].value
            if not (isinstance(c, ast.Call) and _u(c.func) == f"{args[0]}._table_elementwise_operation" and len(c.args) >= 2 and not c.keywords
                    and _u(c.args[0]) == args[1] and all(isinstance(x, ast.Constant) and isinstance(x.value, str) for x in c.args[2:])):
                raise TranslateError(f"Table.{name}: expected self._table_elementwise_operation(other, <op>, …): " + _u(c)[:60])
            o, r = _column_op(c.args[1], f"Table.{name}")
            out.append(_doc(f"translated from `Table.{name}` (`colop o false col x` is `col <o> x`, `colop o true col x` is `x <o> col`):", body)
                       + f"def table{name}T {{κ ω ρ τ : Type}} (O : Ops κ ω ρ τ) (colop : Serif.Vec.BinOp → Bool → κ → ω → Except Err ρ)\n"
                       f"    (self_cols : List κ) ({_ln(args[1])} : Operand κ ω) : Except Err τ :=\n"
                       f"  tableElementwiseOperationT O self_cols {_ln(args[1])} (colop .{o} {'true' if r else 'false'})")
            table.append(f"  | .{op}, {'true' if refl else 'false'} => table{name}T O colop self_cols other")
    out.append("/-- the fourteen binary dunders of `Table`: `table <o> other` (`refl = false`) and `other <o> table` (`refl = true`) -/\n"
               "def tableBinaryT {κ ω ρ τ : Type} (O : Ops κ ω ρ τ) (colop : Serif.Vec.BinOp → Bool → κ → ω → Except Err ρ)\n"
               "    (o : Serif.Vec.BinOp) (refl : Bool) (self_cols : List κ) (other : Operand κ ω) : Except Err τ :=\n"
               "  match o, refl with\n" + "\n".join(table))
    return out


UNARY = {"__neg__": "neg", "__pos__": "pos", "__abs__": "abs", "__invert__": "invert"}


def _unary_of(node, col):
    if isinstance(node, ast.UnaryOp) and isinstance(node.operand, ast.Name) and node.operand.id == col:
        k = {ast.USub: "neg", ast.UAdd: "pos", ast.Invert: "invert"}.get(type(node.op))
        if k:
            return k
    if isinstance(node, ast.Call) and _u(node.func) == "abs" and len(node.args) == 1 and not node.keywords and _u(node.args[0]) == col:
        return "abs"
    raise TranslateError("unary column operation " + _u(node)[:50])


def translate_unary_dunders(tree):
    out = []
    for name in UNARY:
        f = find_func(tree, name, "Table")
        args = [a.arg for a in f.args.args]
        body = _strip(f.body)
        if len(args) != 1 or len(body) != 1 or not isinstance(body[0], ast.Return) or body[0].value is None:
            raise TranslateError(f"Table.{name}: expected a single return")
        c = body[0].value
        if not (isinstance(c, ast.Call) and _u(c.func) == "Table" and len(c.args) == 1 and not c.keywords and isinstance(c.args[0], ast.Call)
                and _u(c.args[0].func) == "tuple" and len(c.args[0].args) == 1 and isinstance(c.args[0].args[0], ast.GeneratorExp)):
            raise TranslateError(f"Table.{name}: expected return Table(tuple(<op>col for col in self.cols()))")
        g = c.args[0].args[0]
        if not (len(g.generators) == 1 and not g.generators[0].ifs and isinstance(g.generators[0].target, ast.Name)
                and _u(g.generators[0].iter) == f"{args[0]}.cols()"):
            raise TranslateError(f"Table.{name}: generator " + _u(g)[:60])
        col = g.generators[0].target.id
        k = _unary_of(g.elt, col)
        out.append(_doc(f"translated from `Table.{name}`:", body)
                   + f"def table{name}T {{κ ω ρ τ : Type}} (O : Ops κ ω ρ τ) (U : UnaryOps κ ρ) (self_cols : List κ) : Except Err τ :=\n"
                   f"  match tupleGen (fun {_ln(col)} => U.{k} {_ln(col)}) self_cols with\n"
                   f"  | .error e => .error e\n"
                   f"  | .ok cols => O.Table cols")
    return out


# ---------------------------------------------------------------------------------------------
# Table._elementwise_compare (shape-checked transcription)
# ---------------------------------------------------------------------------------------------
COMPARE_EXPECTED = [
    "{other} = {S}._check_duplicate({other})",
    "if isinstance({other}, Vector):\n"
    "    if len({S}.cols()) != len({other}.cols()):\n"
    "        raise ValueError(...)\n"
    "    return Vector(tuple(({op}({x}, {y}) for {x}, {y} in zip({S}.cols(), {other}.cols(), strict=True))))",
    "if isinstance({other}, Iterable) and (not isinstance({other}, (str, bytes, bytearray))):\n"
    "    if len({S}) != len({other}):\n"
    "        raise ValueError(...)\n"
    "    return Vector(tuple(({op}({x}, {y}) for {x}, {y} in zip({S}, {other}, strict=True)))).T",
    "return Vector(tuple(({op}({x}, {other}) for {x} in {S}.cols())))",
]

COMPARE_SUPPORT = '''/-- the `other` operand of `Table._elementwise_compare` as its `isinstance` tests classify it (after
    `other = self._check_duplicate(other)`, which hands back `other` or a copy of it) -/
inductive CmpOperand (κ σ ω : Type) where
  /-- `isinstance(other, Vector)`; the payload is `other.cols()` -/
  | vector (cols : List κ)
  /-- another iterable that is not str / bytes / bytearray; the payload is `list(other)` -/
  | iterable (items : List σ)
  /-- everything else -/
  | scalar (s : ω)

/-- what `Table._elementwise_compare` asks of objects it does not own.  `ρ`: what `op` returns; `τ`: what `Vector(tuple)` returns -/
structure CmpOps (κ σ ω ρ τ : Type) where
  /-- `op(x, y)` on two columns -/
  op_cols : κ → κ → Except Err ρ
  /-- `op(x, y)` on a row of the table (`for x in self`) and an item of the iterable -/
  op_row : κ → σ → Except Err ρ
  /-- `op(x, other)` on a column and a scalar -/
  op_scalar : κ → ω → Except Err ρ
  /-- `Vector(tuple_of_results)` -/
  Vector : List ρ → Except Err τ
  /-- `.T` of the vector of per-row results -/
  transpose : τ → Except Err τ
  /-- the model's code of a Python exception class -/
  exc : PyExc → Err

/-- `tuple(f(x, y) for x, y in zip(xs, ys, strict=True))`; a length difference is the ValueError of `zip(strict=True)`, raised when
    the shorter argument runs out (after the results before it were computed) -/
def tupleZipStrict {α β γ : Type} (valueError : Err) (f : α → β → Except Err γ) : List α → List β → Except Err (List γ)
  | [], [] => .ok []
  | x :: xs, y :: ys =>
    match f x y with
    | .error e => .error e
    | .ok c =>
      match tupleZipStrict valueError f xs ys with
      | .error e => .error e
      | .ok cs => .ok (c :: cs)
  | _, _ => .error valueError'''


def translate_compare(tree):
    f = find_func(tree, "_elementwise_compare", "Table")
    args = [a.arg for a in f.args.args]
    if len(args) != 3 or f.args.defaults or f.args.vararg or f.args.kwarg:
        raise TranslateError("Table._elementwise_compare: arguments")
    S, other, op = args
    body = _strip(f.body)
    if len(body) != len(COMPARE_EXPECTED):
        raise TranslateError("Table._elementwise_compare: number of statements")
    # the generator variables: read them off the last statement / the first branch
    try:
        g1 = body[1].body[-1].value.args[0].args[0].generators[0].target
        x, y = g1.elts[0].id, g1.elts[1].id
    except Exception:
        raise TranslateError("Table._elementwise_compare: Vector branch")
    if len({S, other, op, x, y}) != 5:
        raise TranslateError("Table._elementwise_compare: variable names")
    excs = []
    for k, (s, want) in enumerate(zip(body, COMPARE_EXPECTED)):
        got = _u(_Msg().visit(ast.parse(_u(s))))
        if got != want.format(S=S, other=other, op=op, x=x, y=y):
            raise TranslateError(f"Table._elementwise_compare: statement {k + 1} is not the understood one: " + got.split("\n")[0][:70])
        for n in ast.walk(s):
            if isinstance(n, ast.Raise):
                excs.append(_exc(n, "Table._elementwise_compare"))
    e1, e2 = excs
    O = _ln(other)
    d = (_doc("transcribed (every statement compared with the understood text, messages apart) from `Table._elementwise_compare`\n"
              "    (`self_cols` = `self.cols()`, `self_rows` = `list(self)`: the rows; `len(self)` = `nrows`):", body, 30)
         + f"def tableElementwiseCompareT {{κ σ ω ρ τ : Type}} (C : CmpOps κ σ ω ρ τ) (self_cols self_rows : List κ) (nrows : Nat)\n"
         f"    ({O} : CmpOperand κ σ ω) : Except Err τ :=\n"
         f"  match {O} with\n"
         f"  | .vector other_cols =>\n"
         f"    if self_cols.length != other_cols.length then\n"
         f"      .error {e1.replace('O.exc', 'C.exc')}\n"
         f"    else\n"
         f"      match tupleZipStrict (C.exc .ValueError) (fun {_ln(x)} {_ln(y)} => C.op_cols {_ln(x)} {_ln(y)}) self_cols other_cols with\n"
         f"      | .error e => .error e\n"
         f"      | .ok rs => C.Vector rs\n"
         f"  | .iterable items =>\n"
         f"    if nrows != items.length then\n"
         f"      .error {e2.replace('O.exc', 'C.exc')}\n"
         f"    else\n"
         f"      match tupleZipStrict (C.exc .ValueError) (fun {_ln(x)} {_ln(y)} => C.op_row {_ln(x)} {_ln(y)}) self_rows items with\n"
         f"      | .error e => .error e\n"
         f"      | .ok rs =>\n"
         f"        match C.Vector rs with\n"
         f"        | .error e => .error e\n"
         f"        | .ok v => C.transpose v\n"
         f"  | .scalar {O} =>\n"
         f"    match tupleGen (fun {_ln(x)} => C.op_scalar {_ln(x)} {O}) self_cols with\n"
         f"    | .error e => .error e\n"
         f"    | .ok rs => C.Vector rs")
    return [COMPARE_SUPPORT, d]


def translate_elementwise(tree):
    return _Elementwise(find_func(tree, "_table_elementwise_operation", "Table")).translate()


def generate(src_dir):
    parts, errors = [SUPPORT], []
    try:
        tree = ast.parse(open(os.path.join(src_dir, "table.py")).read())
    except Exception as ex:
        tree = None
        errors.append(("table.py", f"{type(ex).__name__}: {ex}"))
        parts.append(f"-- table.py: not parsed ({type(ex).__name__})")
    if tree is not None:
        for what, fn in (("Table._table_elementwise_operation", translate_elementwise),
                         ("Table.__add__ … __rpow__", translate_binary_dunders),
                         ("Table.__neg__ … __invert__", translate_unary_dunders),
                         ("Table._elementwise_compare", translate_compare)):
            try:
                if fn is translate_binary_dunders and any(w == "Table._table_elementwise_operation" for w, _ in errors):
                    raise TranslateError("they call Table._table_elementwise_operation, which is not translated")
                parts += fn(tree)
            except Exception as ex:       # TranslateError or anything unexpected: the item is simply not available
                errors.append((what, f"{type(ex).__name__}: {ex}"))
                parts.append(f"-- {what}: not translated ({type(ex).__name__})")
    text = ("/- GENERATED by harness/tr/tablearith.py from /repo's working tree — do not edit.\n"
            "   Table._table_elementwise_operation, the binary / reflected / unary dunders of Table and Table._elementwise_compare,\n"
            "   translated statement by statement; theorems in Serif/Tie/TableArith.lean. -/\n"
            "import Serif.Prelude\nimport Serif.Model.Vec\n\nset_option linter.unusedVariables false\n\nnamespace Serif.Gen.TAr\nopen Serif\n\n"
            + "\n\n".join(parts) + "\n\nend Serif.Gen.TAr\n")
    return text, errors


if __name__ == "__main__":
    import sys
    t, e = generate(sys.argv[1] if len(sys.argv) > 1 else "/repo/src/serif")
    print(t)
    print(e, file=sys.stderr)
