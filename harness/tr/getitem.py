"""Translator plug-in: `Vector.__getitem__` (src/serif/vector.py), `Vector.shape`, and `Table.__getitem__` (src/serif/table.py)
-> lean/Serif/Gen/TranslatedGetItem.lean; equivalence with the model (Serif/Model/Index.lean) in lean/Serif/Tie/GetItem.lean.

How the source is read
* The `isinstance` dispatch chains are walked statement by statement (`_Walker`): every `if` / `elif` / `else`, `return`, `raise`,
  `assert`, local assignment becomes one Lean `if` / `let` / `match` in the source's order, each preceded by the Python text as a
  comment.  Tests, right-hand sides and returned expressions are looked up by their `ast.unparse` text in small tables of understood
  forms (`isinstance(key, int)` -> `PyKey.isInt key`, ...); anything else is refused (`TranslateError`).
* `isinstance(VAR, T)` as first conjunct of a test narrows VAR in the branch; `self._underlying[key]` means an element for an int
  key and a sub-tuple for a slice key, so it is only understood where `key` is narrowed.
* A test that may raise (`key.schema().kind` on a Vector whose schema is None) is translated into `Res Bool` (`pyAnd` short-circuits,
  `pyIf` passes the exception on), so the guard `key.schema() is not None` matters in Lean as it does in Python.
* The two name-lookup blocks of `Table.__getitem__` (exact loop, sanitised loop, `found` flag) have their loop *bodies* walked
  statement by statement (`_loop_body`) and their outer statements compared literally.
* What does not matter: comments, docstrings, blank lines, the text of error messages, `warnings.warn(...)` (also under
  `if len(self) > N:`), `seen.add(...)` on the set `seen` that is never read.
* Parameters of the generated definitions (never re-implemented here): tuple subscription by an int / by a slice, `self[...]`
  (the recursive call), `x[key]` on a column, `len(self)`, `len(self.shape)` of a table, `Row(self, i)`, `self[i][c]` (Row protocol),
  `isinstance(col, Table)`, and the string functions in `NameOps` (`str.lower`, `_sanitize_user_name`, the two f-strings).
"""
import ast, os
from py2lean import TranslateError, find_func, always_returns

GEN_FILE = "TranslatedGetItem.lean"
TIE = {"Serif.Tie.GetItem": ["C07"]}

ERR = {"SerifKeyError": "Err.key", "KeyError": "Err.key", "SerifValueError": "Err.value", "ValueError": "Err.value",
       "SerifTypeError": "Err.type", "TypeError": "Err.type", "SerifIndexError": "Err.index", "IndexError": "Err.index",
       "AssertionError": "Err.other"}


def u(node):
    return ast.unparse(node)


def first_line(s):
    """the statement as a one-line comment (message of a raise elided)"""
    if isinstance(s, ast.Raise) and isinstance(s.exc, ast.Call):
        return f"raise {u(s.exc.func)}(…)"
    return u(s).split("\n")[0]


def is_doc(s):
    return isinstance(s, ast.Expr) and isinstance(s.value, ast.Constant)


def is_warn(s):
    return isinstance(s, ast.Expr) and isinstance(s.value, ast.Call) and u(s.value.func) == "warnings.warn"


def is_noise(s):
    if is_doc(s) or is_warn(s):
        return True
    # if len(self) > 1000: warnings.warn(...)
    if isinstance(s, ast.If) and not s.orelse and all(is_warn(b) for b in s.body) and isinstance(s.test, ast.Compare) \
            and u(s.test.left) == "len(self)" and len(s.test.comparators) == 1 and isinstance(s.test.comparators[0], ast.Constant):
        return True
    return False


def err_of(s, raisers):
    e = s.exc
    name = u(e.func) if isinstance(e, ast.Call) else u(e) if e is not None else None
    if name in raisers:
        name = raisers[name]
    if name not in ERR:
        raise TranslateError("raises " + str(name))
    return ERR[name]


class _Walker:
    """statement list -> Lean term of type `Res _` (see the module docstring)"""

    def __init__(self, what, pure, res, assigns, returns, blocks=None, raisers=None, fall_off=None):
        self.what, self.pure, self.res, self.assigns, self.returns = what, pure, res, assigns, returns
        self.blocks = blocks or {}
        self.raisers = raisers or {}
        self.fall_off = fall_off

    # -- tests ------------------------------------------------------------------------------------
    def test(self, node):
        """-> (lean, may_raise)"""
        t = u(node)
        if t in self.pure:
            return self.pure[t], False
        if t in self.res:
            return self.res[t], True
        if isinstance(node, ast.UnaryOp) and isinstance(node.op, ast.Not):
            e, r = self.test(node.operand)
            return (f"(pyNot {e})", True) if r else (f"(!{e})", False)
        if isinstance(node, ast.BoolOp) and isinstance(node.op, ast.And):
            parts = [self.test(v) for v in node.values]
            if not any(r for _, r in parts):
                return "(" + " && ".join(e for e, _ in parts) + ")", False
            lifted = [e if r else f"(.ok ({e}))" for e, r in parts]
            out = lifted[-1]
            for e in reversed(lifted[:-1]):
                out = f"(pyAnd {e} {out})"
            return out, True
        raise TranslateError(f"{self.what}: test `{t[:70]}`")

    @staticmethod
    def narrowing(node):
        """`isinstance(VAR, T)` (alone or as first conjunct) -> (VAR, T)"""
        if isinstance(node, ast.BoolOp) and isinstance(node.op, ast.And):
            full = u(node)
            if " and all((isinstance(k, str) for k in " in full:
                first = node.values[0]
                if isinstance(first, ast.Call) and u(first.func) == "isinstance" and u(first.args[1]) == "tuple":
                    return u(first.args[0]), "strtuple"
            node = node.values[0]
        if isinstance(node, ast.Call) and u(node.func) == "isinstance" and len(node.args) == 2 \
                and isinstance(node.args[0], ast.Name) and isinstance(node.args[1], ast.Name):
            return node.args[0].id, node.args[1].id
        return None

    def lookup(self, table, text, env, kind):
        for (want, cond), lean in table.items():
            if want == text and all(env.get(k) == v for k, v in cond):
                return lean
        raise TranslateError(f"{self.what}: {kind} `{text[:80]}`" + (f" with {env}" if env else ""))

    # -- statements -------------------------------------------------------------------------------
    def walk(self, stmts, ind, env):
        pad = " " * ind
        stmts = [s for s in stmts if not is_noise(s)]
        if not stmts:
            if self.fall_off is None:
                raise TranslateError(f"{self.what}: a path ends without return")
            return pad + "-- (end of the function: returns None)\n" + pad + self.fall_off
        s, rest = stmts[0], stmts[1:]
        cm = pad + "-- " + first_line(s) + "\n"
        if isinstance(s, ast.Return):
            if rest:
                raise TranslateError(f"{self.what}: statements after a return")
            if s.value is None:
                raise TranslateError(f"{self.what}: bare return")
            return cm + pad + self.lookup(self.returns, u(s.value), env, "return")
        if isinstance(s, ast.Raise):
            if rest:
                raise TranslateError(f"{self.what}: statements after a raise")
            return cm + pad + ".error " + err_of(s, self.raisers)
        if isinstance(s, ast.Assert):
            e, r = self.test(s.test)
            if r:
                raise TranslateError(f"{self.what}: assert on a raising test")
            return cm + pad + f"if {e} then\n" + self.walk(rest, ind + 2, env) + "\n" + pad + "else\n" + pad + "  -- (AssertionError)\n" + pad + "  .error Err.other"
        if isinstance(s, ast.Assign):
            lean = self.lookup(self.assigns, u(s), env, "assignment")
            env2 = dict(env)
            for t in s.targets:
                for n in ast.walk(t):
                    if isinstance(n, ast.Name):
                        env2.pop(n.id, None)     # a re-bound variable is no longer narrowed
            return cm + "\n".join(pad + l for l in lean.split("\n")) + "\n" + self.walk(rest, ind, env2)
        if isinstance(s, ast.If):
            t = u(s.test)
            if t in self.blocks:
                if s.orelse:
                    raise TranslateError(f"{self.what}: else after `{t[:40]}`")
                view, lean = self.blocks[t](s.body)
                return (cm + pad + f"match {view} with\n" + pad + "| some key =>\n"
                        + "\n".join(pad + "  " + l for l in lean.split("\n")) + "\n"
                        + pad + "| none =>\n" + self.walk(rest, ind, env))
            # `if T: a, b = b, a` (assignments only, no else) -> one conditional `let`
            if not s.orelse and all(isinstance(b, ast.Assign) for b in s.body):
                e, r = self.test(s.test)
                if r or len(s.body) != 1:
                    raise TranslateError(f"{self.what}: conditional assignment `{t[:40]}`")
                b = s.body[0]
                tgt = b.targets[0]
                names = [n.id for n in tgt.elts] if isinstance(tgt, ast.Tuple) else [tgt.id]
                vals = [u(v) for v in b.value.elts] if isinstance(b.value, ast.Tuple) else [u(b.value)]
                if sorted(names) != sorted(vals):
                    raise TranslateError(f"{self.what}: conditional assignment `{u(b)[:50]}`")
                env2 = {k: v for k, v in env.items() if k not in names}
                return (cm + pad + "--     " + u(b) + "\n" + pad
                        + f"let ({', '.join(names)}) := if {e} then ({', '.join(vals)}) else ({', '.join(names)})\n"
                        + self.walk(rest, ind, env2))
            e, r = self.test(s.test)
            env_then = dict(env)
            nv = self.narrowing(s.test)
            if nv:
                env_then[nv[0]] = nv[1]
            then = self.walk(s.body + ([] if always_returns(s.body) else rest), ind + 2, env_then)
            if always_returns(s.body) and not s.orelse:
                # the chain goes on at the same depth (reads like the source)
                els = self.walk(rest, ind, env)
                if r:
                    return cm + pad + f"pyIf {e} (\n" + then + ")\n" + pad + "<|\n" + els
                return cm + pad + f"if {e} then\n" + then + "\n" + pad + "else\n" + els
            els = self.walk(s.orelse + ([] if s.orelse and always_returns(s.orelse) else rest), ind + 2, env)
            if r:
                return cm + pad + f"pyIf {e} (\n" + then + ") (\n" + els + ")"
            return cm + pad + f"if {e} then\n" + then + "\n" + pad + "else\n" + els
        raise TranslateError(f"{self.what}: statement `{first_line(s)[:70]}`")


# =================================================================================================
# Vector.shape, Vector.__getitem__
# =================================================================================================
def translate_shape(tree):
    f = find_func(tree, "shape", "Vector")
    body = [u(s) for s in f.body if not is_doc(s)]
    if body != ["if not self._underlying:\n    return tuple()", "return (len(self),)"]:
        raise TranslateError("Vector.shape: " + " / ".join(body)[:80])
    return ("/-- translated from the property `Vector.shape` of a 1-D vector:\n"
            "    `if not self._underlying: return tuple()` / `return (len(self),)` -/\n"
            "def shapeT {ν α : Type} (self : Vec ν α) : List Nat :=\n"
            "  -- if not self._underlying:\n"
            "  if self.data.isEmpty then\n"
            "    -- return tuple()\n"
            "    []\n"
            "  else\n"
            "  -- return (len(self),)\n"
            "  [self.data.length]")


COPY = "rmap (fun xs => Item.vec (copyWith self xs))"


def vector_walker():
    pure = {
        "isinstance(key, int)": "PyKey.isInt key",
        "isinstance(key, tuple)": "PyKey.isTuple key",
        "len(key) != len(self.shape)": "(PyKey.len key != (shapeT self).length)",
        "len(key) == 1": "(PyKey.len key == 1)",
        "isinstance(key, Vector)": "PyKey.isVector key",
        "key.schema() is not None": "(PyKey.schema key).isSome",
        "isinstance(key, list)": "PyKey.isList key",
        "{type(e) for e in key} == {bool}": "PyKey.typeSetIs key KElem.isBool",
        "{type(e) for e in key} == {int}": "PyKey.typeSetIs key KElem.isInt",
        "len(self) != len(key)": "(self.data.length != PyKey.len key)",
        "isinstance(key, slice)": "PyKey.isSlice key",
    }
    res = {
        "key.schema().kind == bool": "(PyKey.schemaKindIs key Kind.bool)",
        "key.schema().kind == int": "(PyKey.schemaKindIs key Kind.int)",
        "key.schema().nullable": "(PyKey.schemaNullable key)",
    }
    assigns = {("key = self._check_duplicate(key)", ()): "let key := checkDuplicateT key"}
    returns = {
        ("self._underlying[key]", (("key", "int"),)): "rmap Item.scalar (subscr self.data (PyKey.intVal key))",
        ("self[key[0]]", (("key", "tuple"),)): "self_getitem (PyKey.item0 key)",
        # `key[-1]` of the empty tuple raises IndexError; otherwise indexing into an element (never reached for a 1-D vector)
        ("self._underlying[key[-1]][key[:-1]]", (("key", "tuple"),)):
            "(if PyKey.len key == 0 then .error Err.index else nested self key)",
        ("self.copy((x for x, y in zip(self, key, strict=True) if y), name=self._name)", (("key", "Vector"),)):
            f"{COPY} (zipStrictIf self.data (PyKey.elems key))",
        ("self.copy((x for x, y in zip(self, key, strict=True) if y), name=self._name)", (("key", "list"),)):
            f"{COPY} (zipStrictIf self.data (PyKey.elems key))",
        ("self.copy(self._underlying[key], name=self._name)", (("key", "slice"),)):
            f"{COPY} (slice_of self.data (PyKey.sliceVal key))",
        ("self.copy((self[x] for x in key), name=self._name)", (("key", "Vector"),)):
            f"{COPY} (mapRes (fun x => asScalar (self_getitem (elemKey x))) (PyKey.elems key))",
        ("self.copy((self[x] for x in key), name=self._name)", (("key", "list"),)):
            f"{COPY} (mapRes (fun x => asScalar (self_getitem (elemKey x))) (PyKey.elems key))",
    }
    return _Walker("Vector.__getitem__", pure, res, assigns, returns)


def check_helpers(vtree):
    """the helpers whose meaning the translation relies on"""
    f = find_func(vtree, "_check_duplicate", "Vector")
    body = [u(s) for s in f.body if not is_doc(s)]
    if body != ["if id(self) == id(other):\n    return deepcopy(other)", "return other"]:
        raise TranslateError("Vector._check_duplicate: " + " / ".join(body)[:80])
    f = find_func(vtree, "__len__", "Vector")
    if [u(s) for s in f.body if not is_doc(s)] != ["return len(self._underlying)"]:
        raise TranslateError("Vector.__len__")
    f = find_func(vtree, "__iter__", "Vector")
    if [u(s) for s in f.body if not is_doc(s)] != ["return iter(self._underlying)"]:
        raise TranslateError("Vector.__iter__")
    f = find_func(vtree, "schema", "Vector")
    if [u(s) for s in f.body if not is_doc(s)] != ["return self._dtype"]:
        raise TranslateError("Vector.schema")
    f = find_func(vtree, "cols", "Vector")
    if [u(s) for s in f.body if not is_doc(s)] != ["if isinstance(key, int):\n    return self._underlying[key]",
                                                    "if isinstance(key, slice):\n    return self._underlying[key]",
                                                    "return self._underlying"]:
        raise TranslateError("Vector.cols")


def translate_vector_getitem(tree):
    f = find_func(tree, "__getitem__", "Vector")
    if [a.arg for a in f.args.args] != ["self", "key"]:
        raise TranslateError("Vector.__getitem__: signature")
    body = vector_walker().walk(f.body, 2, {})
    return ("/-- translated from `Vector.__getitem__(self, key)` for a 1-D vector, statement by statement.\n"
            "    Parameters: `subscr` = `tuple[int]`, `slice_of` = `tuple[slice]`, `nested` = indexing into an element with the rest of a\n"
            "    longer tuple key, `self_getitem` = the recursive call `self[...]`. -/\n"
            "def getitemT {ν α : Type} (subscr : List α → Int → Res α) (slice_of : List α → Slice → Res (List α))\n"
            "    (nested : Vec ν α → Key → Res (Item ν α)) (self_getitem : Key → Res (Item ν α))\n"
            "    (self : Vec ν α) (key : Key) : Res (Item ν α) :=\n" + body)


# =================================================================================================
# Table.__getitem__
# =================================================================================================
def _seen_is_write_only(f):
    names = [n for n in ast.walk(f) if isinstance(n, ast.Name) and n.id == "seen"]
    writes = [s for s in ast.walk(f) if isinstance(s, ast.Assign) and u(s) == "seen = set()"]
    adds = [s for s in ast.walk(f) if isinstance(s, ast.Expr) and isinstance(s.value, ast.Call) and u(s.value.func) == "seen.add"]
    if len(names) != len(writes) + len(adds):
        raise TranslateError("Table.__getitem__: the set `seen` is read somewhere")


def _loop_body(stmts, ind, var, keyvar, leaf_texts, leaf_lean, cont, narrowed=()):
    """body of one lookup loop (`col`, `idx` bound), statement by statement.  A path that ends in `leaf_texts` (e.g. `return col`)
    gives `leaf_lean`; a path that falls through gives `cont` (next iteration)."""
    pad = " " * ind
    stmts = [s for s in stmts if not (isinstance(s, ast.Expr) and isinstance(s.value, ast.Call) and u(s.value.func) == "seen.add")]
    if not stmts:
        return pad + "-- (next iteration)\n" + pad + cont
    if [u(s) for s in stmts] == leaf_texts:
        return pad + "-- " + "; ".join(leaf_texts) + "\n" + pad + leaf_lean
    s, rest = stmts[0], stmts[1:]
    cm = pad + "-- " + first_line(s) + "\n"

    def go(ss, nar, extra=2):
        return _loop_body(ss, ind + extra, var, keyvar, leaf_texts, leaf_lean, cont, nar)

    def ends(ss):
        if not ss:
            return False
        if [u(x) for x in ss[-len(leaf_texts):]] == leaf_texts:
            return True
        last = ss[-1]
        return isinstance(last, ast.If) and bool(last.orelse) and ends(last.body) and ends(last.orelse)

    if isinstance(s, ast.Assign):
        t = u(s)
        if t == "base = _sanitize_user_name(col._name)" and "name" in narrowed:
            return cm + pad + "let base := ops.sanitize name\n" + go(rest, narrowed, 0)
        if t == "unique_name = f'{base}__{idx}'" and "base" in narrowed:
            return cm + pad + "let unique_name := ops.uniq base idx\n" + go(rest, tuple(narrowed) + ("unique_name",), 0)
        raise TranslateError("lookup loop: assignment `" + t[:60] + "`")
    if isinstance(s, ast.If):
        t = u(s.test)
        a = s.body + ([] if ends(s.body) else rest)
        b = s.orelse + ([] if ends(s.orelse) else rest)
        if t == "col._name is not None" and "name" not in narrowed:
            return (cm + pad + "match col.name with\n" + pad + "| some name =>\n" + go(a, tuple(narrowed) + ("name",)) + "\n"
                    + pad + "| none =>\n" + go(b, narrowed))
        if t == "base is None" and "base" not in narrowed and "unique_name" not in narrowed:
            return (cm + pad + "match base with\n" + pad + "| none =>\n" + go(a, narrowed) + "\n"
                    + pad + "| some base =>\n" + go(b, tuple(narrowed) + ("base",)))
        if t == f"col._name == {keyvar}":
            c = f"col.name == some {keyvar}"
        elif t == f"base == {var}" and "base" in narrowed:
            c = f"base == {var}"
        elif t == f"unique_name == {var}" and "unique_name" in narrowed:
            c = f"unique_name == {var}"
        elif t == "f'col{idx}_' == " + var:
            c = f"ops.sys idx == {var}"
        else:
            raise TranslateError("lookup loop: test `" + t[:60] + "`")
        return cm + pad + f"if {c} then\n" + go(a, narrowed) + "\n" + pad + "else\n" + go(b, narrowed)
    raise TranslateError("lookup loop: statement `" + first_line(s)[:60] + "`")


def _for(s, target, it):
    if not (isinstance(s, ast.For) and u(s.target) == target and u(s.iter) == it and not s.orelse):
        raise TranslateError(f"Table.__getitem__: expected `for {target} in {it}`, found `{first_line(s)[:60]}`")
    return s.body


def _expect(s, text):
    if u(s) != text:
        raise TranslateError(f"Table.__getitem__: expected `{text}`, found `{first_line(s)[:60]}`")


TVEC = "{ν α : Type} [DecidableEq ν]"


def translate_name_lookup(body, defs):
    """the block under `if isinstance(key, str):` -> definitions appended to `defs`, returns the Lean term for the block"""
    body = [s for s in body if not is_doc(s)]
    if len(body) != 5:
        raise TranslateError("Table.__getitem__ (str key): %d statements" % len(body))
    exact = _for(body[0], "col", "self._underlying")
    _expect(body[1], "key_lower = key.lower()")
    _expect(body[2], "seen = set()")
    san = _for(body[3], "(idx, col)", "enumerate(self._underlying)")
    if not (isinstance(body[4], ast.Raise) and u(body[4].exc) == "_missing_col_error(key)"):
        raise TranslateError("Table.__getitem__ (str key): final raise")
    leaf = ["return col"]
    defs.append(f"/-- translated from the body of `for col in self._underlying` (exact match) under `if isinstance(key, str)`;\n"
                f"    `some col` = `return col`, `none` = next iteration -/\n"
                f"def exactStepT {TVEC} (key : ν) (idx : Nat) (col : Vec ν α) : Option (Vec ν α) :=\n"
                + _loop_body(exact, 2, "key_lower", "key", leaf, "some col", "none"))
    defs.append(f"/-- translated from the body of `for idx, col in enumerate(self._underlying)` (sanitised match) under\n"
                f"    `if isinstance(key, str)`; `ops.sanitize` = `_sanitize_user_name`, `ops.sys idx` = `f'col{{idx}}_'`,\n"
                f"    `ops.uniq base idx` = `f'{{base}}__{{idx}}'` -/\n"
                f"def sanitizedStepT {TVEC} (ops : NameOps ν) (key_lower : ν) (idx : Nat) (col : Vec ν α) : Option (Vec ν α) :=\n"
                + _loop_body(san, 2, "key_lower", "key", leaf, "some col", "none"))
    defs.append(f"/-- translated from the block under `if isinstance(key, str)` of `Table.__getitem__` (`cols` = `self._underlying`) -/\n"
                f"def nameLookupT {TVEC} (ops : NameOps ν) (cols : List (Vec ν α)) (key : ν) : Res (Vec ν α) :=\n"
                "  -- for col in self._underlying: …\n"
                "  match forEnumReturn (exactStepT key) 0 cols with\n"
                "  | some col => .ok col\n"
                "  | none =>\n"
                "    -- key_lower = key.lower()\n"
                "    let key_lower := ops.lower key\n"
                "    -- seen = set()          (never read)\n"
                "    -- for idx, col in enumerate(self._underlying): …\n"
                "    match forEnumReturn (sanitizedStepT ops key_lower) 0 cols with\n"
                "    | some col => .ok col\n"
                "    | none =>\n"
                "      -- raise _missing_col_error(key)\n"
                "      .error Err.key")
    return "TKey.asStr key", "-- (the block: nameLookupT)\nrmap TItem.col (nameLookupT ops self.cols key)"


def translate_names_select(body, defs):
    """the block under `if isinstance(key, tuple) and all(isinstance(k, str) for k in key):`"""
    body = [s for s in body if not is_doc(s)]
    if len(body) != 3:
        raise TranslateError("Table.__getitem__ (names key): %d statements" % len(body))
    _expect(body[0], "selected_cols = []")
    outer = [s for s in _for(body[1], "col_name", "key") if not is_doc(s)]
    _expect(body[2], "return Table(selected_cols)")
    if len(outer) != 4:
        raise TranslateError("Table.__getitem__ (names key): loop body of %d statements" % len(outer))
    _expect(outer[0], "found = False")
    exact = _for(outer[1], "col", "self._underlying")
    second = outer[2]
    if not (isinstance(second, ast.If) and u(second.test) == "not found" and not second.orelse):
        raise TranslateError("Table.__getitem__ (names key): `if not found:` expected before the sanitised loop")
    inner = [s for s in second.body if not is_doc(s)]
    if len(inner) != 3:
        raise TranslateError("Table.__getitem__ (names key): sanitised part")
    _expect(inner[0], "col_name_lower = col_name.lower()")
    _expect(inner[1], "seen = set()")
    san = _for(inner[2], "(idx, col)", "enumerate(self._underlying)")
    last = outer[3]
    if not (isinstance(last, ast.If) and u(last.test) == "not found" and not last.orelse and len(last.body) == 1
            and isinstance(last.body[0], ast.Raise) and u(last.body[0].exc) == "_missing_col_error(col_name)"):
        raise TranslateError("Table.__getitem__ (names key): `if not found: raise _missing_col_error(col_name)` expected")
    leaf = ["selected_cols.append(col.copy())", "found = True", "break"]
    leaf_lean = "((selected_cols ++ [copyWith col col.data], true), true)"
    cont = "((selected_cols, found), false)"
    st = "(st : List (Vec ν α) × Bool)"
    head = "  let selected_cols := st.1\n  let found := st.2\n"
    defs.append(f"/-- translated from the body of the exact-match loop of the multi-name selection; state `(selected_cols, found)`,\n"
                f"    result `(state, break?)`; `col.copy()` = `copyWith col col.data` -/\n"
                f"def exactAppendStepT {TVEC} (col_name : ν) {st} (idx : Nat) (col : Vec ν α) :\n"
                f"    (List (Vec ν α) × Bool) × Bool :=\n" + head
                + _loop_body(exact, 2, "col_name_lower", "col_name", leaf, leaf_lean, cont))
    defs.append(f"/-- translated from the body of the sanitised-match loop of the multi-name selection (same state) -/\n"
                f"def sanitizedAppendStepT {TVEC} (ops : NameOps ν) (col_name_lower : ν) {st} (idx : Nat) (col : Vec ν α) :\n"
                f"    (List (Vec ν α) × Bool) × Bool :=\n" + head
                + _loop_body(san, 2, "col_name_lower", "col_name", leaf, leaf_lean, cont))
    defs.append(f"/-- translated from the body of `for col_name in key` of the multi-name selection (state `selected_cols`) -/\n"
                f"def selectStepT {TVEC} (ops : NameOps ν) (cols : List (Vec ν α)) (selected_cols : List (Vec ν α)) (col_name : ν) :\n"
                f"    Res (List (Vec ν α)) :=\n"
                "  -- found = False\n"
                "  let found := false\n"
                "  -- for col in self._underlying: …\n"
                "  let st := forEnumBreak (exactAppendStepT col_name) (selected_cols, found) 0 cols\n"
                "  let selected_cols := st.1\n"
                "  let found := st.2\n"
                "  -- if not found:\n"
                "  let st := if !found then\n"
                "      -- col_name_lower = col_name.lower()\n"
                "      let col_name_lower := ops.lower col_name\n"
                "      -- seen = set()          (never read)\n"
                "      -- for idx, col in enumerate(self._underlying): …\n"
                "      forEnumBreak (sanitizedAppendStepT ops col_name_lower) (selected_cols, found) 0 cols\n"
                "    else (selected_cols, found)\n"
                "  let selected_cols := st.1\n"
                "  let found := st.2\n"
                "  -- if not found: raise _missing_col_error(col_name)\n"
                "  if !found then .error Err.key else .ok selected_cols")
    defs.append(f"/-- translated from the block under `if isinstance(key, tuple) and all(isinstance(k, str) for k in key)` -/\n"
                f"def selectNamesT {TVEC} (ops : NameOps ν) (cols : List (Vec ν α)) (key : List ν) : Res (Tab ν α) :=\n"
                "  -- selected_cols = []\n"
                "  -- for col_name in key: …\n"
                "  match key.foldlM (selectStepT ops cols) [] with\n"
                "  | .error e => .error e\n"
                "  -- return Table(selected_cols)\n"
                "  | .ok selected_cols => .ok ⟨selected_cols⟩")
    return "TKey.asStrTuple key", "-- (the block: selectNamesT)\nrmap TItem.tab (selectNamesT ops self.cols key)"


K = "(TKey.asKey key)"
ROWSEL = f"rmap (fun cs => TItem.tab ⟨cs⟩) (mapRes (fun x => asVec (vec_getitem x {K})) self.cols)"


def table_walker(defs):
    STRTUP = "isinstance(key, tuple) and all((isinstance(k, str) for k in key))"
    pure = {
        "isinstance(key, tuple)": "TKey.isTuple key",
        "len(key) != len(self.shape)": "(TKey.len key != shape_len self)",
        "len(key) > 2": "decide (TKey.len key > 2)",
        "row_is_first": "row_is_first",
        "isinstance(row_spec, slice)": "Spec.isSlice row_spec",
        "isinstance(row_spec, int)": "Spec.isInt row_spec",
        "isinstance(col_spec, int)": "Spec.isInt col_spec",
        "isinstance(col_spec, slice)": "Spec.isSlice col_spec",
        "isinstance(col_spec, str)": "Spec.isStr col_spec",
        "isinstance(col_spec, tuple) and all((isinstance(k, str) for k in col_spec))": "Spec.isStrTuple col_spec",
        "isinstance(key, int)": f"PyKey.isInt {K}",
        "isinstance(key, Vector)": f"PyKey.isVector {K}",
        "key.schema() is not None": f"(PyKey.schema {K}).isSome",
        "isinstance(key, list)": f"PyKey.isList {K}",
        "{type(e) for e in key} == {bool}": f"PyKey.typeSetIs {K} KElem.isBool",
        "{type(e) for e in key} == {int}": f"PyKey.typeSetIs {K} KElem.isInt",
        "len(self) == len(key)": f"(table_len self == PyKey.len {K})",
        "isinstance(key, slice)": f"PyKey.isSlice {K}",
    }
    res = {
        "key.schema().kind == bool": f"(PyKey.schemaKindIs {K} Kind.bool)",
        "key.schema().kind == int": f"(PyKey.schemaKindIs {K} Kind.int)",
        "key.schema().nullable": f"(PyKey.schemaNullable {K})",
        # `self._underlying[0]` raises IndexError on a table without columns
        "isinstance(self._underlying[0], Table)": "(rmap is_table (col_subscr self.cols 0))",
    }
    assigns = {
        ("key = self._check_duplicate(key)", ()): "let key := checkDuplicateTabT key",
        ("row_spec, col_spec = key", (("key", "tuple"),)): "let row_spec := TKey.item0 key\nlet col_spec := TKey.item1 key",
        ("row_is_first = isinstance(row_spec, (int, slice))", ()): "let row_is_first := (Spec.isInt row_spec || Spec.isSlice row_spec)",
        ("row_sliced = self[row_spec]", (("row_spec", "slice"),)):
            "match asTab (self_getitem self (Spec.toTKey row_spec)) with\n| .error e => .error e\n| .ok row_sliced =>",
        ("selected = row_sliced.cols()[col_spec]", (("col_spec", "slice"),)):
            "match col_slice row_sliced.cols (Spec.sliceVal col_spec) with\n| .error e => .error e\n| .ok selected =>",
    }
    vec_of = "Vector(tuple((x[key] for x in self._underlying)), dtype=self._dtype)"
    vec_of_named = "Vector(tuple((x[key] for x in self._underlying)), dtype=self._dtype, name=self._name)"
    returns = {
        ("self[row_spec][col_spec]", (("row_spec", "int"),)): "row_protocol self (Spec.intVal row_spec) col_spec",
        ("row_sliced.cols(col_spec)", (("col_spec", "int"),)): "rmap TItem.col (col_subscr row_sliced.cols (Spec.intVal col_spec))",
        ("Table(selected)", ()): ".ok (TItem.tab ⟨selected⟩)",
        ("row_sliced[col_spec]", (("col_spec", "str"),)): "self_getitem row_sliced (Spec.toTKey col_spec)",
        ("row_sliced[col_spec]", (("col_spec", "strtuple"),)): "self_getitem row_sliced (Spec.toTKey col_spec)",
        ("self._underlying[key]", (("key", "int"),)): f"rmap TItem.col (col_subscr self.cols (PyKey.intVal {K}))",
        ("Row(self, key)", (("key", "int"),)): f"make_row self (PyKey.intVal {K})",
        (vec_of, (("key", "Vector"),)): ROWSEL, (vec_of, (("key", "list"),)): ROWSEL,
        (vec_of, (("key", "slice"),)): ROWSEL, (vec_of_named, (("key", "slice"),)): ROWSEL,
        (vec_of_named, (("key", "Vector"),)): ROWSEL, (vec_of_named, (("key", "list"),)): ROWSEL,
    }
    blocks = {"isinstance(key, str)": lambda body: translate_name_lookup(body, defs),
              STRTUP: lambda body: translate_names_select(body, defs)}
    return _Walker("Table.__getitem__", pure, res, assigns, returns, blocks=blocks,
                   raisers={"_missing_col_error": "SerifKeyError"}, fall_off=".ok TItem.none")


def translate_table_getitem(ttree):
    mce = find_func(ttree, "_missing_col_error")
    rets = [s for s in mce.body if not is_doc(s)]
    if not (len(rets) == 1 and isinstance(rets[0], ast.Return) and isinstance(rets[0].value, ast.Call)
            and u(rets[0].value.func) == "SerifKeyError"):
        raise TranslateError("_missing_col_error does not return a SerifKeyError")
    f = find_func(ttree, "__getitem__", "Table")
    if [a.arg for a in f.args.args] != ["self", "key"]:
        raise TranslateError("Table.__getitem__: signature")
    _seen_is_write_only(f)
    defs = []
    body = table_walker(defs).walk(f.body, 2, {})
    defs.append(
        "/-- translated from `Table.__getitem__(self, key)`, statement by statement.  Parameters: `shape_len` = `len(self.shape)`,\n"
        "    `table_len` = `len(self)`, `is_table` = `isinstance(·, Table)` on a column, `col_subscr` / `col_slice` = subscription of\n"
        "    the column tuple by an int / a slice (`cols(i)`, `cols()[s]`, `_underlying[i]`), `make_row` = `Row(self, i)`,\n"
        "    `row_protocol` = `self[i][col_spec]` (class Row), `vec_getitem` = `x[key]` on a column (`Vector.__getitem__`),\n"
        "    `self_getitem` = the recursive calls `self[...]` / `row_sliced[...]`. -/\n"
        f"def getitemTabT {TVEC} (ops : NameOps ν)\n"
        "    (shape_len table_len : Tab ν α → Nat) (is_table : Vec ν α → Bool)\n"
        "    (col_subscr : List (Vec ν α) → Int → Res (Vec ν α)) (col_slice : List (Vec ν α) → Slice → Res (List (Vec ν α)))\n"
        "    (make_row : Tab ν α → Int → Res (TItem ν α)) (row_protocol : Tab ν α → Int → Spec ν → Res (TItem ν α))\n"
        "    (vec_getitem : Vec ν α → Key → Res (Item ν α)) (self_getitem : Tab ν α → TKey ν → Res (TItem ν α))\n"
        "    (self : Tab ν α) (key : TKey ν) : Res (TItem ν α) :=\n" + body)
    return defs


# =================================================================================================
PRELUDE = r'''/-! ### fixed text: the Python view of the model's key types, and the control forms used by the translation -/

namespace PyKey
/-- `isinstance(key, int)` (bools are ints) -/
def isInt : Key → Bool | .int _ => true | _ => false
/-- the value of an int key -/
def intVal : Key → Int | .int i => i | _ => 0
/-- `isinstance(key, tuple)` -/
def isTuple : Key → Bool | .tuple1 _ => true | .tupleN _ => true | _ => false
/-- `len(key)` of a tuple, Vector or list key -/
def len : Key → Nat | .tuple1 _ => 1 | .tupleN n => n | .vec _ es => es.length | .list es => es.length | _ => 0
/-- `key[0]` of a 1-tuple (the model keeps no items of other tuples) -/
def item0 : Key → Key | .tuple1 k => k | _ => .other
/-- `isinstance(key, Vector)` -/
def isVector : Key → Bool | .vec _ _ => true | _ => false
/-- `key.schema()` -/
def schema : Key → Option DType | .vec dt _ => dt | _ => none
/-- `key.schema().kind == K`; AttributeError when the schema is None -/
def schemaKindIs (key : Key) (k : Kind) : Res Bool :=
  match schema key with | none => .error Err.attr | some d => .ok (d.kind == k)
/-- `key.schema().nullable`; AttributeError when the schema is None -/
def schemaNullable (key : Key) : Res Bool :=
  match schema key with | none => .error Err.attr | some d => .ok d.nullable
/-- `isinstance(key, list)` -/
def isList : Key → Bool | .list _ => true | _ => false
/-- the elements `for e in key` of a Vector or list key -/
def elems : Key → List KElem | .vec _ es => es | .list es => es | _ => []
/-- `{type(e) for e in key} == {T}`: not empty and every element of exactly the type T -/
def typeSetIs (key : Key) (isT : KElem → Bool) : Bool := !(elems key).isEmpty && (elems key).all isT
/-- `isinstance(key, slice)` -/
def isSlice : Key → Bool | .slice _ => true | _ => false
def sliceVal : Key → Slice | .slice s => s | _ => ⟨none, none, none⟩
end PyKey

/-- `a and b` where evaluating a side may raise (`b` only matters when `a` is true) -/
def pyAnd (a b : Res Bool) : Res Bool :=
  match a with | .error e => .error e | .ok false => .ok false | .ok true => b
/-- `not a` where evaluating `a` may raise -/
def pyNot (a : Res Bool) : Res Bool :=
  match a with | .error e => .error e | .ok b => .ok (!b)
/-- `if c: t` / else `e`, where evaluating the test may raise -/
def pyIf {ρ : Type} (c : Res Bool) (t e : Res ρ) : Res ρ :=
  match c with | .error x => .error x | .ok true => t | .ok false => e

/-- `self._check_duplicate(key)`: `key` itself, or a deep copy of it when it is `self` — the same value -/
def checkDuplicateT (key : Key) : Key := key

/-- `(x for x, y in zip(xs, ys, strict=True) if y)`; `strict=True` raises ValueError when one side is longer -/
def zipStrictIf {α : Type} : List α → List KElem → Res (List α)
  | [], [] => .ok []
  | x :: xs, y :: ys =>
    match zipStrictIf xs ys with
    | .error e => .error e
    | .ok r => .ok (if y.truthy then x :: r else r)
  | _, _ => .error Err.value

/-- an element `x` of a key used as key itself (`self[x]`): a bool is an int, anything else is no valid key -/
def elemKey : KElem → Key
  | .bool b => .int (if b then 1 else 0)
  | .int i => .int i
  | .other => .other

/-- the value `self[x]` as stored element of the new vector (a vector result cannot be told by the model: AssertionError) -/
def asScalar {ν α : Type} : Res (Item ν α) → Res α
  | .error e => .error e
  | .ok (.scalar x) => .ok x
  | .ok (.vec _) => .error Err.other

/-- the value `x[key]` of a column under a row-selecting key, as column of the new table -/
def asVec {ν α : Type} : Res (Item ν α) → Res (Vec ν α)
  | .error e => .error e
  | .ok (.vec r) => .ok r
  | .ok (.scalar _) => .error Err.other

/-- `for idx, x in enumerate(xs): <body>` where the body may `return`: the first returned value, else `none` -/
def forEnumReturn {β ρ : Type} (body : Nat → β → Option ρ) : Nat → List β → Option ρ
  | _, [] => none
  | idx, x :: xs =>
    match body idx x with
    | some r => some r
    | none => forEnumReturn body (idx + 1) xs

/-- `for idx, x in enumerate(xs): <body>` where the body updates a state and may `break` (second component) -/
def forEnumBreak {σ β : Type} (body : σ → Nat → β → σ × Bool) : σ → Nat → List β → σ
  | st, _, [] => st
  | st, idx, x :: xs =>
    let r := body st idx x
    if r.2 then r.1 else forEnumBreak body r.1 (idx + 1) xs

namespace Spec
variable {ν : Type}
/-- `isinstance(spec, int)` -/
def isInt : Spec ν → Bool | .int _ => true | _ => false
def intVal : Spec ν → Int | .int i => i | _ => 0
/-- `isinstance(spec, slice)` -/
def isSlice : Spec ν → Bool | .slice _ => true | _ => false
def sliceVal : Spec ν → Slice | .slice s => s | _ => ⟨none, none, none⟩
/-- `isinstance(spec, str)` -/
def isStr : Spec ν → Bool | .name _ => true | _ => false
/-- `isinstance(spec, tuple) and all(isinstance(k, str) for k in spec)` -/
def isStrTuple : Spec ν → Bool | .names _ => true | _ => false
/-- a member of a 2-tuple used as key itself -/
def toTKey : Spec ν → TKey ν
  | .int i => .row (.int i)
  | .slice s => .row (.slice s)
  | .name k => .name k
  | .names ks => .names ks
  | .other => .row .other
end Spec

namespace TKey
variable {ν : Type}
/-- `isinstance(key, str)`, with the string -/
def asStr : TKey ν → Option ν | .name k => some k | _ => none
/-- `isinstance(key, tuple) and all(isinstance(k, str) for k in key)`, with the strings -/
def asStrTuple : TKey ν → Option (List ν) | .names ks => some ks | _ => none
/-- `isinstance(key, tuple)` -/
def isTuple : TKey ν → Bool | .names _ => true | .two _ _ => true | .tupleN _ => true | _ => false
/-- `len(key)` of a tuple key -/
def len : TKey ν → Nat | .names ks => ks.length | .two _ _ => 2 | .tupleN n => n | _ => 0
/-- `row_spec, col_spec = key` (the model keeps the members of 2-tuples that are not all strings) -/
def item0 : TKey ν → Spec ν | .two a _ => a | _ => .other
def item1 : TKey ν → Spec ν | .two _ b => b | _ => .other
/-- the key as `Vector.__getitem__` sees it (int, Vector, list, slice, other) -/
def asKey : TKey ν → Key | .row k => k | _ => .other
end TKey

/-- `self._check_duplicate(key)` on a table key: the same value -/
def checkDuplicateTabT {ν : Type} (key : TKey ν) : TKey ν := key
'''


def generate(src_dir):
    parts, errors = [], []
    try:
        vtree = ast.parse(open(os.path.join(src_dir, "vector.py")).read())
        ttree = ast.parse(open(os.path.join(src_dir, "table.py")).read())
    except Exception as ex:
        vtree = ttree = None
        errors.append(("getitem", f"{type(ex).__name__}: {ex}"))
        parts.append(f"-- getitem: not translated ({type(ex).__name__})")
    if vtree is not None:
        jobs = [("vector_getitem", lambda: (check_helpers(vtree), [translate_shape(vtree), translate_vector_getitem(vtree)])[1]),
                ("table_getitem", lambda: (check_helpers(vtree), translate_table_getitem(ttree))[1])]
        for what, job in jobs:
            try:
                parts += job()
            except Exception as ex:
                errors.append((what, f"{type(ex).__name__}: {ex}"))
                parts.append(f"-- {what}: not translated ({type(ex).__name__})")
    text = ("/- GENERATED by harness/tr/getitem.py from /repo's working tree — do not edit.\n"
            "   Vector.shape, Vector.__getitem__ and Table.__getitem__ translated statement by statement (each Lean step is preceded by the\n"
            "   Python statement it comes from); equivalence theorems in Serif/Tie/GetItem.lean. -/\n"
            "import Serif.Model.Index\n\nset_option linter.unusedVariables false\n\nnamespace Serif.Gen.TGI\nopen Serif Serif.Index\n\n"
            + PRELUDE + "\n/-! ### translated -/\n\n" + "\n\n".join(parts) + "\n\nend Serif.Gen.TGI\n")
    return text, errors
