"""Translator plug-in: the body lines of repr (src/serif/display.py) -- row limits, preview length, padding, transposition.

Translated statement by statement with the typed translator of `tr/reprfooter.py` (`Tr`; extended here by the few forms these
functions add: `X if X is not None else c`, `a and X is not None`, `vals[n:]`, the preview list that mixes stored values with the
placeholder `'...'`, a loop / comprehension whose element computation may raise):
    set_repr_rows       -> setReprRowsT          (the value the global `_REPR_ROWS_DEFAULT` gets)
    _format_column      -> formatColumnT         (the whole function: default of `max_preview`, the preview, the loop, the padding)
    _align_columns      -> alignColumnsT         (the whole function)
    _needs_quote        -> needsQuoteT           (the whole function, for a name that is a string)
    _repr_table         -> three *slices* of the function body (the statements the value depends on, in source order):
                           tableMaxPreviewT      (`max_preview`: the per-table `_repr_rows` override)
                           tableFormattedColsT   (`formatted_cols` after the `...` column was inserted)
                           tableLinesT           (`lines` just before the footer is appended, from `aligned_cols, aligned_headers`)

Parameters of the generated definitions (never re-implemented here): `str.ljust` / `str.rjust`, the per-value `if`/`elif` chain of the
loop of `_format_column` (`cell_text`; translated and tied separately: `fmtBranchT` in Serif/Tie/Repr.lean), `str.isidentifier`,
`str[0].isdigit()`, whether `float(name)` raises ValueError, `str.lower`, `_get_reserved_names()`, and what the objects report about
themselves (`col._underlying`, `col._dtype`, `tbl.cols()`, `tbl._repr_rows`, `hasattr(tbl, '_repr_rows')`).

A loop `for v in xs: <body>` is read as `for v in xs: out.append(cell_text(v))` only if every path through its body appends exactly one
value to `out`, assigns nothing but fresh locals, and has no `return` / `break` / `continue` (`appends_once`).
Every statement outside the understood fragment raises TranslateError: the definition is then replaced by a comment.
Theorems: lean/Serif/Tie/ReprBody.lean.
"""
import ast, os, copy
from py2lean import TranslateError, find_func
from tr import reprfooter as RF
from tr.reprfooter import Tr, Env, u, strip_doc, quote, check_args, mutated, exits, lstr

GEN_FILE = "TranslatedReprBody.lean"
TIE = {"Serif.Tie.ReprBody": ["C20"]}

LEAN_TYPES = dict(RF.LEAN_TYPES)
LEAN_TYPES.update({"list[cell]": "List α", "list[shown]": "List (Shown α)", "res[list[str]]": "Res (List String)"})


class TrB(Tr):
    """`Tr` plus the forms of the body functions"""
    nonempty = ()         # strings known to be non-empty where their first character is read

    def is_none_test(self, node, env):
        """`X is None` / `X is not None` on an optional X -> (X, True if `is not`)"""
        if isinstance(node, ast.Compare) and len(node.ops) == 1 and isinstance(node.ops[0], (ast.Is, ast.IsNot)) \
                and isinstance(node.comparators[0], ast.Constant) and node.comparators[0].value is None and self.is_opt(node.left, env):
            return node.left, isinstance(node.ops[0], ast.IsNot)
        return None

    def ex(self, node, env):
        key = u(node)
        if key in env.atoms:
            return env.atoms[key]
        # `A if X is not None else B` / `A if X is None else B`: a match on the optional X
        if isinstance(node, ast.IfExp):
            nt = self.is_none_test(node.test, env)
            if nt is not None:
                x, is_not = nt
                scrut, bound, e2 = self.bind_opt(x, env)
                some_node, none_node = (node.body, node.orelse) if is_not else (node.orelse, node.body)
                (a, at), (b, bt) = self.ex(some_node, e2), self.ex(none_node, env)
                if at != bt:
                    raise TranslateError("conditional expression of two types " + key)
                return f"(match {scrut} with | some {bound} => {a} | none => {b})", at
        # the preview list: stored values and the placeholder string '...' in one list
        if isinstance(node, ast.Call) and isinstance(node.func, ast.Name) and node.func.id == "list" and len(node.args) == 1 \
                and not node.keywords and not (isinstance(node.args[0], ast.Call) and u(node.args[0].func) == "range"):
            e, t = self.ex(node.args[0], env)
            if t == "list[cell]":
                return f"({e}.map Shown.cell)", "list[shown]"
        if isinstance(node, ast.BinOp) and isinstance(node.op, ast.Add):
            def side(n):
                if isinstance(n, ast.List) and len(n.elts) == 1 and isinstance(n.elts[0], ast.Constant) and n.elts[0].value == "...":
                    return "[Shown.ellipsis]", "list[shown]?"
                return self.ex(n, env)
            (l, lt), (r, rt) = side(node.left), side(node.right)
            if "list[shown]" in (lt, rt) and lt.rstrip("?") == rt.rstrip("?") == "list[shown]":
                return f"({l} ++ {r})", "list[shown]"
            if lt.endswith("?") or rt.endswith("?"):
                raise TranslateError("the literal ['...'] outside a preview list: " + key)
        # l[n:] for n >= 0
        if isinstance(node, ast.Subscript) and isinstance(node.slice, ast.Slice) and node.slice.step is None \
                and node.slice.upper is None and node.slice.lower is not None \
                and not (isinstance(node.slice.lower, ast.UnaryOp) and isinstance(node.slice.lower.op, ast.USub)):
            v, vt = self.ex(node.value, env)
            lo, lot = self.ex(node.slice.lower, env)
            if vt.startswith("list[") and lot == "nat":
                return f"({v}.drop {lo})", vt
            raise TranslateError("slice " + key)
        # s[0].isdigit()
        if isinstance(node, ast.Call) and not node.args and not node.keywords and isinstance(node.func, ast.Attribute) \
                and node.func.attr == "isdigit" and isinstance(node.func.value, ast.Subscript) \
                and isinstance(node.func.value.slice, ast.Constant) and node.func.value.slice.value == 0:
            e, t = self.ex(node.func.value.value, env)
            if t == "str" and u(node.func.value.value) in self.nonempty:
                return f"(first_isdigit {e})", "bool"
            raise TranslateError(f"{key}: first character of a string not known to be non-empty")
        return super().ex(node, env)

    def call(self, node, env):
        f = node.func
        if isinstance(f, ast.Name) and f.id == "__ok__" and len(node.args) == 1:
            e, t = self.ex(node.args[0], env)
            return f"(.ok {e})", f"res[{t}]"
        if isinstance(f, ast.Name) and f.id == "hasattr" and len(node.args) == 2:
            raise TranslateError("hasattr on an unknown object: " + u(node))
        if isinstance(f, ast.Attribute) and not node.keywords and not node.args:
            if f.attr == "isidentifier":
                e, t = self.ex(f.value, env)
                if t == "str":
                    return f"(str_isidentifier {e})", "bool"
        if isinstance(f, ast.Name) and f.id == "_get_reserved_names" and not node.args and not node.keywords:
            return "reserved_names", "list[str]"
        if isinstance(f, ast.Name) and f.id == "isinstance" and len(node.args) == 2 and u(node.args[1]) == "str":
            e, t = self.ex(node.args[0], env)
            if t == "str":
                return "true", "bool"
        return super().call(node, env)

    def branch(self, test, env, yes, no, ind):
        pad = " " * ind
        # `if A and X is not None:` -- holds iff A holds and X is some value, which the branch may then use
        if isinstance(test, ast.BoolOp) and isinstance(test.op, ast.And) and len(test.values) >= 2:
            nt = self.is_none_test(test.values[-1], env)
            if nt is not None and nt[1] and not any(self.is_opt(v, env) for v in test.values[:-1]):
                x = nt[0]
                guard = " && ".join(self.truthy(v, env) for v in test.values[:-1])
                scrut, bound, e2 = self.bind_opt(x, env)
                return ([pad + f"match (if {guard} then {scrut} else none) with", pad + f"| some {bound} =>"] + yes(e2, ind + 2)
                        + [pad + "| none =>"] + no(env, ind + 2))
        return super().branch(test, env, yes, no, ind)


# the table of Lean types is looked up by `Tr.simple` through the module global of reprfooter
RF.LEAN_TYPES.update({k: v for k, v in LEAN_TYPES.items() if k not in RF.LEAN_TYPES})


# ---------------------------------------------------------------------------------------------------------------------
# shape checks
# ---------------------------------------------------------------------------------------------------------------------
def appends_once(stmts, target, forbidden):
    """does every path through the statement list run `target.append(<one value>)` exactly once, doing nothing else but assigning
    locals outside `forbidden`?  (no return / break / continue / loops)"""
    count = 0
    for s in stmts:
        if isinstance(s, ast.Expr) and isinstance(s.value, ast.Constant):
            continue
        if isinstance(s, ast.Pass):
            continue
        if isinstance(s, ast.Expr) and isinstance(s.value, ast.Call) and u(s.value.func) == f"{target}.append" \
                and len(s.value.args) == 1 and not s.value.keywords:
            if target in RF.names_used(s.value.args[0]):
                return False
            count += 1
            continue
        if isinstance(s, ast.Assign) and all(isinstance(t, ast.Name) and t.id not in forbidden for t in s.targets) \
                and target not in RF.names_used(s.value):
            continue
        if isinstance(s, ast.If):
            if target in RF.names_used(s.test):
                return False
            a = appends_once(s.body, target, forbidden)
            b = appends_once(s.orelse, target, forbidden) if s.orelse else 0
            if a is False or b is False or a != b:
                return False
            count += a
            continue
        if isinstance(s, ast.Try) and not s.orelse and not s.finalbody and s.handlers:
            # an exception raised while the value is computed leaves `out` untouched: the append is the last step of the body
            a = appends_once(s.body, target, forbidden)
            hs = [appends_once(h.body, target, forbidden) for h in s.handlers]
            if a != 1 or any(h != 1 for h in hs):
                return False
            if not (isinstance(s.body[-1], ast.Expr) and isinstance(s.body[-1].value, ast.Call) and u(s.body[-1].value.func) == f"{target}.append"):
                return False
            count += 1
            continue
        return False
    return count


def no_param_mutation(f, params):
    """no statement of `f` mentions one of its parameters `params` in a position from which the object could be changed"""
    for s in strip_doc(f.body):
        bad = RF.risky_mentions(s, set(params))
        if bad:
            raise TranslateError(f"{f.name} may change {sorted(bad)}")
        for n in ast.walk(s):
            if isinstance(n, (ast.Assign, ast.AugAssign, ast.Delete)):
                tg = n.targets if isinstance(n, (ast.Assign, ast.Delete)) else [n.target]
                for t in tg:
                    if isinstance(t, (ast.Subscript, ast.Attribute)) and RF.names_used(t) & set(params):
                        raise TranslateError(f"{f.name} assigns into {u(t)}")


def ok_returns(stmts):
    """`return X` -> `return __ok__(X)` (the function's result is `Res`: an earlier step may have raised)"""
    out = []
    for s in stmts:
        if isinstance(s, ast.Return) and s.value is not None:
            out.append(ast.Return(value=ast.Call(func=ast.Name(id="__ok__", ctx=ast.Load()), args=[s.value], keywords=[])))
        elif isinstance(s, ast.If):
            s2 = copy.copy(s)
            s2.body, s2.orelse = ok_returns(s.body), ok_returns(s.orelse)
            out.append(s2)
        else:
            out.append(s)
    return out


# ---------------------------------------------------------------------------------------------------------------------
# the generated definitions
# ---------------------------------------------------------------------------------------------------------------------
def translate_all(display_src):
    tree = ast.parse(display_src)
    results = []
    consts = {"MAX_HEAD_COLS": ("MAX_HEAD_COLS", "nat"), "_REPR_ROWS_DEFAULT": ("REPR_ROWS_DEFAULT", "nat")}

    def attempt(what, fn):
        try:
            results.append((what, fn(), None))
            return True
        except TranslateError as ex:
            results.append((what, None, f"TranslateError: {ex}"))
        except Exception as ex:                                   # a bug of the translator is a refusal, not a crash
            results.append((what, None, f"{type(ex).__name__}: {ex}"))
        return False

    # ---- set_repr_rows -----------------------------------------------------------------------------------------------
    def set_repr_rows():
        f = find_func(tree, "set_repr_rows")
        check_args(f, ["n"])
        body = strip_doc(f.body)
        # `global G` followed by assignments to G only: the function's effect is the last value of G
        if not body or not isinstance(body[0], ast.Global) or body[0].names != ["_REPR_ROWS_DEFAULT"]:
            raise TranslateError("set_repr_rows: expected `global _REPR_ROWS_DEFAULT` first")
        rest = body[1:]
        for s in rest:
            if isinstance(s, ast.Global) or any(isinstance(n, ast.Return) for n in ast.walk(s)):
                raise TranslateError("set_repr_rows: " + u(s)[:60])
        if "_REPR_ROWS_DEFAULT" not in mutated(rest):
            raise TranslateError("set_repr_rows does not assign the global")
        tr = TrB({}, consts={"MAX_HEAD_COLS": consts["MAX_HEAD_COLS"]})
        # the global is read through its old value until the function assigns it
        env = Env(vars={"n": "opt[nat]", "_REPR_ROWS_DEFAULT": "nat"})
        lines = tr.block(rest, env, lambda e, j: [" " * j + "_REPR_ROWS_DEFAULT"], 2)
        if env.vars.get("_REPR_ROWS_DEFAULT") != "nat":
            raise TranslateError("set_repr_rows: type of the global")
        return ("/-- translated from `display.set_repr_rows`: the value of the global `_REPR_ROWS_DEFAULT` afterwards (`n` is a count or None;\n"
                "    the first argument is the value of the global before the call):\n" + quote(f) + " -/\n"
                "def setReprRowsT (_REPR_ROWS_DEFAULT : Nat) (n : Option Nat) : Nat :=\n" + "\n".join(lines))
    attempt("set_repr_rows", set_repr_rows)

    # ---- _needs_quote ------------------------------------------------------------------------------------------------
    def needs_quote():
        f = find_func(tree, "_needs_quote")
        check_args(f, ["name"])
        body = strip_doc(f.body)
        # `try: float(name); return True  except ValueError: pass` is `if float(name) does not raise ValueError: return True`
        new = []
        for s in body:
            if isinstance(s, ast.Try):
                if s.orelse or s.finalbody or len(s.handlers) != 1 or u(s.handlers[0].type) != "ValueError" \
                        or [u(x) for x in s.handlers[0].body] != ["pass"] or len(s.body) != 2 \
                        or u(s.body[0]) != "float(name)" or not isinstance(s.body[1], ast.Return):
                    raise TranslateError("_needs_quote: the try statement")
                new.append(ast.If(test=ast.Name(id="__float_parses__", ctx=ast.Load()), body=[s.body[1]], orelse=[]))
            else:
                new.append(s)
        # `name[0]` is read only after `if not name: return ...`
        first = [i for i, s in enumerate(new) if any(isinstance(n, ast.Subscript) for n in ast.walk(s))]
        guard = [i for i, s in enumerate(new) if isinstance(s, ast.If) and not s.orelse and u(s.test) == "not name" and exits(s.body)]
        tr = TrB({})
        if first and guard and guard[0] < first[0] and "name" not in mutated(new):
            tr.nonempty = ("name",)
        env = Env(vars={"name": "str"}, atoms={"__float_parses__": ("(float_parses name)", "bool")})
        lines = tr.block(new, env, None, 2)
        return ("/-- translated from `display._needs_quote` for a name that is a string (`isinstance(name, str)` is true; a name of another\n"
                "    type is quoted by the first statement).  `try: float(name); return True except ValueError: pass` is read as\n"
                "    `if float_parses name: return True`:\n" + quote(f) + " -/\n"
                "def needsQuoteT (str_isidentifier first_isdigit float_parses : String → Bool) (str_lower : String → String)\n"
                "    (reserved_names : List String) (name : String) : Bool :=\n" + "\n".join(lines))
    attempt("_needs_quote", needs_quote)

    # ---- _format_column ----------------------------------------------------------------------------------------------
    def format_column():
        f = find_func(tree, "_format_column")
        check_args(f, ["col", "max_preview"], ["None"])
        body = strip_doc(f.body)
        loops = [i for i, s in enumerate(body) if isinstance(s, ast.For)]
        if len(loops) != 1:
            raise TranslateError("_format_column: expected one loop")
        i = loops[0]
        loop = body[i]
        if loop.orelse or not isinstance(loop.target, ast.Name) or not isinstance(loop.iter, ast.Name):
            raise TranslateError("_format_column: the loop header")
        v, xs = loop.target.id, loop.iter.id
        if i == 0 or not isinstance(body[i - 1], ast.Assign) or u(body[i - 1]) != "out = []":
            raise TranslateError("_format_column: expected `out = []` right before the loop")
        if any(isinstance(n, (ast.Return, ast.Break, ast.Continue)) for s in loop.body for n in ast.walk(s)):
            raise TranslateError("_format_column: return / break / continue inside the loop")
        forbidden = {"out", xs, v, "col", "max_preview", "vals"}
        if appends_once(loop.body, "out", forbidden) != 1:
            raise TranslateError("_format_column: a path through the loop body does not append exactly one text to `out`")
        pre, post = body[:i], ok_returns(body[i + 1:])
        if any(isinstance(n, ast.Return) for s in pre for n in ast.walk(s)):
            raise TranslateError("_format_column: return before the loop")
        tr = TrB({}, hints={"out": "list[str]"}, consts=consts)
        atoms = {"col._underlying": ("col_underlying", "list[cell]"), "col._dtype": ("col_dtype", "opt[dtype]")}
        env = Env(vars={"max_preview": "opt[nat]"}, atoms=atoms)

        def k(e, j):
            if e.vars.get(xs) != "list[shown]" or e.vars.get("out") != "list[str]":
                raise TranslateError(f"_format_column: the loop runs over {xs} : {e.vars.get(xs)}")
            pad = " " * j
            return ([pad + f"-- for {v} in {xs}: (every path of the body appends one text to `out`: `cell_text {v}`)",
                     pad + f"match pyForAppend cell_text {xs} out with", pad + "| .error e => .error e", pad + "| .ok out =>"]
                    + tr.block(post, e, None, j + 2))
        lines = tr.block(pre, env, k, 2)
        return ("/-- translated from `display._format_column`.  The body of the loop is the per-value `if`/`elif` chain (`cell_text`, which may raise;\n"
                "    translated separately as `fmtBranchT`); here it is only checked that every path through it appends exactly one text to `out`.\n"
                "    The previewed list mixes stored values and the placeholder string `'...'`: `List (Shown α)`:\n" + quote(f) + " -/\n"
                "def formatColumnT {α : Type} (REPR_ROWS_DEFAULT : Nat) (cell_text : Shown α → Res String) (str_ljust str_rjust : String → Nat → String)\n"
                "    (col_underlying : List α) (col_dtype : Option DType) (max_preview : Option Nat) : Res (List String) :=\n" + "\n".join(lines))
    attempt("_format_column", format_column)

    # ---- _align_columns ----------------------------------------------------------------------------------------------
    def align_columns():
        f = find_func(tree, "_align_columns")
        check_args(f, ["formatted_cols", "header_rows", "col_dtypes"])
        tr = TrB({}, hints={"col_widths": "list[nat]", "aligned_cols": "list[list[str]]", "aligned_headers": "list[list[str]]"})
        env = Env(vars={"formatted_cols": "list[list[str]]", "header_rows": "list[list[str]]", "col_dtypes": "list[str]"})
        lines = tr.block(f.body, env, None, 2)
        return ("/-- translated from `display._align_columns` (`l[i]` of an index the loops keep in range is `l.getD i`):\n" + quote(f) + " -/\n"
                "def alignColumnsT (str_ljust str_rjust : String → Nat → String)\n"
                "    (formatted_cols header_rows : List (List String)) (col_dtypes : List String) : List (List String) × List (List String) :=\n"
                + "\n".join(lines))
    attempt("_align_columns", align_columns)

    # ---- _repr_table: slices -----------------------------------------------------------------------------------------
    def table_body():
        f = find_func(tree, "_repr_table")
        check_args(f, ["tbl"])
        body = strip_doc(f.body)
        if len(body) < 3 or u(body[-1]) != "return '\\n'.join(lines)" or u(body[-3]) != "lines.append('')" or not isinstance(body[-2], ast.If):
            raise TranslateError("_repr_table: the last three statements")
        # the early return of the table without columns is outside the slices
        stmts = [s for s in body[:-3] if not (isinstance(s, ast.If) and exits(s.body) and not s.orelse)]
        if any(isinstance(n, ast.Return) for s in stmts for n in ast.walk(s)):
            raise TranslateError("_repr_table: return inside the sliced part")
        return f, body, stmts

    def pure_callees():
        """the functions `_repr_table` hands its lists to must not change them"""
        no_param_mutation(find_func(tree, "_compute_headers"), ["cols", "col_indices"])
        no_param_mutation(find_func(tree, "_header_rows"), ["display_names", "sanitized_names", "dtypes"])
        no_param_mutation(find_func(tree, "_align_columns"), ["formatted_cols", "header_rows", "col_dtypes"])
        no_param_mutation(find_func(tree, "_format_column"), ["col"])

    def sliced(stmts, targets):
        last = max(i for i, s in enumerate(stmts) if set(mutated([s])) & set(targets))
        head = stmts[:last + 1]
        for t in targets:
            if [s for s in stmts[last + 1:] if t in mutated([s])]:
                raise TranslateError(f"_repr_table: {t} changed later")
        saved = set(RF.SAFE_CALLS)
        pure_callees()
        RF.SAFE_CALLS.update({"_compute_headers", "_header_rows", "_align_columns", "_format_column"})
        try:
            sl, _ = RF.slice_stmts(head, set(targets))
        finally:
            RF.SAFE_CALLS.clear()
            RF.SAFE_CALLS.update(saved)
        return sl

    def table_max_preview():
        f, body, stmts = table_body()
        sl = sliced(stmts, ["max_preview"])
        tr = TrB({}, hints={"max_preview": "opt[nat]"}, consts=consts)
        env = Env(atoms={"tbl._repr_rows": ("tbl_repr_rows", "opt[nat]"), "hasattr(tbl, '_repr_rows')": ("tbl_has_repr_rows", "bool")})
        lines = tr.block(sl, env, lambda e, j: [" " * j + "max_preview"], 2)
        return ("/-- `max_preview` of `_repr_table`: the per-table override (`tbl_has_repr_rows` = `hasattr(tbl, '_repr_rows')`).\n"
                "    The statements of `display._repr_table` this value depends on, in source order:\n" + quote(sl) + " -/\n"
                "def tableMaxPreviewT (tbl_has_repr_rows : Bool) (tbl_repr_rows : Option Nat) : Option Nat :=\n" + "\n".join(lines))
    attempt("_repr_table/tableMaxPreviewT", table_max_preview)

    def table_formatted_cols():
        f, body, stmts = table_body()
        sl = sliced(stmts, ["formatted_cols"])
        # the statement that may raise: `formatted_cols = [_format_column(cols[i], max_preview=max_preview) for i in col_indices]`
        idx = [i for i, s in enumerate(sl) if isinstance(s, ast.Assign) and "_format_column" in {n.id for n in ast.walk(s) if isinstance(n, ast.Name)}]
        if len(idx) != 1:
            raise TranslateError("_repr_table: expected one statement calling _format_column")
        i = idx[0]
        s = sl[i]
        if any("_format_column" in {n.id for n in ast.walk(x) if isinstance(n, ast.Name)} for x in sl[:i] + sl[i + 1:]):
            raise TranslateError("_repr_table: _format_column called elsewhere")
        comp = s.value
        if len(s.targets) != 1 or not isinstance(s.targets[0], ast.Name) or not isinstance(comp, ast.ListComp) or len(comp.generators) != 1 \
                or comp.generators[0].ifs or comp.generators[0].is_async or not isinstance(comp.generators[0].target, ast.Name):
            raise TranslateError("_repr_table: the comprehension over _format_column")
        g = comp.generators[0]
        call = comp.elt
        it = g.target.id
        if not (isinstance(call, ast.Call) and u(call.func) == "_format_column" and len(call.args) == 1 and u(call.args[0]) == f"cols[{it}]"
                and [k.arg for k in call.keywords] == ["max_preview"]):
            raise TranslateError("_repr_table: the call of _format_column: " + u(call))
        tr = TrB({}, hints={"max_preview": "opt[nat]"}, consts=consts)
        env = Env(atoms={"tbl._repr_rows": ("tbl_repr_rows", "opt[nat]"), "hasattr(tbl, '_repr_rows')": ("tbl_has_repr_rows", "bool"),
                         "tbl.cols()": ("tbl_cols", "list[col]")})
        post = sl[i + 1:]
        target = s.targets[0].id

        def k(e, j):
            pad = " " * j
            lst, lt = tr.ex(g.iter, e)
            mp, mt = tr.ex(call.keywords[0].value, e)
            cols, ct = tr.ex(ast.Name(id="cols", ctx=ast.Load()), e)
            if lt != "list[nat]" or mt != "opt[nat]" or ct != "list[col]":
                raise TranslateError(f"_repr_table: types in the comprehension: {lt}, {mt}, {ct}")
            e2 = e.copy()
            e2.vars[target] = "list[list[str]]"
            return ([pad + f"-- {u(s)}   (`cols[{it}]` raises IndexError outside the list; `_format_column` may raise)",
                     pad + f"match pyMapM (fun {it} => match {cols}[{it}]? with | some col => format_column col {mp} | none => .error .index) {lst} with",
                     pad + "| .error e => .error e", pad + f"| .ok {target} =>"]
                    + tr.block(post, e2, lambda e3, j3: [" " * j3 + f".ok {target}"], j + 2))
        lines = tr.block(sl[:i], env, k, 2)
        return ("/-- `formatted_cols` of `_repr_table` after the `...` column was inserted (for a table with at least one column);\n"
                "    `format_column` = `_format_column` (see `formatColumnT`), which may raise.\n"
                "    The statements of `display._repr_table` this value depends on, in source order:\n" + quote(sl) + " -/\n"
                "def tableFormattedColsT {γ : Type} (MAX_HEAD_COLS : Nat) (format_column : γ → Option Nat → Res (List String))\n"
                "    (tbl_has_repr_rows : Bool) (tbl_repr_rows : Option Nat) (tbl_cols : List γ) : Res (List (List String)) :=\n" + "\n".join(lines))
    attempt("_repr_table/tableFormattedColsT", table_formatted_cols)

    def table_lines():
        f, body, stmts = table_body()
        # from the statement that produces `aligned_cols, aligned_headers` on: everything that touches `lines`
        prod = [i for i, s in enumerate(stmts) if {"aligned_cols", "aligned_headers"} & set(mutated([s]))]
        if len(prod) != 1 or u(stmts[prod[0]].targets[0]) != "(aligned_cols, aligned_headers)":
            raise TranslateError("_repr_table: expected one statement assigning `aligned_cols, aligned_headers`")
        if any("lines" in RF.names_used(s) for s in stmts[:prod[0] + 1]):
            raise TranslateError("_repr_table: `lines` used before the columns are aligned")
        tail = stmts[prod[0] + 1:] + [body[-3]]
        sl, needed = RF.slice_stmts(tail, {"lines"})
        stored = {n.id for x in sl for n in ast.walk(x) if isinstance(n, ast.Name) and isinstance(n.ctx, ast.Store)}
        if not (needed - stored) <= {"aligned_cols", "aligned_headers"}:
            raise TranslateError(f"_repr_table: the lines depend on {sorted(needed)}")
        tr = TrB({}, hints={"lines": "list[str]"}, consts=consts)
        env = Env(vars={"aligned_cols": "list[list[str]]", "aligned_headers": "list[list[str]]"})
        lines = tr.block(sl, env, lambda e, j: [" " * j + "lines"], 2)
        return ("/-- `lines` of `_repr_table` right before the footer line is appended (the function returns `'\\n'.join(lines)`), from the\n"
                "    result of `_align_columns`.  The statements of `display._repr_table` after that call, in source order:\n" + quote(sl) + " -/\n"
                "def tableLinesT (aligned_cols aligned_headers : List (List String)) : List String :=\n" + "\n".join(lines))
    attempt("_repr_table/tableLinesT", table_lines)

    return results


PREAMBLE = '''/- GENERATED by harness/tr/reprbody.py from /repo's working tree — do not edit.
   The body lines of repr (display.py: set_repr_rows, _needs_quote, _format_column, _align_columns, slices of _repr_table),
   translated statement by statement.  Equivalence theorems in Serif/Tie/ReprBody.lean. -/
import Serif.Model.Repr

set_option linter.unusedVariables false

namespace Serif.Gen.TRB
open Serif Serif.Repr

/-! fixed vocabulary (not generated from the source): the Python list / string operations the translated statements use -/

/-- `sep.join(l)` -/
def pyJoin (sep : String) (l : List String) : String := sep.intercalate l

/-- `l.insert(i, x)` for `i ≥ 0` -/
def pyInsert {α : Type} (i : Nat) (x : α) (l : List α) : List α := l.take i ++ x :: l.drop i

/-- `list(range(a, b))` -/
def pyRange (a b : Nat) : List Nat := (List.range (b - a)).map (· + a)

/-- `max(l)` of a non-empty sequence of lengths -/
def pyMax (l : List Nat) : Nat := l.foldl max 0

/-- `for v in xs: out.append(f(v))` where computing `f(v)` may raise: the first exception ends the loop -/
def pyForAppend {α : Type} (f : α → Res String) : List α → List String → Res (List String)
  | [], out => .ok out
  | v :: r, out =>
    match f v with
    | .error e => .error e
    | .ok s => pyForAppend f r (out ++ [s])

/-- `[f(x) for x in xs]` where computing `f(x)` may raise: the first exception ends the comprehension -/
def pyMapM {α β : Type} (f : α → Res β) : List α → Res (List β)
  | [] => .ok []
  | x :: r =>
    match f x with
    | .error e => .error e
    | .ok b =>
      match pyMapM f r with
      | .error e => .error e
      | .ok bs => .ok (b :: bs)

/-! the translated definitions -/

'''


def generate(src_dir):
    parts, errors = [], []
    try:
        dsrc = open(os.path.join(src_dir, "display.py")).read()
        results = translate_all(dsrc)
    except Exception as ex:
        results = [("reprbody", None, f"{type(ex).__name__}: {ex}")]
    for what, text, err in results:
        if text is None:
            errors.append((what, err))
            parts.append(f"-- {what}: not translated ({err.split(':')[0]})")
        else:
            parts.append(text)
    return PREAMBLE + "\n\n".join(parts) + "\n\nend Serif.Gen.TRB\n", errors


if __name__ == "__main__":
    import sys
    text, errors = generate(sys.argv[1] if len(sys.argv) > 1 else "/repo/src/serif")
    sys.stdout.write(text)
    for e in errors:
        print("-- ERROR", e, file=sys.stderr)
