"""Plug-in translators (one module per generated file).

Each module `harness/tr/<name>.py` defines
    GEN_FILE : str                      # file name under lean/Serif/Gen/, e.g. "TranslatedTableAssign.lean"
    TIE      : dict                     # {"Serif.Tie.<Mod>": ["Cnn", ...]} -- which checks report the tie module
    generate(src_dir) -> (text, errors) # the Lean text translated from /repo's working tree and the list of
                                        # (what, message) for every piece the translator did not understand
and may use the helpers of harness/py2lean.py (`import py2lean`).  A translator that does not understand the current source
must still return a syntactically valid file (the untranslated definition replaced by a comment): the tie module then
stops building, which the checks report as `translation_tie: unavailable` -- never a violation by itself.
"""
import importlib, os, pkgutil


def plugins():
    here = os.path.dirname(os.path.abspath(__file__))
    out = []
    for m in sorted(pkgutil.iter_modules([here]), key=lambda m: m.name):
        if m.name.startswith("_"):
            continue
        out.append(importlib.import_module("tr." + m.name))
    return out


def ties():
    """{check id: [tie modules]} contributed by the plug-ins"""
    out = {}
    for p in plugins():
        for mod, pids in getattr(p, "TIE", {}).items():
            for pid in pids:
                out.setdefault(pid, []).append(mod)
    return out
