"""Translator plug-in: the storage protocol -- every place of the library that assigns a vector's or table's storage tuple
`_underlying` (src/serif/vector.py, table.py; every other module is scanned too) -> lean/Serif/Gen/TranslatedStorageProto.lean

What is translated.  Every `*.py` of the package is scanned by AST for stores into `_underlying` (`x._underlying = …`, augmented /
annotated assignment, `del`, `object.__setattr__(x, '_underlying', …)`, `setattr`, `x.__dict__['_underlying'] = …`).  Each function
that contains one must be one the translator has a translation for; it is then *sliced*: walked statement by statement, in source
order, keeping

  * the tracker calls `_ALIAS_TRACKER.register / unregister / check_writable(obj, <identity>)` (also through a local alias),
  * the stores into `_underlying`,
  * the bindings of the locals those use (`old_id = id(underlying)`, `underlying = self._underlying`,
    `previous = self.__dict__.get('_underlying')`, …; a local holding a storage tuple is represented by the tuple's identity),
  * calls of other storage-assigning methods on `self` (`self._promote(…)`, `super().__init__(…)`), which become calls of their
    translations,
  * the control flow around all these (`if` / `elif` / `else`, `return`, `raise`, the restore loop, `try … except: … raise`).

Every kept statement becomes one step of a Lean `do` block over the model's state `AState` (Serif/Model/AliasHeap.lean) using the
model's own `register` / `unregister` / `checkWritable` (tied to the tracker's source by Serif/Tie/AliasTracker.lean) and
`setStore` for the assignment.  Parameters of the generated definitions (never re-implemented): the identity of every newly
built tuple (`new_tuple = tuple(…)`: the allocator's choice, possibly an identity seen before), the truth value of a storage tuple
(`if self._underlying:` -> `E.truth`), every condition that is not about storage identity (`E.cond k`), and whether a passed-over
run of statements leaves the method by `raise` / `return` (`E.exits k` / `E.returns k`).

Statements that touch neither storage nor the tracker are passed over (they appear as `…` in the quoted source).  Between an
`unregister` and the `register` that closes the bracket only trivially harmless statements may be passed over (plain attribute
stores, `del self.x`, `self._invalidate_fp()`); anything else there is a TranslateError, as is any store or tracker call the
slicer does not understand.  Comments, docstrings, blank lines, error messages and everything outside the slice play no role.
"""
import ast, os, re

from py2lean import TranslateError, find_func

GEN_FILE = "TranslatedStorageProto.lean"
TIE = {"Serif.Tie.StorageProto": ["C15", "C01"]}

TRACKER = "_ALIAS_TRACKER"
TRACKER_METHODS = ("register", "unregister", "check_writable")
FIELD = "_underlying"

# (class, function) -> Lean name; the functions the translator knows how to slice
KNOWN = {("Vector", "__init__"): "vectorInitT", ("Vector", "_promote"): "vectorPromoteT",
         ("Vector", "__setitem__"): "vectorSetitemT", ("Table", "__init__"): "tableInitT",
         ("Table", "_swap_columns"): "tableSwapColumnsT", ("Table", "__setitem__"): "tableSetitemT"}
# translation order (callees first)
ORDER = [("Vector", "__init__"), ("Vector", "_promote"), ("Vector", "__setitem__"), ("Table", "__init__"),
         ("Table", "_swap_columns"), ("Table", "__setitem__")]
FILE_OF = {"Vector": "vector.py", "Table": "table.py"}

SUPPORT = '''/-- how a method ends when it raises -/
inductive Exc where
  /-- `AliasError` out of `check_writable` -/
  | aliasError
  /-- any other exception -/
  | raised
  deriving DecidableEq, Repr

/-- what the sliced methods ask of things that are not storage identity or the registry -/
structure Env where
  /-- `bool(t)` of the storage tuple with identity `s` (`if self._underlying:`) -/
  truth : Nat → Bool
  /-- the k-th condition of the method that is not about storage identity -/
  cond : Nat → Bool
  /-- whether the k-th passed-over run of statements leaves the method by `raise` -/
  exits : Nat → Bool
  /-- whether the k-th passed-over run of statements leaves the method by `return` -/
  returns : Nat → Bool

/-- `id(obj._underlying)` for a live object (`0` stands in for an object that has no storage yet) -/
def idOf (st : AState) (o : Nat) : Nat := (st.store o).getD 0

/-- a method run: the tracker state afterwards, or the state at the point it raised together with the kind of exception -/
abbrev M := Except (AState × Exc)'''


def _u(n):
    return ast.unparse(n)


def _lean_name(text):
    s = re.sub(r"[^A-Za-z0-9]+", "_", text).strip("_")
    return s or "v"


class _Msg(ast.NodeTransformer):
    def visit_Raise(self, node):
        if isinstance(node.exc, ast.Call):
            node.exc.args, node.exc.keywords = [ast.Constant(value=...)], []
        return node


def _is_doc(s):
    return isinstance(s, ast.Expr) and isinstance(s.value, ast.Constant)


# ---------------------------------------------------------------------------------------------
# recognisers
# ---------------------------------------------------------------------------------------------
def store_target(node):
    """the object expression `x` when `node` is a statement / call that stores into x._underlying, else None"""
    if isinstance(node, (ast.Assign, ast.AugAssign, ast.AnnAssign, ast.Delete)):
        targets = node.targets if isinstance(node, (ast.Assign, ast.Delete)) else [node.target]
        flat = []
        for t in targets:
            flat += list(ast.walk(t)) if isinstance(t, (ast.Tuple, ast.List, ast.Starred)) else [t]
        for t in flat:
            if isinstance(t, ast.Attribute) and t.attr == FIELD:
                return t.value
            if isinstance(t, ast.Subscript) and isinstance(t.slice, ast.Constant) and t.slice.value == FIELD:
                return t.value
    if isinstance(node, ast.Call):
        fn = _u(node.func)
        if fn in ("object.__setattr__", "setattr", "object.__delattr__", "delattr") or fn.endswith(".__setattr__"):
            args = node.args
            if len(args) >= 2 and isinstance(args[1], ast.Constant) and args[1].value == FIELD:
                return args[0]
    return None


def is_store_stmt(s):
    if store_target(s) is not None:
        return True
    return isinstance(s, ast.Expr) and isinstance(s.value, ast.Call) and store_target(s.value) is not None


def scan_sites(tree):
    """[(class or None, function or None, lineno)] of every store into `_underlying`, and of every attribute store whose name
    is not a constant outside the understood pass-through `Table.__setattr__`"""
    sites = []

    def walk(node, cls, fn):
        for ch in ast.iter_child_nodes(node):
            if isinstance(ch, ast.ClassDef):
                walk(ch, ch.name, None)
                continue
            if isinstance(ch, (ast.FunctionDef, ast.AsyncFunctionDef)):
                walk(ch, cls, ch.name if fn is None else fn)
                continue
            if store_target(ch) is not None:
                sites.append((cls, fn, ch.lineno))
            elif isinstance(ch, ast.Call) and _u(ch.func) in ("object.__setattr__", "setattr") and len(ch.args) >= 2 \
                    and not isinstance(ch.args[1], ast.Constant):
                sites.append((cls, fn, -ch.lineno))            # dynamic attribute name
            walk(ch, cls, fn)

    walk(tree, None, None)
    return sites


def check_table_setattr(tree):
    """`Table.__setattr__` passes `_underlying` (and the other instance attributes) straight to `object.__setattr__`: the first
    statement must be `if attr in (<constants, '_underlying' among them>): object.__setattr__(self, attr, value); return`"""
    f = find_func(tree, "__setattr__", "Table")
    a = [x.arg for x in f.args.args]
    body = [s for s in f.body if not _is_doc(s)]
    if len(a) != 3 or not body or not isinstance(body[0], ast.If):
        raise TranslateError("Table.__setattr__: shape")
    t = body[0]
    ok = (isinstance(t.test, ast.Compare) and len(t.test.ops) == 1 and isinstance(t.test.ops[0], ast.In)
          and _u(t.test.left) == a[1] and isinstance(t.test.comparators[0], (ast.Tuple, ast.List, ast.Set))
          and all(isinstance(e, ast.Constant) for e in t.test.comparators[0].elts)
          and FIELD in [e.value for e in t.test.comparators[0].elts]
          and [_u(s) for s in t.body] == [f"object.__setattr__({a[0]}, {a[1]}, {a[2]})", "return"])
    if not ok:
        raise TranslateError("Table.__setattr__: `_underlying` is not passed straight to object.__setattr__")
    for n in ast.walk(f):
        if isinstance(n, ast.Call) and _u(n.func) in ("object.__setattr__", "setattr") and n is not t.body[0].value \
                and not (len(n.args) >= 2 and isinstance(n.args[1], ast.Constant)):
            raise TranslateError("Table.__setattr__: second dynamic attribute store")


def check_row(tree):
    """`Row` never owns storage: `_underlying` is a read-only property, `__init__` neither calls `Vector.__init__` nor the tracker"""
    cls = [n for n in tree.body if isinstance(n, ast.ClassDef) and n.name == "Row"]
    if not cls:
        raise TranslateError("class Row not found")
    props = [f for f in cls[0].body if isinstance(f, ast.FunctionDef) and f.name == FIELD]
    if len(props) != 1 or [_u(d) for d in props[0].decorator_list] != ["property"]:
        raise TranslateError("Row._underlying is not a plain read-only property")
    init = [f for f in cls[0].body if isinstance(f, ast.FunctionDef) and f.name == "__init__"]
    if len(init) != 1:
        raise TranslateError("Row.__init__")
    for n in ast.walk(cls[0]):
        if isinstance(n, ast.Name) and n.id == TRACKER:
            raise TranslateError("Row uses the alias tracker")
    for n in ast.walk(init[0]):
        if isinstance(n, ast.Call) and (_u(n.func).startswith("super()") or _u(n.func).endswith(".__init__")):
            raise TranslateError("Row.__init__ calls a parent initialiser")


# ---------------------------------------------------------------------------------------------
# the slicer
# ---------------------------------------------------------------------------------------------
class Slicer:
    def __init__(self, f, cls, lean, known):
        self.f, self.cls, self.lean, self.known = f, cls, lean, known     # known: python method name -> (lean name, Slicer)
        self.self_name = f.args.args[0].arg
        self.objs = {self.self_name}         # names denoting objects
        self.tup = set()                     # locals holding a storage tuple (represented by its identity)
        self.ids = set()                     # locals holding an identity
        self.opts = set()                    # locals holding `tuple | None`
        self.aliases = {TRACKER}
        self.allocs = []                     # parameters: identities of tuples built / supplied from outside
        self.calls = []                      # (prefix, callee slicer)
        self.extra_params = []               # other parameters (text)
        self.n_cond = self.n_exit = 0
        self.open_bracket = False
        self.loop_defs = []
        self.snapshots = {}                  # local -> (iter text, [component kinds])
        self.doc = []
        self.declared = [set()]
        self.body_lines = None

    # ---- classification -------------------------------------------------------------------
    def tracker_call(self, s):
        if isinstance(s, ast.Expr) and isinstance(s.value, ast.Call) and isinstance(s.value.func, ast.Attribute) \
                and isinstance(s.value.func.value, ast.Name) and s.value.func.value.id in self.aliases:
            return s.value
        return None

    def self_call(self, s):
        """`self.m(…)` / `super().m(…)` as a statement, m a storage-assigning method -> python name"""
        if isinstance(s, ast.Expr) and isinstance(s.value, ast.Call) and isinstance(s.value.func, ast.Attribute):
            base, m = s.value.func.value, s.value.func.attr
            if (isinstance(base, ast.Name) and base.id == self.self_name) or _u(base) == "super()":
                via_super = _u(base) == "super()"
                key = self.resolve(m, via_super)
                if key:
                    return key
        return None

    def resolve(self, m, via_super):
        # a Table method called through super() is Vector's; through self it is the class's own if it has one
        order = ["Vector"] if (via_super or self.cls == "Vector") else [self.cls, "Vector"]
        for c in order:
            if (c, m) in KNOWN:
                return (c, m)
        return None

    def mentions_events(self, node):
        for n in ast.walk(node):
            if isinstance(n, ast.stmt) and (is_store_stmt(n) or self.tracker_call(n) is not None or self.self_call(n)):
                return True
            if isinstance(n, ast.Name) and n.id in self.aliases and not isinstance(n.ctx, ast.Store):
                return True
        return False

    def needed_names(self, f):
        """locals used by the events, closed under the bindings that define them"""
        need = set()
        changed = True
        while changed:
            changed = False
            for n in ast.walk(f):
                src = []
                if isinstance(n, ast.stmt):
                    c = self.tracker_call(n)
                    if c is not None:
                        src += c.args
                    if is_store_stmt(n):
                        src.append(n.value if isinstance(n, (ast.Assign, ast.AnnAssign, ast.AugAssign)) else n.value.args[-1] if isinstance(n, ast.Expr) else n)
                    if isinstance(n, ast.Assign) and len(n.targets) == 1 and isinstance(n.targets[0], ast.Name) and n.targets[0].id in need \
                            and self.storage_read(n.value):
                        src.append(n.value)
                    if isinstance(n, ast.If) and self.storage_test(n.test):
                        src.append(n.test)
                    if isinstance(n, ast.For) and any(self.mentions_events(x) for x in n.body):
                        src.append(n.iter)
                        src.append(n.target)
                for e in src:
                    if e is None:
                        continue
                    for x in ast.walk(e):
                        if isinstance(x, ast.Name) and x.id not in need and x.id not in ("id", "object", "tuple") and x.id not in self.aliases:
                            need.add(x.id)
                            changed = True
        return need

    def storage_read(self, e):
        """is `e` an expression the slicer reads as storage identity (not a fresh tuple)?"""
        t = _u(e)
        return bool(re.fullmatch(r"id\(\w+(\._underlying)?\)|\w+\._underlying|\w+\.__dict__\.get\('_underlying'\)", t))

    def storage_test(self, e):
        t = _u(e)
        return bool(re.fullmatch(r"(not )?\w+\._underlying|\w+\._underlying is( not)? \w+|\w+ is( not)? None", t)) and \
            (not re.fullmatch(r"\w+ is( not)? None", t) or t.split()[0] in self.opts)

    # ---- expressions -----------------------------------------------------------------------
    def ident(self, e):
        """Lean text of an identity-valued expression"""
        t = _u(e)
        if isinstance(e, ast.Name):
            if e.id in self.ids or e.id in self.tup:
                return e.id
            raise TranslateError(f"{self.lean}: `{t}` is not a known identity")
        m = re.fullmatch(r"id\((\w+)\)", t)
        if m and m.group(1) in self.tup:
            return m.group(1)
        m = re.fullmatch(r"id\((\w+)\._underlying\)", t)
        if m and m.group(1) in self.objs:
            return f"(idOf st {m.group(1)})"
        raise TranslateError(f"{self.lean}: identity expression `{t}`")

    def obj(self, e):
        if isinstance(e, ast.Name) and e.id in self.objs:
            return e.id
        raise TranslateError(f"{self.lean}: `{_u(e)}` is not a known object")

    def alloc(self, text):
        base = _lean_name(text if re.fullmatch(r"\w+", text) else re.sub(r"\bself\.", "", text))
        n = sum(1 for a in self.allocs if a == base or a.startswith(base + "_"))
        name = base if n == 0 else f"{base}_{n}"
        self.allocs.append(name)
        return name

    def tuple_value(self, e):
        """Lean text (an identity) for the right-hand side of a store into `_underlying`"""
        if isinstance(e, ast.Name):
            if e.id in self.tup:
                return e.id
            if e.id in self.args and e.id not in self.rebound:
                self.tup.add(e.id)
                self.allocs.append(e.id)                               # an argument of the method: supplied by the caller
                return e.id
            raise TranslateError(f"{self.lean}: `{e.id}` assigned to _underlying is not a known tuple")
        return self.new_tuple(e, _u(e))

    def new_tuple(self, e, label):
        """a tuple that comes from outside the slice: a parameter"""
        t = _u(e)
        if isinstance(e, ast.Call) and _u(e.func) == "tuple":
            return self.alloc(label)                                  # a tuple built here (possibly an existing one, e.g. `()`)
        if FIELD in t or "id(" in t:
            raise TranslateError(f"{self.lean}: tuple expression `{t[:50]}`")
        if isinstance(e, (ast.Attribute, ast.Name)):
            return self.alloc(label)                                  # supplied from outside (`self._precomputed_data`, an argument)
        raise TranslateError(f"{self.lean}: tuple expression `{t[:50]}`")

    # ---- emission --------------------------------------------------------------------------
    def bind(self, name, value, pad):
        if name == "st":
            return pad + f"st := {value}"
        for sc in self.declared:
            if name in sc:
                return pad + f"{name} := {value}"
        if self.nbind.get(name, 0) <= 1:
            return pad + f"let {name} := {value}"
        self.declared[-1].add(name)
        return pad + f"let mut {name} := {value}"

    def harmless(self, s):
        if isinstance(s, (ast.Assign, ast.AnnAssign)):
            targets = s.targets if isinstance(s, ast.Assign) else [s.target]
            return all(isinstance(t, ast.Attribute) and isinstance(t.value, ast.Name) and t.attr != FIELD for t in targets) \
                and (s.value is None or isinstance(s.value, (ast.Name, ast.Constant)))
        if isinstance(s, ast.Delete):
            return all(isinstance(t, ast.Attribute) and isinstance(t.value, ast.Name) and t.attr != FIELD for t in s.targets)
        if isinstance(s, ast.Expr) and isinstance(s.value, ast.Call):
            return _u(s.value) == f"{self.self_name}._invalidate_fp()"
        if isinstance(s, ast.If):
            return not any(isinstance(n, ast.Call) for n in ast.walk(s.test)) and all(self.harmless(x) for x in s.body + s.orelse)
        return isinstance(s, ast.Pass) or _is_doc(s)

    def skipped(self, run, pad, out, doc, dpad):
        """a maximal run of passed-over statements"""
        if not run:
            return
        if self.open_bracket:
            for s in run:
                if not self.harmless(s):
                    raise TranslateError(f"{self.lean}: `{_u(s)[:60]}` between unregister and register")
        has_raise = has_ret = False
        for s in run:
            for n in ast.walk(s):
                if isinstance(n, (ast.FunctionDef, ast.Lambda)):
                    continue
                has_raise |= isinstance(n, ast.Raise)
                has_ret |= isinstance(n, ast.Return)
        note = "…"
        if has_raise or has_ret:
            k = self.n_exit
            self.n_exit += 1
            if has_raise:
                out.append(pad + f"if E.exits {k} then throw (st, Exc.raised)")
            if has_ret:
                out.append(pad + f"if E.returns {k} then return st")
            note = "…   (may " + " / ".join((["raise"] if has_raise else []) + (["return"] if has_ret else [])) + f": exit {k})"
        doc.append(dpad + note)

    def relevant(self, s):
        if is_store_stmt(s) or self.tracker_call(s) is not None or self.self_call(s):
            return True
        if isinstance(s, ast.Assign) and len(s.targets) == 1 and isinstance(s.targets[0], ast.Name):
            n = s.targets[0].id
            if isinstance(s.value, ast.Name) and s.value.id in self.aliases:
                return True
            if n in self.need:
                return True
            return False
        if isinstance(s, (ast.If, ast.For, ast.While, ast.Try, ast.With)):
            return self.mentions_events(s) or any(
                isinstance(x, ast.Assign) and len(x.targets) == 1 and isinstance(x.targets[0], ast.Name) and x.targets[0].id in self.need
                for x in ast.walk(s))
        if isinstance(s, (ast.Return, ast.Raise)):
            return True
        # anything else must not talk about the tracker
        for n in ast.walk(s):
            if isinstance(n, ast.Name) and n.id in self.aliases:
                raise TranslateError(f"{self.lean}: tracker used in `{_u(s)[:60]}`")
        return False

    def block(self, stmts, ind, dind, doc, top=False):
        pad, dpad = " " * ind, " " * dind
        out, run = [], []
        stmts = [s for s in stmts if not _is_doc(s) and not isinstance(s, (ast.Import, ast.ImportFrom))]
        for i, s in enumerate(stmts):
            if not self.relevant(s):
                run.append(s)
                continue
            self.skipped(run, pad, out, doc, dpad)
            run = []
            self.stmt(s, ind, dind, out, doc)
        self.skipped(run, pad, out, doc, dpad)
        return out

    def cond(self, test):
        t = _u(test)
        m = re.fullmatch(r"(not )?(\w+)\._underlying", t)
        if m and m.group(2) in self.objs:
            c = f"E.truth (idOf st {m.group(2)})"
            return ("!" + c if m.group(1) else c), None
        m = re.fullmatch(r"(\w+)\._underlying is( not)? (\w+)", t)
        if m and m.group(1) in self.objs and m.group(3) in self.tup:
            return f"idOf st {m.group(1)} {'!=' if m.group(2) else '=='} {m.group(3)}", None
        m = re.fullmatch(r"(\w+) is( not)? None", t)
        if m and m.group(1) in self.opts:
            return None, (m.group(1), bool(m.group(2)))
        if FIELD in t and re.search(r"\bis\b|\bid\(", t):
            raise TranslateError(f"{self.lean}: condition `{t[:60]}`")
        for n in ast.walk(test):
            if isinstance(n, ast.Name) and (n.id in self.ids or n.id in self.tup or n.id in self.opts or n.id in self.aliases):
                raise TranslateError(f"{self.lean}: condition `{t[:60]}` uses a storage local")
        k = self.n_cond
        self.n_cond += 1
        return f"E.cond {k}", None

    def stmt(self, s, ind, dind, out, doc):
        pad, dpad = " " * ind, " " * dind
        text = _u(_Msg().visit(ast.parse(_u(s))))
        # --- tracker alias ---------------------------------------------------------------------
        if isinstance(s, ast.Assign) and isinstance(s.value, ast.Name) and s.value.id in self.aliases \
                and len(s.targets) == 1 and isinstance(s.targets[0], ast.Name):
            self.aliases.add(s.targets[0].id)
            doc.append(dpad + text)
            return
        # --- tracker call ----------------------------------------------------------------------
        c = self.tracker_call(s)
        if c is not None:
            meth = c.func.attr
            if meth not in TRACKER_METHODS or len(c.args) != 2 or c.keywords:
                raise TranslateError(f"{self.lean}: tracker call `{text[:60]}`")
            o, i = self.obj(c.args[0]), self.ident(c.args[1])
            doc.append(dpad + text)
            if meth == "unregister":
                out.append(pad + f"st := st.unregister {o} {i}")
                self.open_bracket = True
            elif meth == "register":
                out.append(pad + f"st := st.register {o} {i}")
                self.open_bracket = False
            else:
                if self.open_bracket:
                    raise TranslateError(f"{self.lean}: check_writable inside a bracket")
                out.append(pad + f"let r := st.checkWritable {i}")
                out.append(pad + "st := r.1")
                out.append(pad + "if !r.2 then throw (st, Exc.aliasError)")
            return
        # --- store into _underlying ------------------------------------------------------------
        if is_store_stmt(s):
            if isinstance(s, ast.Assign) and len(s.targets) == 1 and isinstance(s.targets[0], ast.Attribute):
                o, v = self.obj(s.targets[0].value), self.tuple_value(s.value)
            elif isinstance(s, ast.Expr) and _u(s.value.func) == "object.__setattr__" and len(s.value.args) == 3:
                o, v = self.obj(s.value.args[0]), self.tuple_value(s.value.args[2])
            else:
                raise TranslateError(f"{self.lean}: store `{text[:60]}`")
            doc.append(dpad + text)
            out.append(pad + f"st := st.setStore {o} (some {v})")
            return
        # --- call of another storage-assigning method on self -------------------------------------
        key = self.self_call(s)
        if key:
            if self.open_bracket:
                raise TranslateError(f"{self.lean}: `{text[:40]}` inside a bracket")
            if key not in self.known:
                raise TranslateError(f"{self.lean}: callee {key[0]}.{key[1]} is not translated")
            callee = self.known[key]
            prefix = _lean_name(key[1])
            n = sum(1 for p, _ in self.calls if p.startswith(prefix))
            prefix = prefix if n == 0 else f"{prefix}{n}"
            self.calls.append((prefix, callee))
            doc.append(dpad + text)
            out.append(pad + f"st ← {callee.lean} {callee.call_args(prefix, self.self_name)}")
            return
        # --- bindings of storage locals --------------------------------------------------------
        if isinstance(s, ast.Assign) and len(s.targets) == 1 and isinstance(s.targets[0], ast.Name):
            n, v, t = s.targets[0].id, s.value, _u(s.value)
            doc.append(dpad + text)
            m = re.fullmatch(r"id\((\w+)\._underlying\)", t)
            if m and m.group(1) in self.objs:
                self.ids.add(n)
                out.append(self.bind(n, f"idOf st {m.group(1)}", pad))
                return
            m = re.fullmatch(r"id\((\w+)\)", t)
            if m and m.group(1) in self.tup:
                self.ids.add(n)
                out.append(self.bind(n, m.group(1), pad))
                return
            m = re.fullmatch(r"(\w+)\._underlying", t)
            if m and m.group(1) in self.objs:
                self.tup.add(n)
                out.append(self.bind(n, f"idOf st {m.group(1)}", pad))
                return
            m = re.fullmatch(r"(\w+)\.__dict__\.get\('_underlying'\)", t)
            if m and m.group(1) in self.objs:
                self.opts.add(n)
                out.append(self.bind(n, f"st.store {m.group(1)}", pad))
                return
            snap = self.snapshot(v)
            if snap:
                self.snapshots[n] = snap
                self.extra_params.append("(cols : List Nat)")
                out.append(self.bind(n, "cols.map (fun col => (col, idOf st col))", pad))
                return
            if FIELD in t and not (isinstance(v, ast.Call) and _u(v.func) == "tuple"):
                raise TranslateError(f"{self.lean}: binding `{text[:60]}`")
            a = self.new_tuple(v, n)
            self.tup.add(n)
            if a != n:
                out.append(self.bind(n, a, pad))
            doc[-1] += f"        [parameter {a}]"
            return
        # --- control flow ----------------------------------------------------------------------
        if isinstance(s, ast.Return):
            if s.value is not None and (FIELD in _u(s.value)):
                raise TranslateError(f"{self.lean}: `{text[:40]}`")
            doc.append(dpad + "return" + ("" if s.value is None else " …"))
            out.append(pad + "return st")
            return
        if isinstance(s, ast.Raise):
            if self.open_bracket:
                raise TranslateError(f"{self.lean}: raise inside a bracket")
            doc.append(dpad + text)
            out.append(pad + "throw (st, Exc.raised)")
            return
        if isinstance(s, ast.If):
            c, opt = self.cond(s.test)
            doc.append(dpad + "if " + _u(s.test) + ":" + (f"        [{c}]" if c and c.startswith("E.cond") else ""))
            before = self.open_bracket
            if opt:
                name, is_not = opt
                some_b, none_b = (s.body, s.orelse) if is_not else (s.orelse, s.body)
                out.append(pad + f"match {name} with")
                out.append(pad + f"| some {name} =>")
                self.tup.add(name)
                self.declared.append(set())
                b = self.block(some_b, ind + 2, dind + 4 if is_not else dind + 4, doc) or [pad + "  pure ()"]
                self.declared.pop()
                self.tup.discard(name)
                out += b
                o1 = self.open_bracket
                self.open_bracket = before
                out.append(pad + "| none =>")
                if s.orelse:
                    doc.append(dpad + "else:")
                self.declared.append(set())
                b = self.block(none_b, ind + 2, dind + 4, doc) or [pad + "  pure ()"]
                self.declared.pop()
                out += b
                self.open_bracket = self.open_bracket or o1
                return
            out.append(pad + f"if {c} then")
            self.declared.append(set())
            b = self.block(s.body, ind + 2, dind + 4, doc) or [pad + "  pure ()"]
            self.declared.pop()
            out += b
            o1 = self.open_bracket
            self.open_bracket = before
            if s.orelse:
                chain = len(s.orelse) == 1 and isinstance(s.orelse[0], ast.If) and self.relevant(s.orelse[0])
                doc.append(dpad + "else:")
                out.append(pad + "else")
                self.declared.append(set())
                b = self.block(s.orelse, ind + 2, dind + 4, doc) or [pad + "  pure ()"]
                self.declared.pop()
                out += b
            self.open_bracket = self.open_bracket or o1          # a branch that leaves a bracket open leaves it open
            return
        if isinstance(s, ast.For):
            return self.for_loop(s, ind, dind, out, doc)
        if isinstance(s, ast.Try):
            return self.try_stmt(s, ind, dind, out, doc)
        raise TranslateError(f"{self.lean}: statement `{text[:60]}`")

    # ---- the snapshot / restore loop / try of Table.__setitem__ -----------------------------------
    def snapshot(self, v):
        """`[(c, c._underlying, c.x, …) for c in self._underlying]` -> component kinds"""
        if not (isinstance(v, ast.ListComp) and len(v.generators) == 1 and not v.generators[0].ifs
                and isinstance(v.generators[0].target, ast.Name) and _u(v.generators[0].iter) == f"{self.self_name}._underlying"
                and isinstance(v.elt, ast.Tuple)):
            return None
        c = v.generators[0].target.id
        kinds = []
        for e in v.elt.elts:
            t = _u(e)
            kinds.append("obj" if t == c else "tuple" if t == f"{c}._underlying" else "other" if re.fullmatch(rf"{c}\.\w+", t) else None)
        if None in kinds or kinds[:2] != ["obj", "tuple"] or kinds.count("obj") != 1 or kinds.count("tuple") != 1:
            raise TranslateError(f"{self.lean}: snapshot `{_u(v)[:60]}`")
        return kinds

    def for_loop(self, s, ind, dind, out, doc):
        pad, dpad = " " * ind, " " * dind
        it = _u(s.iter)
        if it not in self.snapshots or s.orelse or not isinstance(s.target, ast.Tuple) \
                or not all(isinstance(x, ast.Name) for x in s.target.elts) or len(s.target.elts) != len(self.snapshots[it]):
            raise TranslateError(f"{self.lean}: loop `for {_u(s.target)} in {it}`")
        if self.open_bracket:
            raise TranslateError(f"{self.lean}: loop inside a bracket")
        names = [x.id for x in s.target.elts]
        o, t = names[0], names[1]
        doc.append(dpad + f"for {_u(s.target)} in {it}:")
        self.objs.add(o)
        self.tup.add(t)
        self.declared.append({"st"})
        n_exit, n_alloc, n_calls, n_cond = self.n_exit, len(self.allocs), len(self.calls), self.n_cond
        body = self.block(s.body, 4, dind + 4, doc)
        self.declared.pop()
        if len(self.allocs) != n_alloc or len(self.calls) != n_calls or self.n_cond != n_cond:
            raise TranslateError(f"{self.lean}: the loop body builds a tuple, calls a storage-assigning method or tests something that is not storage identity")
        if self.n_exit != n_exit or self.open_bracket or any("throw" in ln or "return" in ln for ln in body):
            raise TranslateError(f"{self.lean}: the loop body can leave the loop or leaves a bracket open")
        self.objs.discard(o)
        self.tup.discard(t)
        lname = self.lean[:-1] + "LoopT"
        self.loop_defs.append(
            f"/-- the loop `for {_u(s.target)} in {it}` of `{self.cls}.{self.f.name}` (body quoted there), one iteration per element -/\n"
            f"def {lname} (E : Env) : List (Nat × Nat) → AState → M AState\n"
            f"  | [], st => pure st\n"
            f"  | ({o}, {t}) :: rest, st0 => do\n"
            f"    let mut st := st0\n" + "\n".join(body) + f"\n    {lname} E rest st")
        out.append(pad + f"st ← {lname} E {it} st")

    def try_stmt(self, s, ind, dind, out, doc):
        pad, dpad = " " * ind, " " * dind
        if s.orelse or s.finalbody or len(s.handlers) != 1 or len(s.body) != 1:
            raise TranslateError(f"{self.lean}: try statement")
        call = s.body[0]
        if not (isinstance(call, ast.Expr) and isinstance(call.value, ast.Call) and isinstance(call.value.func, ast.Attribute)
                and _u(call.value.func.value) == self.self_name) or self.mentions_events(call):
            raise TranslateError(f"{self.lean}: try body `{_u(call)[:50]}`")
        h = s.handlers[0]
        if h.type is not None and _u(h.type) not in ("Exception", "BaseException"):
            raise TranslateError(f"{self.lean}: handler catches only {_u(h.type)}")
        hb = [x for x in h.body if not _is_doc(x) and not isinstance(x, (ast.Import, ast.ImportFrom))]
        if not hb or not (isinstance(hb[-1], ast.Raise) and hb[-1].exc is None):
            raise TranslateError(f"{self.lean}: handler does not end with a bare raise")
        m = _lean_name(call.value.func.attr)
        self.extra_params.append(f"({m} : AState → M AState)")
        doc.append(dpad + "try:")
        doc.append(dpad + "    " + _u(call) + f"        [parameter {m}: the tracker state after the call, or at the point it raised]")
        doc.append(dpad + "except " + (_u(h.type) if h.type else "") + ":")
        out.append(pad + f"match {m} st with")
        out.append(pad + "| .ok st' => st := st'")
        out.append(pad + "| .error (st', e) =>")
        out.append(pad + "  st := st'")
        self.declared.append(set())
        out += self.block(hb[:-1], ind + 2, dind + 4, doc)
        self.declared.pop()
        doc.append(dpad + "    raise")
        out.append(pad + "  throw (st, e)")

    # ---- whole function ------------------------------------------------------------------------------
    def run(self):
        self.need = set()
        for n in ast.walk(self.f):                       # local aliases of the tracker (`_alias = _ALIAS_TRACKER`)
            if isinstance(n, ast.Assign) and isinstance(n.value, ast.Name) and n.value.id == TRACKER:
                for t in n.targets:
                    if not isinstance(t, ast.Name):
                        raise TranslateError(f"{self.lean}: tracker stored in `{_u(t)}`")
                    self.aliases.add(t.id)
        self.args = {a.arg for a in self.f.args.args[1:]}
        self.nbind = {}
        for n in ast.walk(self.f):
            if isinstance(n, ast.Assign):
                for t in n.targets:
                    if isinstance(t, ast.Name):
                        self.nbind[t.id] = self.nbind.get(t.id, 0) + 1
        self.rebound = {t.id for n in ast.walk(self.f) if isinstance(n, (ast.Assign, ast.AugAssign, ast.AnnAssign, ast.For))
                        for t0 in (n.targets if isinstance(n, ast.Assign) else [n.target]) for t in ast.walk(t0) if isinstance(t, ast.Name)}
        self.need = self.needed_names(self.f)
        doc = []
        self.declared = [{"st"}]
        lines = self.block(self.f.body, 2, 6, doc, top=True)
        if self.open_bracket:
            raise TranslateError(f"{self.lean}: a path ends between unregister and register")
        self.body_lines = lines
        self.doc = doc
        return self

    def params(self, prefix=""):
        """[(name, type)] after `st0` and the object"""
        ps = [((prefix + "_" if prefix else "") + a, "Nat") for a in self.allocs]
        for p, callee in self.calls:
            q = (prefix + "_" if prefix else "") + p
            ps.append((f"E_{q}", "Env"))
            ps += callee.params(q)
        return ps

    def call_args(self, prefix, self_name):
        return " ".join([f"E_{prefix}", "st", self_name] + [n for n, _ in self.params(prefix)])

    def text(self):
        ps = " ".join(f"({n} : {t})" for n, t in self.params())
        extra = " ".join(self.extra_params)
        sig = f"def {self.lean} (E : Env) {extra + ' ' if extra else ''}(st0 : AState) ({self.self_name} : Nat){' ' + ps if ps else ''} : M AState := do\n"
        docs = (f"/-- translated from `{self.cls}.{self.f.name}`: the statements that touch `_underlying` or the alias tracker, in source order\n"
                f"    (`…` = a run of statements that touch neither):\n" + "\n".join(self.doc).replace("-/", "- /").replace("/-", "/ -") + " -/\n")
        return "\n\n".join(self.loop_defs + [docs + sig + "  let mut st := st0\n" + "\n".join(self.body_lines)
                                              + ("" if self.body_lines and self.body_lines[-1] == "  return st" else "\n  return st")])


# ---------------------------------------------------------------------------------------------
def generate(src_dir):
    parts, errors = [], []
    trees = {}
    for fn in sorted(os.listdir(src_dir)):
        if fn.endswith(".py"):
            try:
                trees[fn] = ast.parse(open(os.path.join(src_dir, fn)).read())
            except SyntaxError as ex:
                errors.append((fn, f"SyntaxError: {ex}"))
    # ---- 1. every store into `_underlying`, anywhere in the package
    sites, unknown = [], []
    for fn, tree in trees.items():
        for cls, f, line in scan_sites(tree):
            if line < 0:
                if (fn, cls, f) != ("table.py", "Table", "__setattr__"):
                    unknown.append(f"{fn}:{-line} attribute store with a computed name in {cls}.{f}")
                continue
            sites.append((fn, cls, f))
            if (cls, f) not in KNOWN or FILE_OF.get(cls) != fn:
                unknown.append(f"{fn}:{line} store into _underlying in {cls}.{f}")
    # ---- 2. the functions
    known, ok = {}, True
    for key in ORDER:
        cls, name = key
        lean = KNOWN[key]
        try:
            tree = trees.get(FILE_OF[cls])
            if tree is None:
                raise TranslateError(FILE_OF[cls] + " missing")
            f = find_func(tree, name, cls)
            known[key] = Slicer(f, cls, lean, known).run()
            parts.append(known[key].text())
        except Exception as ex:
            ok = False
            errors.append((lean, f"{type(ex).__name__}: {ex}"))
            parts.append(f"-- {lean}: not translated ({type(ex).__name__})")
    # ---- 3. the places that must NOT assign
    facts = []
    for what, fn in (("Table.__setattr__", check_table_setattr), ("Row", check_row)):
        try:
            fn(trees["table.py"])
            facts.append(what)
        except Exception as ex:
            ok = False
            errors.append((what, f"{type(ex).__name__}: {ex}"))
    for u in unknown:
        ok = False
        errors.append(("sites", u))
    site_names = sorted({f"{c}.{f}" for _, c, f in sites})
    if ok:
        parts.append("/-- every function of the package that stores into `_underlying` (found by AST over every module); each is translated above.\n"
                     "    Also checked by shape: `Table.__setattr__` hands `_underlying` straight to `object.__setattr__`; `Row._underlying` is a\n"
                     "    read-only property and `Row.__init__` calls neither `Vector.__init__` nor the tracker (a Row never owns storage);\n"
                     "    `Vector.copy`, `__copy__`, `__deepcopy__` contain no store (they build a new Vector through `__init__`). -/\n"
                     "def assignmentSites : List String := [" + ", ".join(f'"{s}"' for s in site_names) + "]")
    else:
        parts.append("-- assignmentSites: not translated (a store into _underlying is not covered, see the errors)")
    text = ("/- GENERATED by harness/tr/storageproto.py from /repo's working tree — do not edit.\n"
            "   The storage protocol: every function that stores into `_underlying`, sliced to the statements that touch storage identity or\n"
            "   the alias tracker and translated statement by statement; theorems in Serif/Tie/StorageProto.lean. -/\n"
            "import Serif.Model.AliasHeap\n\nset_option linter.unusedVariables false\n\nnamespace Serif.Gen.SP\nopen Serif Serif.AState\n\n"
            + SUPPORT + "\n\n" + "\n\n".join(parts) + "\n\nend Serif.Gen.SP\n")
    return text, errors
