"""Translator plug-in: the footers, the column selection and the header rows of repr (src/serif/display.py).

Translated statement by statement (a small typed translator for the string/list fragment these functions are written in):
    _footer                 -> footerT
    _compute_headers        -> computeHeadersT
    _is_structural_change   -> isStructuralChangeT
    _header_rows            -> headerRowsT
    _repr_table             -> three *slices* of the function body (the statements that the value depends on, in source order):
                               colIndicesT        (`truncated`, `col_indices`)
                               tableShowTypesT    (`header_rows, show_types_in_header` after the `...` column was inserted)
                               tableFooterT       (the line appended last: the footer; or the whole output of a table without columns)
    _repr_vector            -> reprVectorT (the whole function: the list of lines; padding is a parameter)
    _printr                 -> printrT (the dispatch on `len(pv.shape)`)
    DataType.__repr__ (typing.py) -> dataTypeReprT
    Vector.shape (vector.py)      -> vectorShapeT

Parameters of the generated definitions (never re-implemented here): `kind.__name__` (`kindName`), `str.replace`, `str.lower`, `repr`,
`str.ljust` / `str.rjust`, `_needs_quote`, `_sanitize_user_name`, `_format_column`, and what the objects report about themselves
(`pv.shape`, `len(pv)`, `pv._dtype`, `col._name`, `col._dtype`).

Every statement outside the understood fragment raises TranslateError: the definition is then replaced by a comment.
Theorems: lean/Serif/Tie/ReprFooter.lean.
"""
import ast, os, copy
from py2lean import TranslateError, find_func

GEN_FILE = "TranslatedReprFooter.lean"
TIE = {"Serif.Tie.ReprFooter": ["C20"]}


# ---------------------------------------------------------------------------------------------------------------------
# small helpers
# ---------------------------------------------------------------------------------------------------------------------
def lstr(s):
    out = ['"']
    for ch in s:
        if ch == '"':
            out.append('\\"')
        elif ch == "\\":
            out.append("\\\\")
        elif ch == "\n":
            out.append("\\n")
        elif ch == "\t":
            out.append("\\t")
        else:
            out.append(ch)
    out.append('"')
    return "".join(out)


def u(node):
    return ast.unparse(node)


def strip_doc(stmts):
    return [s for s in stmts if not (isinstance(s, ast.Expr) and isinstance(s.value, ast.Constant))]


LEAN_TYPES = {"nat": "Nat", "str": "String", "bool": "Bool", "list[str]": "List String", "list[nat]": "List Nat",
              "list[list[str]]": "List (List String)", "set[str]": "List String", "set[nat]": "List Nat",
              "opt[nat]": "Option Nat", "opt[str]": "Option String", "opt[dtype]": "Option DType",
              "opt[list[str]]": "Option (List String)", "list[col]": "List γ", "col": "γ", "name": "ν", "list[name]": "List ν"}

DEFAULTS = {"str": '""', "nat": "0", "list[str]": "[]"}
KINDS = {"bool", "int", "float", "complex", "str", "bytes", "date", "datetime", "list", "dict", "tuple", "object"}


class Env:
    def __init__(self, vars=None, atoms=None, facts=None, defs=None):
        self.vars = dict(vars or {})        # python local -> type
        self.atoms = dict(atoms or {})      # ast.unparse(expression) -> (lean text, type)
        self.facts = set(facts or ())       # (x, y): the source text x is known to be >= the source text y here
        self.defs = dict(defs or {})        # bool local -> the expression it was assigned

    def copy(self):
        return Env(self.vars, self.atoms, self.facts, self.defs)


class Exit(Exception):
    pass


def mutated(stmts):
    """names assigned or mutated by a statement list, in order of first appearance"""
    out = []

    def add(n):
        if n not in out:
            out.append(n)
    for s in stmts:
        if isinstance(s, ast.Assign):
            for t in s.targets:
                for n in ([t] if isinstance(t, ast.Name) else t.elts if isinstance(t, ast.Tuple) else []):
                    if isinstance(n, ast.Name):
                        add(n.id)
        elif isinstance(s, ast.AugAssign) and isinstance(s.target, ast.Name):
            add(s.target.id)
        elif isinstance(s, ast.Expr) and isinstance(s.value, ast.Call) and isinstance(s.value.func, ast.Attribute) \
                and isinstance(s.value.func.value, ast.Name) and s.value.func.attr in ("append", "add", "insert", "extend"):
            add(s.value.func.value.id)
        elif isinstance(s, ast.If):
            for n in mutated(s.body) + mutated(s.orelse):
                add(n)
        elif isinstance(s, ast.For):
            for n in mutated(s.body):
                add(n)
    return out


def definitely(stmts, v):
    """is `v` assigned on every path through the statement list that reaches its end"""
    for s in stmts:
        if isinstance(s, ast.Assign) and any(isinstance(t, ast.Name) and t.id == v for t in s.targets):
            return True
        if isinstance(s, ast.If) and s.orelse and definitely(s.body, v) and definitely(s.orelse, v):
            return True
    return False


def exits(stmts):
    """does every path through the list end in return / continue"""
    for s in stmts:
        if isinstance(s, (ast.Return, ast.Continue)):
            return True
        if isinstance(s, ast.If) and s.orelse and exits(s.body) and exits(s.orelse):
            return True
    return False


def may_exit(stmts):
    return any(isinstance(n, (ast.Return, ast.Continue)) for s in stmts for n in ast.walk(s))


def names_used(node):
    return {n.id for n in ast.walk(node) if isinstance(n, ast.Name)}


# ---------------------------------------------------------------------------------------------------------------------
# the translator
# ---------------------------------------------------------------------------------------------------------------------
class Tr:
    """funcs: python function name -> dict(lean=, pre=[fixed leading Lean arguments], args=[per python parameter: "obj" (an object seen
    through its atoms <name>.shape / len(<name>) / <name>._dtype) or a type], defaults=[ast], ret=type or tuple of types)"""

    def __init__(self, funcs, hints=None, consts=None):
        self.funcs = funcs
        self.hints = hints or {}
        self.consts = consts or {}

    # ---- expressions -------------------------------------------------------------------------------------------
    def truthy(self, node, env):
        """a Python expression used as a condition -> Lean Bool"""
        if isinstance(node, ast.UnaryOp) and isinstance(node.op, ast.Not):
            if self.is_opt(node.operand, env):
                return self.opt_bool(node.operand, env, "false", "true")
            if not isinstance(node.operand, (ast.BoolOp, ast.UnaryOp)):
                e, t = self.ex(node.operand, env)
                if t == "str":
                    return f"({e} == \"\")"
                if t.startswith("list["):
                    return f"{e}.isEmpty"
                if t == "bool":
                    return f"(!{e})"
            return f"(!{self.truthy(node.operand, env)})"
        if isinstance(node, ast.BoolOp):
            return self.boolop(node, env)
        if self.is_opt(node, env):
            return self.opt_bool(node, env, "true", "false")
        e, t = self.ex(node, env)
        if t == "bool":
            return e
        if t == "str":
            return f"({e} != \"\")"
        if t in ("list[str]", "list[nat]", "list[list[str]]", "list[col]"):
            return f"(!{e}.isEmpty)"
        if t == "nat":
            return f"({e} != 0)"
        if t == "name":
            return f"(name_truthy {e})"
        raise TranslateError(f"truthiness of {u(node)} : {t}")

    def is_opt(self, node, env):
        try:
            _, t = self.ex(node, env)
        except TranslateError:
            return False
        return t.startswith("opt[")

    def opt_bool(self, node, env, yes, no):
        e, t = self.ex(node, env)
        if t == "opt[list[str]]":
            return f"(match pyNonEmpty? {e} with | some _ => {yes} | none => {no})"
        return f"(match {e} with | some _ => {yes} | none => {no})"

    def bind_opt(self, node, env):
        """`if X:` on an optional X: (scrutinee, bound name, environment of the some-branch)"""
        e, t = self.ex(node, env)
        inner = t[4:-1]
        key = u(node)
        if isinstance(node, ast.Name):
            bound = node.id
        elif isinstance(node, ast.Attribute):
            bound = node.attr.lstrip("_")
        else:
            raise TranslateError("optional test on " + key)
        e2 = env.copy()
        if isinstance(node, ast.Name):
            e2.vars[node.id] = inner
            e2.atoms.pop(key, None)
        else:
            e2.atoms[key] = (bound, inner)
        scrut = f"pyNonEmpty? {e}" if t == "opt[list[str]]" else e
        return scrut, bound, e2

    def boolop(self, node, env):
        """`a and b and ...` / `a or b or ...` as Bool; an optional first operand binds its value for the rest"""
        vals = node.values
        is_and = isinstance(node.op, ast.And)
        first = vals[0]
        rest = vals[1:]
        rest_node = rest[0] if len(rest) == 1 else ast.BoolOp(op=node.op, values=rest)
        if is_and and self.is_opt(first, env):
            scrut, bound, e2 = self.bind_opt(first, env)
            return f"(match {scrut} with | some {bound} => {self.truthy(rest_node, e2)} | none => false)"
        if (not is_and) and isinstance(first, ast.UnaryOp) and isinstance(first.op, ast.Not) and self.is_opt(first.operand, env):
            scrut, bound, e2 = self.bind_opt(first.operand, env)
            return f"(match {scrut} with | none => true | some {bound} => {self.truthy(rest_node, e2)})"
        op = " && " if is_and else " || "
        return "(" + op.join(self.truthy(v, env) for v in vals) + ")"

    def ex(self, node, env):
        """-> (lean text, type)"""
        key = u(node)
        if key in env.atoms:
            return env.atoms[key]
        if isinstance(node, ast.Constant):
            v = node.value
            if v is True:
                return "true", "bool"
            if v is False:
                return "false", "bool"
            if v is None:
                return "none", "opt[?]"
            if isinstance(v, str):
                return lstr(v), "str"
            if isinstance(v, int) and v >= 0:
                return str(v), "nat"
            raise TranslateError("constant " + repr(v))
        if isinstance(node, ast.Name):
            if node.id in env.vars:
                return node.id, env.vars[node.id]
            if node.id in self.consts:
                return self.consts[node.id]
            raise TranslateError("unknown name " + node.id)
        if isinstance(node, ast.Attribute):
            if node.attr == "__name__":
                e, t = self.ex(node.value, env)
                if t == "kind":
                    return f"(kindName {e})", "str"
            if node.attr in ("kind", "nullable"):
                e, t = self.ex(node.value, env)
                if t == "dtype":
                    return f"{e}.{node.attr}", ("kind" if node.attr == "kind" else "bool")
                if t == "opt[dtype]":
                    raise TranslateError(f"{key}: attribute of a dtype that may be None")
            raise TranslateError("attribute " + key)
        if isinstance(node, ast.JoinedStr):
            parts = []
            for p in node.values:
                if isinstance(p, ast.Constant):
                    parts.append(lstr(p.value))
                elif isinstance(p, ast.FormattedValue) and p.conversion == -1 and p.format_spec is None:
                    e, t = self.ex(p.value, env)
                    if t == "str":
                        parts.append(e)
                    elif t == "nat":
                        parts.append(f"toString {e}")
                    else:
                        raise TranslateError(f"f-string field {u(p.value)} : {t}")
                else:
                    raise TranslateError("f-string field with format " + key)
            return ("(" + " ++ ".join(parts) + ")" if parts else '""'), "str"
        if isinstance(node, ast.BoolOp) or (isinstance(node, ast.UnaryOp) and isinstance(node.op, ast.Not)):
            if isinstance(node, ast.BoolOp) and isinstance(node.op, ast.Or) and len(node.values) == 2 \
                    and isinstance(node.values[1], ast.Constant) and node.values[1].value == "":
                e, t = self.ex(node.values[0], env)
                if t == "name":
                    return f"(name_or_empty {e})", "str"          # `n or ""`
                if t == "str":
                    return e, "str"                               # `s or ""` is `s`
            return self.truthy(node, env), "bool"
        if isinstance(node, ast.BinOp):
            (l, lt), (r, rt) = self.ex(node.left, env), self.ex(node.right, env)
            if isinstance(node.op, ast.Add) and lt == rt and lt in ("str", "list[str]", "list[nat]", "list[list[str]]"):
                return f"({l} ++ {r})", lt
            if lt == rt == "nat":
                if isinstance(node.op, ast.Add):
                    return f"({l} + {r})", "nat"
                if isinstance(node.op, ast.Mult):
                    return f"({l} * {r})", "nat"
                if isinstance(node.op, ast.FloorDiv):
                    return f"({l} / {r})", "nat"
                if isinstance(node.op, ast.Sub):
                    if (u(node.left), u(node.right)) not in env.facts:
                        raise TranslateError(f"{key}: subtraction not known to stay non-negative here")
                    return f"({l} - {r})", "nat"
            raise TranslateError("operator in " + key)
        if isinstance(node, ast.IfExp):
            if self.is_opt(node.test, env):
                scrut, bound, e2 = self.bind_opt(node.test, env)
                (a, at), (b, bt) = self.ex(node.body, e2), self.ex(node.orelse, env)
                if at != bt:
                    raise TranslateError("conditional expression of two types " + key)
                return f"(match {scrut} with | some {bound} => {a} | none => {b})", at
            c = self.truthy(node.test, env)
            (a, at), (b, bt) = self.ex(node.body, self.assume(node.test, env)), self.ex(node.orelse, env)
            if {at, bt} == {"str", "name"}:                       # a name used as text
                a = a if at == "str" else f"(name_text {a})"
                b = b if bt == "str" else f"(name_text {b})"
                at = bt = "str"
            if at != bt:
                raise TranslateError("conditional expression of two types " + key)
            return f"(if {c} then {a} else {b})", at
        if isinstance(node, ast.Compare) and len(node.ops) == 1:
            op, rn = node.ops[0], node.comparators[0]
            if isinstance(op, (ast.In, ast.NotIn)):
                l, lt = self.ex(node.left, env)
                if isinstance(rn, ast.Tuple) and lt == "kind" and all(isinstance(x, ast.Name) and x.id in KINDS for x in rn.elts):
                    r = "[" + ", ".join("Kind." + x.id for x in rn.elts) + "]"
                elif isinstance(rn, ast.Tuple) and lt == "str" and all(isinstance(x, ast.Constant) and isinstance(x.value, str) for x in rn.elts):
                    r = "[" + ", ".join(lstr(x.value) for x in rn.elts) + "]"
                else:
                    r, rt = self.ex(rn, env)
                    if rt not in (f"set[{lt}]", f"list[{lt}]"):
                        raise TranslateError("membership " + key)
                e = f"({r}.contains {l})"
                return (e if isinstance(op, ast.In) else f"(!{e})"), "bool"
            if isinstance(op, (ast.Is, ast.IsNot)) and isinstance(rn, ast.Constant) and rn.value is None:
                l, lt = self.ex(node.left, env)
                if not lt.startswith("opt["):
                    raise TranslateError("`is None` on a value that is never None: " + key)
                return (f"{l}.isNone" if isinstance(op, ast.Is) else f"{l}.isSome"), "bool"
            (l, lt), (r, rt) = self.ex(node.left, env), self.ex(rn, env)
            if lt != rt or lt not in ("nat", "str"):
                raise TranslateError(f"comparison {key} : {lt} / {rt}")
            if isinstance(op, ast.Eq):
                return f"({l} == {r})", "bool"
            if isinstance(op, ast.NotEq):
                return f"({l} != {r})", "bool"
            if lt == "nat" and isinstance(op, (ast.Gt, ast.Lt, ast.GtE, ast.LtE)):
                sym = {"Gt": ">", "Lt": "<", "GtE": "≥", "LtE": "≤"}[type(op).__name__]
                return f"(decide ({l} {sym} {r}))", "bool"
            raise TranslateError("comparison " + key)
        if isinstance(node, ast.Subscript):
            v, vt = self.ex(node.value, env)
            if isinstance(node.slice, ast.Slice) and node.slice.step is None and vt.startswith("list["):
                lo, hi = node.slice.lower, node.slice.upper
                if lo is None and hi is not None:
                    h, ht = self.ex(hi, env)
                    if ht == "nat":
                        return f"({v}.take {h})", vt                # l[:n], n >= 0
                if hi is None and isinstance(lo, ast.UnaryOp) and isinstance(lo.op, ast.USub):
                    h, ht = self.ex(lo.operand, env)
                    if ht == "nat":
                        return f"(pyLastN {h} {v})", vt             # l[-n:], n >= 0
                raise TranslateError("slice " + key)
            if vt.startswith("list[") and not isinstance(node.slice, ast.Slice):
                i, it = self.ex(node.slice, env)
                inner = vt[5:-1]
                if it == "nat" and inner in DEFAULTS:
                    return f"({v}.getD {i} {DEFAULTS[inner]})", inner     # l[i]; IndexError is not modelled (see the docstring)
            raise TranslateError("subscript " + key)
        if isinstance(node, ast.ListComp) or isinstance(node, ast.GeneratorExp):
            return self.comp(node, env)
        if isinstance(node, ast.List) and not node.elts:
            return "[]", "list[?]"
        if isinstance(node, ast.Tuple) and node.elts:
            es = [self.ex(x, env) for x in node.elts]
            if all(t == "nat" for _, t in es):
                return "[" + ", ".join(e for e, _ in es) + "]", "list[nat]"       # a tuple of counts (a shape) is a list
        if isinstance(node, ast.Call):
            return self.call(node, env)
        raise TranslateError("expression " + key[:80])

    def assume(self, test, env):
        """the environment of the branch where `test` holds: records comparisons that make subtractions safe"""
        e2 = env.copy()
        t = test
        if isinstance(t, ast.Name) and t.id in env.defs:
            t = env.defs[t.id]
        if isinstance(t, ast.Compare) and len(t.ops) == 1 and isinstance(t.ops[0], ast.Eq):
            e2.facts.add(("==", u(t.left), u(t.comparators[0])))
        if isinstance(t, ast.Compare) and len(t.ops) == 1 and isinstance(t.ops[0], (ast.Gt, ast.GtE)):
            r = t.comparators[0]
            e2.facts.add((u(t.left), u(r)))
            if isinstance(r, ast.BinOp) and isinstance(r.op, ast.Mult) and isinstance(r.right, ast.Constant) \
                    and isinstance(r.right.value, int) and r.right.value >= 1:
                e2.facts.add((u(t.left), u(r.left)))           # x > y * k, k >= 1  implies  x >= y
        return e2

    def iterable(self, node, env):
        """an iterated expression -> (lean list, lean pattern for the element, types of the bound names)"""
        raise NotImplementedError

    def comp(self, node, env):
        if len(node.generators) != 1 or node.generators[0].is_async:
            raise TranslateError("comprehension " + u(node))
        g = node.generators[0]
        lst, pat, binds = self.iter_of(g.iter, g.target, env)
        e2 = env.copy()
        e2.vars.update(binds)
        for c in g.ifs:
            lst = f"({lst}.filter (fun {pat} => {self.truthy(c, e2)}))"
        body, bt = self.ex(node.elt, e2)
        if isinstance(g.target, ast.Name) and isinstance(node.elt, ast.Name) and node.elt.id == g.target.id:
            return lst, f"list[{bt}]"
        return f"({lst}.map (fun {pat} => {body}))", f"list[{bt}]"

    def iter_of(self, it, target, env):
        """(lean list, lambda pattern, {bound name: type})"""
        if isinstance(it, ast.Call) and isinstance(it.func, ast.Name) and it.func.id == "zip" and len(it.args) == 2 \
                and isinstance(target, ast.Tuple) and len(target.elts) == 2:
            (a, at), (b, bt) = self.ex(it.args[0], env), self.ex(it.args[1], env)
            return f"({a}.zip {b})", f"({target.elts[0].id}, {target.elts[1].id})", {target.elts[0].id: at[5:-1], target.elts[1].id: bt[5:-1]}
        if isinstance(it, ast.Call) and isinstance(it.func, ast.Name) and it.func.id == "enumerate" and len(it.args) == 1 \
                and isinstance(target, ast.Tuple) and len(target.elts) == 2:
            a, at = self.ex(it.args[0], env)
            return f"{a}.zipIdx", f"({target.elts[1].id}, {target.elts[0].id})", {target.elts[0].id: "nat", target.elts[1].id: at[5:-1]}
        if isinstance(it, ast.Call) and isinstance(it.func, ast.Name) and it.func.id == "range":
            l, lt = self.ex(ast.Call(func=ast.Name(id="list", ctx=ast.Load()), args=[it], keywords=[]), env)
            if not isinstance(target, ast.Name):
                raise TranslateError("loop target")
            return l, target.id, {target.id: "nat"}
        l, lt = self.ex(it, env)
        if not (lt.startswith("list[") or lt.startswith("set[")) or not isinstance(target, ast.Name):
            raise TranslateError("iteration over " + u(it))
        return l, target.id, {target.id: lt[lt.index("[") + 1:-1]}

    def call(self, node, env):
        f, key = node.func, u(node)
        if node.keywords:
            raise TranslateError("keyword arguments in " + key)
        if isinstance(f, ast.Name):
            n, args = f.id, node.args
            if n in self.funcs:
                return self.call_translated(n, args, env)
            if n == "len" and len(args) == 1:
                e, t = self.ex(args[0], env)
                if t.startswith("list["):
                    return f"{e}.length", "nat"
                if t.startswith("set["):
                    return f"{e}.eraseDups.length", "nat"       # a set is kept as the list of the elements added to it
                if t == "str":
                    return f"{e}.length", "nat"
            if n == "str" and len(args) == 1:
                e, t = self.ex(args[0], env)
                if t == "nat":
                    return f"(toString {e})", "str"
                if t == "str":
                    return e, "str"
            if n == "set":
                if not args:
                    return "[]", "set[?]"
                e, t = self.ex(args[0], env)
                if t.startswith("list["):
                    return e, "set[" + t[5:-1] + "]"
            if n == "list" and len(args) == 1:
                a = args[0]
                if isinstance(a, ast.Call) and isinstance(a.func, ast.Name) and a.func.id == "range" and not a.keywords:
                    rs = [self.ex(x, env) for x in a.args]
                    if all(t == "nat" for _, t in rs):
                        if len(rs) == 1:
                            return f"(List.range {rs[0][0]})", "list[nat]"
                        if len(rs) == 2:
                            return f"(pyRange {rs[0][0]} {rs[1][0]})", "list[nat]"
                e, t = self.ex(a, env)
                if t.startswith("list["):
                    return e, t
            if n == "any" and len(args) == 1 and isinstance(args[0], ast.GeneratorExp):
                g = args[0]
                if len(g.generators) == 1:
                    gen = g.generators[0]
                    lst, pat, binds = self.iter_of(gen.iter, gen.target, env)
                    e2 = env.copy()
                    e2.vars.update(binds)
                    for c in gen.ifs:
                        lst = f"({lst}.filter (fun {pat} => {self.truthy(c, e2)}))"
                    return f"({lst}.any (fun {pat} => {self.truthy(g.elt, e2)}))", "bool"
            if n == "max" and len(args) == 2:
                (a, at), (b, bt) = self.ex(args[0], env), self.ex(args[1], env)
                if at == bt == "nat":
                    return f"(max {a} {b})", "nat"
            if n == "max" and len(args) == 1 and isinstance(args[0], ast.GeneratorExp):
                l, lt = self.comp(args[0], env)
                if lt == "list[nat]":
                    return f"(pyMax {l})", "nat"                # ValueError on an empty sequence is not modelled: guarded in the source
            if n == "tuple" and not args:
                return "([] : List Nat)", "list[nat]"             # the empty shape
            if n == "isinstance" and len(args) == 2 and u(args[1]) == "str":
                e, t = self.ex(args[0], env)
                if t == "str":
                    return "true", "bool"
            if n == "repr" and len(args) == 1:
                e, t = self.ex(args[0], env)
                if t in ("str", "name"):
                    return f"(py_repr {e})", "str"
            if n == "_needs_quote" and len(args) == 1:
                e, t = self.ex(args[0], env)
                if t in ("str", "name"):
                    return f"(needs_quote {e})", "bool"
            if n == "_sanitize_user_name" and len(args) == 1:
                e, t = self.ex(args[0], env)
                if t == "name":
                    return f"(sanitize_user_name {e})", "opt[str]"
            if n == "_format_column" and len(args) == 1:
                e, t = self.ex(args[0], env)
                if t == "col":
                    return f"(format_column {e})", "list[str]"
        if isinstance(f, ast.Attribute):
            m, args = f.attr, node.args
            if m == "join" and isinstance(f.value, ast.Constant) and isinstance(f.value.value, str) and len(args) == 1:
                e, t = self.ex(args[0], env)
                if t == "list[str]":
                    return f"(pyJoin {lstr(f.value.value)} {e})", "str"
            o, ot = self.ex(f.value, env)
            if ot == "str":
                if m == "replace" and len(args) == 2:
                    (a, at), (b, bt) = self.ex(args[0], env), self.ex(args[1], env)
                    if at == bt == "str":
                        return f"(str_replace {o} {a} {b})", "str"
                if m == "lower" and not args:
                    return f"(str_lower {o})", "str"
                if m == "endswith" and len(args) == 1 and isinstance(args[0], ast.Constant) and isinstance(args[0].value, str) \
                        and len(args[0].value) == 1:
                    return f"(pyEndsWith {o} '{args[0].value}')", "bool"
                if m in ("ljust", "rjust") and len(args) == 1:
                    a, at = self.ex(args[0], env)
                    if at == "nat":
                        return f"(str_{m} {o} {a})", "str"
        raise TranslateError("call " + key[:100])

    def call_translated(self, n, args, env):
        spec = self.funcs[n]
        kinds = spec["args"]
        full = list(args) + [None] * (len(kinds) - len(args))
        if len(args) > len(kinds):
            raise TranslateError("too many arguments to " + n)
        out = list(spec["pre"])
        for i, (a, k) in enumerate(zip(full, kinds)):
            if a is None:
                d = spec["defaults"][i]
                if d is None:
                    raise TranslateError(f"missing argument {i} of {n}")
                a = d
            if k == "obj":
                if not isinstance(a, ast.Name):
                    raise TranslateError("object argument of " + n)
                for atom in (f"{a.id}.shape", f"len({a.id})", f"{a.id}._dtype"):
                    if atom not in env.atoms:
                        raise TranslateError(f"{atom} unknown in call of {n}")
                    out.append(env.atoms[atom][0])
            else:
                e, t = self.ex(a, env)
                out.append(self.coerce(e, t, k, f"argument {i} of {n}"))
        return "(" + " ".join([spec["lean"]] + out) + ")", spec["ret"]

    def coerce(self, e, t, want, what):
        if t == want:
            return e
        if t == "opt[?]" and want.startswith("opt["):
            return e
        if want.startswith("opt[") and want[4:-1] == t:
            return f"(some {e})"
        if t in ("list[?]", "set[?]") and (want.startswith("list[") or want.startswith("set[")):
            return e
        if t.startswith("list[") and want == "set[" + t[5:-1] + "]":
            return e
        raise TranslateError(f"{what}: {t} where {want} is expected")

    # ---- statements --------------------------------------------------------------------------------------------
    def tup(self, names):
        return names[0] if len(names) == 1 else "(" + ", ".join(names) + ")"

    def block(self, stmts, env, k, ind):
        """lines of a Lean term; `k(env)` gives the lines of the value when the end of the list is reached (None: must exit before)"""
        pad = " " * ind
        stmts = strip_doc(stmts)
        if self.scope is None:
            self.scope = stmts
        env = env.copy()
        out = []
        for i, s in enumerate(stmts):
            rest = stmts[i + 1:]
            if isinstance(s, ast.Return):
                if s.value is None:
                    raise TranslateError("bare return")
                if isinstance(s.value, ast.Tuple):
                    es = [self.ex(x, env) for x in s.value.elts]
                    if all(t == "nat" for _, t in es):
                        out.append(pad + self.ex(s.value, env)[0])          # a tuple of counts: a shape
                    else:
                        out.append(pad + "(" + ", ".join(e for e, _ in es) + ")")
                else:
                    out.append(pad + self.ex(s.value, env)[0])
                return out
            if isinstance(s, ast.Continue):
                if self.loop_k is None:
                    raise TranslateError("continue outside a loop")
                out += self.loop_k(env, ind)
                return out
            if isinstance(s, ast.Pass):
                continue
            if isinstance(s, ast.If):
                if exits(s.body) and (not s.orelse or exits(s.orelse)):
                    other = s.orelse if s.orelse else rest
                    ok = k if not s.orelse else None
                    out += self.branch(s.test, env, lambda e, j: self.block(s.body, e, None, j),
                                       lambda e, j: self.block(other, e, ok, j), ind)
                    if s.orelse and rest:
                        raise TranslateError("statements after an if/else that always returns")
                    return out
                if may_exit(s.body) or may_exit(s.orelse):
                    if exits(s.body) and s.orelse:
                        # if c: ...return  else: A   ; rest      ==  if c then ... else (A; rest)
                        out += self.branch(s.test, env, lambda e, j: self.block(s.body, e, None, j),
                                           lambda e, j: self.block(s.orelse + rest, e, k, j), ind)
                        return out
                    raise TranslateError("branch that returns only on some paths: " + u(s.test))
                w = [v for v in mutated(s.body) + mutated(s.orelse)
                     if v in env.vars or (definitely(s.body, v) and definitely(s.orelse, v))]
                w = list(dict.fromkeys(w))
                # a variable assigned only under `if T:` (no else) and read only under later `if T:` with the same T: elsewhere its
                # value is never read; the translation carries "" there
                cond_only = [v for v in mutated(s.body) if v not in w and not s.orelse and v in self.cond_vars
                             and self.cond_vars[v] == u(s.test)]
                w += cond_only
                if not w:
                    raise TranslateError("if without effect: " + u(s.test))
                types = {}

                def fin(e, j, w=w, types=types):
                    for v in w:
                        if v not in e.vars:
                            raise TranslateError(f"{v} may be unassigned")
                        if types.get(v, e.vars[v]) != e.vars[v] and "?" not in types.get(v, "") and "?" not in e.vars[v]:
                            raise TranslateError(f"{v} has two types: {types[v]} / {e.vars[v]}")
                        if "?" in types.get(v, "?"):
                            types[v] = e.vars[v]
                    return [" " * j + self.tup(w)]
                out.append(pad + f"let {self.tup(w)} :=")
                env0 = env
                if cond_only:
                    env0 = env.copy()
                    for v in cond_only:
                        env0.vars[v] = "str"
                    pre = [f'let {v} := ""' for v in cond_only]
                else:
                    pre = []
                out += self.branch(s.test, env, lambda e, j: self.block(s.body, e, fin, j),
                                   lambda e, j: [" " * j + x for x in pre] + self.block(s.orelse, env0 if pre else e, fin, j), ind + 2)
                for v in w:
                    env.vars[v] = types[v]
                    env.defs.pop(v, None)
                for v in cond_only:
                    if types[v] != "str":
                        raise TranslateError(f"{v} is assigned under a condition only and is not a string")
                continue
            if isinstance(s, ast.For):
                if s.orelse or may_exit([x for x in s.body if isinstance(x, ast.Return)]) or any(isinstance(n, ast.Return) for n in ast.walk(s)):
                    raise TranslateError("loop with else / return")
                body = strip_doc(s.body)
                it, target = s.iter, s.target
                # `for idx in range(len(xs)): x = xs[idx]` is `for idx, x in enumerate(xs)`
                if isinstance(it, ast.Call) and u(it.func) == "range" and len(it.args) == 1 and isinstance(it.args[0], ast.Call) \
                        and u(it.args[0].func) == "len" and isinstance(target, ast.Name) and body \
                        and isinstance(body[0], ast.Assign) and len(body[0].targets) == 1 and isinstance(body[0].targets[0], ast.Name) \
                        and u(body[0].value) == f"{u(it.args[0].args[0])}[{target.id}]" \
                        and target.id not in mutated(body) and body[0].targets[0].id not in mutated(body[1:]):
                    elem = body[0].targets[0].id
                    xs = it.args[0].args[0]
                    it = ast.Call(func=ast.Name(id="enumerate", ctx=ast.Load()), args=[xs], keywords=[])
                    target = ast.Tuple(elts=[ast.Name(id=target.id, ctx=ast.Store()), ast.Name(id=elem, ctx=ast.Store())], ctx=ast.Store())
                    body = body[1:]
                lst, pat, binds = self.iter_of(it, target, env)
                w = [v for v in mutated(body) if v in env.vars]
                if not w:
                    raise TranslateError("loop without effect")
                if any(b in w for b in binds):
                    raise TranslateError("loop variable reassigned")
                e2 = env.copy()
                e2.vars.update(binds)
                saved = self.loop_k
                self.loop_k = lambda e, j, w=w: [" " * j + self.tup(w)]
                try:
                    inner = self.block(body, e2, lambda e, j, w=w: [" " * j + self.tup(w)], ind + 4)
                finally:
                    self.loop_k = saved
                out.append(pad + f"let {self.tup(w)} :=")
                out.append(pad + f"  {lst}.foldl (fun {self.tup(w)} {pat} =>")
                out += inner
                out.append(pad + f"    ) {self.tup(w)}")
                continue
            out += self.simple(s, env, ind)
        if k is None:
            raise TranslateError("path without return")
        out += k(env, ind)
        return out

    loop_k = None
    cond_vars = {}
    scope = None          # the statements of the function being translated (for `infer_empty`)

    def infer_empty(self, v, depth=0):
        """the type of a list that starts as `[]`, from what the function appends to it (string constants / f-strings, or such lists)"""
        if self.scope is None or depth > 2:
            return None
        for s in self.scope:
            for n in ast.walk(s):
                if isinstance(n, ast.Call) and isinstance(n.func, ast.Attribute) and n.func.attr == "append" \
                        and isinstance(n.func.value, ast.Name) and n.func.value.id == v and len(n.args) == 1:
                    a = n.args[0]
                    if isinstance(a, ast.JoinedStr) or (isinstance(a, ast.Constant) and isinstance(a.value, str)):
                        return "list[str]"
                    if isinstance(a, ast.Name) and self.infer_empty(a.id, depth + 1) == "list[str]":
                        return "list[list[str]]"
        return None

    def find_cond_vars(self, f, types_str):
        """variables assigned only inside one `if T:` (without else) at the top level of `f` and read only inside the bodies of top-level
        `if T:` statements with the same test, where nothing T mentions is assigned in between -> {name: text of T}"""
        out = {}
        body = strip_doc(f.body)
        for s in body:
            if isinstance(s, ast.If) and not s.orelse:
                for v in mutated(s.body):
                    if v in mutated([x for x in body if x is not s]):
                        continue
                    ok = True
                    for x in body:
                        reads = any(isinstance(n, ast.Name) and n.id == v and isinstance(n.ctx, ast.Load) for n in ast.walk(x))
                        if reads and not (isinstance(x, ast.If) and u(x.test) == u(s.test)
                                          and not any(isinstance(n, ast.Name) and n.id == v for n in ast.walk(ast.Module(body=x.orelse, type_ignores=[])))):
                            ok = False
                    if names_used(s.test) & set(mutated(body)):
                        ok = False
                    if ok and (types_str is None or v in types_str):
                        out[v] = u(s.test)
        self.cond_vars = out

    def branch(self, test, env, yes, no, ind):
        """`if test then yes else no`, or a `match` when the test is an optional value / `x is None`"""
        pad = " " * ind
        t = test
        neg = False
        if isinstance(t, ast.UnaryOp) and isinstance(t.op, ast.Not) and self.is_opt(t.operand, env):
            t, neg = t.operand, True
        elif isinstance(t, ast.Compare) and len(t.ops) == 1 and isinstance(t.ops[0], (ast.Is, ast.IsNot)) \
                and isinstance(t.comparators[0], ast.Constant) and t.comparators[0].value is None and self.is_opt(t.left, env) \
                and self.ex(t.left, env)[1] != "opt[list[str]]":
            neg = isinstance(t.ops[0], ast.Is)
            t = t.left
        elif not self.is_opt(t, env):
            t = None
        if t is not None:
            scrut, bound, e2 = self.bind_opt(t, env)
            some_lines = (no if neg else yes)(e2, ind + 2)
            none_lines = (yes if neg else no)(env, ind + 2)
            first = [pad + f"| some {bound} =>"] + some_lines
            second = [pad + "| none =>"] + none_lines
            if neg:
                first, second = second, first
            return [pad + f"match {scrut} with"] + first + second
        c = self.truthy(test, env)
        return [pad + f"if {c} then"] + yes(self.assume(test, env), ind + 2) + [pad + "else"] + no(env, ind + 2)

    def simple(self, s, env, ind):
        pad = " " * ind
        if isinstance(s, ast.Assign) and len(s.targets) == 1:
            tg = s.targets[0]
            if isinstance(tg, ast.Name):
                e, t = self.ex(s.value, env)
                if "?" in t:
                    want = self.hints.get(tg.id) or (self.infer_empty(tg.id) if t == "list[?]" else None)
                    if want is None:
                        raise TranslateError(f"type of {tg.id} unknown")
                    e = f"({e} : {LEAN_TYPES[want]})"
                    t = want
                elif tg.id in self.hints and self.hints[tg.id] != t:
                    e = self.coerce(e, t, self.hints[tg.id], tg.id)
                    t = self.hints[tg.id]
                env.vars[tg.id] = t
                env.atoms.pop(tg.id, None)
                if t == "bool":
                    env.defs[tg.id] = s.value
                return [pad + f"let {tg.id} := {e}"]
            if isinstance(tg, ast.Tuple) and all(isinstance(x, ast.Name) for x in tg.elts):
                names = [x.id for x in tg.elts]
                e, t = self.ex(s.value, env)
                if isinstance(t, tuple) and len(t) == len(names):
                    for n, ty in zip(names, t):
                        env.vars[n] = ty
                    return [pad + f"let ({', '.join(names)}) := {e}"]
                if t == "list[nat]" and ("==", f"len({u(s.value)})", str(len(names))) in env.facts:
                    out = []
                    for i, n in enumerate(names):
                        out.append(pad + f"let {n} := {e}.getD {i} 0")
                    for n in names:
                        env.vars[n] = "nat"
                    return out
                raise TranslateError("tuple assignment " + u(s))
        if isinstance(s, ast.AugAssign) and isinstance(s.target, ast.Name) and isinstance(s.op, ast.Add):
            v = s.target.id
            if v not in env.vars:
                raise TranslateError("augmented assignment to unknown " + v)
            e, t = self.ex(s.value, env)
            if env.vars[v] == t == "str":
                return [pad + f"let {v} := {v} ++ {e}"]
            if env.vars[v] == t == "nat":
                return [pad + f"let {v} := {v} + {e}"]
        if isinstance(s, ast.Expr) and isinstance(s.value, ast.Call) and isinstance(s.value.func, ast.Attribute) \
                and isinstance(s.value.func.value, ast.Name) and not s.value.keywords:
            v, m, args = s.value.func.value.id, s.value.func.attr, s.value.args
            if v in env.vars:
                vt = env.vars[v]
                inner = vt[vt.index("[") + 1:-1] if "[" in vt else None
                if m == "append" and vt.startswith("list[") and len(args) == 1:
                    e, t = self.ex(args[0], env)
                    if t == inner:
                        return [pad + f"let {v} := {v} ++ [{e}]"]
                if m == "extend" and vt.startswith("list[") and len(args) == 1:
                    e, t = self.ex(args[0], env)
                    if t == vt:
                        return [pad + f"let {v} := {v} ++ {e}"]
                if m == "add" and vt.startswith("set[") and len(args) == 1:
                    e, t = self.ex(args[0], env)
                    if t == inner:
                        return [pad + f"let {v} := {e} :: {v}"]          # a set is kept as the list of the elements added to it
                if m == "insert" and vt.startswith("list[") and len(args) == 2:
                    (i, it), (e, t) = self.ex(args[0], env), self.ex(args[1], env)
                    if it == "nat" and t == inner:
                        return [pad + f"let {v} := pyInsert {i} {e} {v}"]
        raise TranslateError("statement " + u(s)[:100])


# ---------------------------------------------------------------------------------------------------------------------
# slicing: the statements a value depends on
# ---------------------------------------------------------------------------------------------------------------------
import builtins as _bi


def uses(node):
    called = {n.func.id for n in ast.walk(node) if isinstance(n, ast.Call) and isinstance(n.func, ast.Name)}
    return {n for n in names_used(node) if n not in called and not hasattr(_bi, n)}


SCALARS = {"MAX_HEAD_COLS", "truncated", "num_cols", "tbl", "show_types_in_header"}


SAFE_CALLS = {"len", "range", "enumerate", "zip", "any", "all", "max", "min", "str", "set", "list", "tuple", "sorted", "repr",
              "isinstance", "hasattr", "sum"}


def risky_mentions(s, names):
    """the names of `names` that `s` mentions in a position from which the object could be changed or aliased: anything but being
    iterated, subscripted / attribute-read, tested, or passed to a built-in that only reads"""
    parents = {}
    for node in ast.walk(s):
        for ch in ast.iter_child_nodes(node):
            parents[ch] = node
    bad = set()
    for node in ast.walk(s):
        if isinstance(node, ast.Name) and node.id in names:
            p = parents.get(node)
            ok = False
            if isinstance(p, (ast.For, ast.comprehension)) and p.iter is node:
                ok = True
            elif isinstance(p, ast.Subscript) and p.value is node and isinstance(p.ctx, ast.Load):
                ok = True
            elif isinstance(p, ast.Attribute) and p.value is node and isinstance(p.ctx, ast.Load) \
                    and not (isinstance(parents.get(p), ast.Call) and parents[p].func is p):
                ok = True
            elif isinstance(p, ast.Call) and node in p.args and isinstance(p.func, ast.Name) and p.func.id in SAFE_CALLS:
                ok = True
            elif isinstance(p, (ast.Compare, ast.BoolOp, ast.UnaryOp, ast.IfExp, ast.If, ast.FormattedValue)):
                ok = True
            if not ok:
                bad.add(node.id)
    return bad


def dropped_ok(s, needed):
    """a statement left out of a slice must not mention a list the slice still reads afterwards in a way that could change it in place"""
    shared = risky_mentions(s, (uses(s) & set(needed)) - SCALARS)
    if shared:
        raise TranslateError(f"statement outside the slice mentions {sorted(shared)}, read later: " + u(s)[:60])


def slice_stmts(stmts, needed):
    """the sub-list of statements (in order; compound statements filtered recursively) that can influence the variables in
    `needed` at the end of the list, and the variables needed before the list.  `return` statements are always kept."""
    out = []
    needed = set(needed)
    for s in reversed(stmts):
        if isinstance(s, ast.Return):
            out.append(s)
            needed |= uses(s)
            continue
        if isinstance(s, ast.If):
            b, nb = slice_stmts(s.body, needed)
            o, no = slice_stmts(s.orelse, needed)
            if b or o:
                s2 = copy.copy(s)
                s2.body = b or [ast.Pass()]
                s2.orelse = o
                out.append(s2)
                needed = needed | nb | no | uses(s.test)
            continue
        if isinstance(s, ast.For):
            m = set(mutated(s.body))
            if m & needed:
                # a loop is kept whole: what it carries from one round to the next is not analysed
                out.append(s)
                needed |= uses(s)
            else:
                dropped_ok(s, needed)
            continue
        m = set(mutated([s]))
        if m & needed:
            out.append(s)
            if isinstance(s, ast.Assign) and all(isinstance(t, (ast.Name, ast.Tuple)) for t in s.targets):
                needed -= m
            needed |= uses(s)
            continue
        if not m and not (isinstance(s, ast.Expr) and isinstance(s.value, ast.Constant)) and not isinstance(s, ast.Pass):
            raise TranslateError("statement with unknown effect: " + u(s)[:80])
        dropped_ok(s, needed)
    out.reverse()
    return out, needed


# ---------------------------------------------------------------------------------------------------------------------
# the generated definitions
# ---------------------------------------------------------------------------------------------------------------------
def quote(stmts_or_func):
    """the Python text (docstrings and comments dropped) for the docstring of a generated definition"""
    if isinstance(stmts_or_func, ast.FunctionDef):
        f = copy.copy(stmts_or_func)
        f.body = strip_doc(f.body) or [ast.Pass()]
        f.returns = None
        txt = u(f)
    else:
        txt = "\n".join(u(s) for s in stmts_or_func)
    txt = txt.replace("-/", "- /").replace("/-", "/ -")
    return "\n".join("      " + l for l in txt.split("\n"))


def check_args(f, names, defaults=None):
    got = [a.arg for a in f.args.args]
    if got != names or f.args.vararg or f.args.kwarg or f.args.kwonlyargs:
        raise TranslateError(f"{f.name}: parameters {got}")
    if defaults is not None:
        d = [u(x) for x in f.args.defaults]
        if d != defaults:
            raise TranslateError(f"{f.name}: defaults {d}")


PRE_K = ["kindName"]
OBJ = lambda o: {f"{o}.shape": (f"{o}_shape", "list[nat]"), f"len({o})": (f"{o}_len", "nat"), f"{o}._dtype": (f"{o}_dtype", "opt[dtype]")}
OBJ_PARAMS = lambda o: f"({o}_shape : List Nat) ({o}_len : Nat) ({o}_dtype : Option DType)"
COL_ATOMS = lambda c: {f"{c}._dtype": (f"(col_dtype {c})", "opt[dtype]"), f"{c}._name": (f"(col_name {c})", "name")}
COL_PARAMS = "(col_dtype : γ → Option DType) (col_name : γ → ν)"
NAME_PARAMS = "(name_truthy : ν → Bool) (name_or_empty : ν → String) (sanitize_user_name : ν → Option String)"


def translate_all(display_src, typing_src, vector_src):
    """-> list of (what, lean text or None, error or None)"""
    tree = ast.parse(display_src)
    results = []
    funcs = {}
    consts = {"MAX_HEAD_COLS": ("MAX_HEAD_COLS", "nat")}

    def attempt(what, fn):
        try:
            results.append((what, fn(), None))
            return True
        except TranslateError as ex:
            results.append((what, None, f"TranslateError: {ex}"))
        except Exception as ex:                                   # a bug of the translator is a refusal, not a crash
            results.append((what, None, f"{type(ex).__name__}: {ex}"))
        return False

    # ---- DataType.__repr__ -------------------------------------------------------------------------------------------
    def data_type_repr():
        f = find_func(ast.parse(typing_src), "__repr__", "DataType")
        check_args(f, ["self"])
        tr = Tr({})
        env = Env(atoms={"self.nullable": ("self_.nullable", "bool"), "self.kind": ("self_.kind", "kind")})
        body = tr.block(f.body, env, None, 2)
        return ("/-- translated from `DataType.__repr__` (typing.py):\n" + quote(f) + " -/\n"
                "def dataTypeReprT (kindName : Kind → String) (self_ : DType) : String :=\n" + "\n".join(body))
    attempt("DataType.__repr__", data_type_repr)

    # ---- Vector.shape ------------------------------------------------------------------------------------------------
    def vector_shape():
        f = find_func(ast.parse(vector_src), "shape", "Vector")
        check_args(f, ["self"])
        tr = Tr({})
        env = Env(atoms={"self._underlying": ("self_underlying", "list[cell]"), "len(self)": ("self_len", "nat")})
        body = tr.block(f.body, env, None, 2)
        return ("/-- translated from the property `Vector.shape` (vector.py):\n" + quote(f) + " -/\n"
                "def vectorShapeT {α : Type} (self_underlying : List α) (self_len : Nat) : List Nat :=\n" + "\n".join(body))
    attempt("Vector.shape", vector_shape)

    # ---- _footer -----------------------------------------------------------------------------------------------------
    def footer():
        f = find_func(tree, "_footer")
        check_args(f, ["pv", "dtype_list", "truncated", "shown"], ["None", "False", "MAX_HEAD_COLS"])
        tr = Tr({}, consts=consts)
        env = Env(vars={"dtype_list": "opt[list[str]]", "truncated": "bool", "shown": "nat"}, atoms=OBJ("pv"))
        body = tr.block(f.body, env, None, 2)
        return ("/-- translated from `display._footer` (`pv` is seen through `pv.shape`, `len(pv)`, `pv._dtype`; `a, b = shape` under\n"
                "    `len(shape) == 2` reads the two entries):\n" + quote(f) + " -/\n"
                f"def footerT (kindName : Kind → String) {OBJ_PARAMS('pv')}\n"
                "    (dtype_list : Option (List String)) (truncated : Bool) (shown : Nat) : String :=\n" + "\n".join(body))
    if attempt("_footer", footer):
        f = find_func(tree, "_footer")
        funcs["_footer"] = dict(lean="footerT", pre=["kindName"], args=["obj", "opt[list[str]]", "bool", "nat"],
                                defaults=[None] + list(f.args.defaults), ret="str")

    # ---- _compute_headers --------------------------------------------------------------------------------------------
    def compute_headers():
        f = find_func(tree, "_compute_headers")
        check_args(f, ["cols", "col_indices"])
        tr = Tr({}, hints={"display_names": "list[str]", "sanitized_names": "list[str]", "seen": "set[str]"})
        tr.col_var = "col"
        env = Env(vars={"cols": "list[col]", "col_indices": "list[nat]"}, atoms=COL_ATOMS("col"))
        body = tr.block(f.body, env, None, 2)
        return ("/-- translated from `display._compute_headers` (`for idx in range(len(cols)): col = cols[idx]` is read as\n"
                "    `for idx, col in enumerate(cols)`; the sets `shown` and `seen` are kept as the lists of the elements added):\n" + quote(f) + " -/\n"
                f"def computeHeadersT {{γ ν : Type}} (kindName : Kind → String) {COL_PARAMS}\n    {NAME_PARAMS}\n"
                "    (cols : List γ) (col_indices : List Nat) : List String × List String × List String :=\n" + "\n".join(body))
    if attempt("_compute_headers", compute_headers):
        funcs["_compute_headers"] = dict(lean="computeHeadersT", pre=["kindName", "col_dtype", "col_name", "name_truthy", "name_or_empty", "sanitize_user_name"],
                                         args=["list[col]", "list[nat]"], defaults=[None, None], ret=("list[str]", "list[str]", "list[str]"))

    # ---- _is_structural_change ---------------------------------------------------------------------------------------
    def structural():
        f = find_func(tree, "_is_structural_change")
        check_args(f, ["display_name", "sanitized_name"])
        tr = Tr({})
        env = Env(vars={"display_name": "str", "sanitized_name": "str"})
        body = tr.block(f.body, env, None, 2)
        return ("/-- translated from `display._is_structural_change` (both arguments strings):\n" + quote(f) + " -/\n"
                "def isStructuralChangeT (str_lower : String → String) (display_name sanitized_name : String) : Bool :=\n" + "\n".join(body))
    if attempt("_is_structural_change", structural):
        funcs["_is_structural_change"] = dict(lean="isStructuralChangeT", pre=["str_lower"], args=["str", "str"], defaults=[None, None], ret="bool")

    # ---- _header_rows ------------------------------------------------------------------------------------------------
    def header_rows():
        if "_is_structural_change" not in funcs:
            raise TranslateError("_is_structural_change is not translated")
        f = find_func(tree, "_header_rows")
        check_args(f, ["display_names", "sanitized_names", "dtypes"])
        tr = Tr({"_is_structural_change": funcs["_is_structural_change"]}, hints={})
        env = Env(vars={"display_names": "list[str]", "sanitized_names": "list[str]", "dtypes": "list[str]"})
        body = tr.block(f.body, env, None, 2)
        return ("/-- translated from `display._header_rows` (the three lists hold strings):\n" + quote(f) + " -/\n"
                "def headerRowsT (str_lower : String → String) (needs_quote : String → Bool) (py_repr : String → String)\n"
                "    (display_names sanitized_names dtypes : List String) : List (List String) × Bool :=\n" + "\n".join(body))
    if attempt("_header_rows", header_rows):
        funcs["_header_rows"] = dict(lean="headerRowsT", pre=["str_lower", "needs_quote", "py_repr"], args=["list[str]"] * 3,
                                     defaults=[None] * 3, ret=("list[list[str]]", "bool"))

    # ---- _repr_table: slices -----------------------------------------------------------------------------------------
    def table_body():
        f = find_func(tree, "_repr_table")
        check_args(f, ["tbl"])
        body = strip_doc(f.body)
        # the end of the function: `lines.append("")`, the footer `if` whose every leaf appends one line, `return "\n".join(lines)`
        if len(body) < 3 or u(body[-1]) != "return '\\n'.join(lines)" or u(body[-3]) != "lines.append('')" or not isinstance(body[-2], ast.If):
            raise TranslateError("_repr_table: the last three statements")
        return f, body

    def leaf_to_return(stmts):
        """the footer `if`: every `lines.append(X)` leaf becomes `return X`"""
        out = []
        for s in stmts:
            if isinstance(s, ast.If):
                s2 = copy.copy(s)
                s2.body = leaf_to_return(s.body)
                s2.orelse = leaf_to_return(s.orelse)
                if not s2.orelse:
                    raise TranslateError("_repr_table: footer branch without else")
                out.append(s2)
            elif isinstance(s, ast.Expr) and isinstance(s.value, ast.Call) and u(s.value.func) == "lines.append" and len(s.value.args) == 1 \
                    and s is stmts[-1]:
                out.append(ast.Return(value=s.value.args[0]))
            else:
                out.append(s)
        return out

    table_atoms = dict(OBJ("tbl"))
    table_atoms["tbl.cols()"] = ("tbl_cols", "list[col]")
    table_atoms.update(COL_ATOMS("col"))
    table_params = (f"{{γ ν : Type}} (kindName : Kind → String) (MAX_HEAD_COLS : Nat) {COL_PARAMS}\n    {NAME_PARAMS}\n"
                    "    (str_lower : String → String) (needs_quote : String → Bool) (py_repr : String → String)\n"
                    f"    (str_replace : String → String → String → String) {OBJ_PARAMS('tbl')} (tbl_cols : List γ)")

    def table_slice(name, targets, doc, ret, footer=False):
        def go():
            f, body = table_body()
            if footer:
                stmts = body[:-3] + leaf_to_return([body[-2]])
                sl, _ = slice_stmts(stmts, set())
                k = None
            else:
                stmts = body[:-3]
                # a slice for variables: the early `return` of the empty table is outside of it
                stmts = [s for s in stmts if not (isinstance(s, ast.If) and exits(s.body) and not s.orelse)]
                # the value right after the last statement that assigns one of the targets
                last = max(i for i, s in enumerate(stmts) if set(mutated([s])) & set(targets))
                stmts = stmts[:last + 1]
                if any(isinstance(n, ast.Return) for s in stmts for n in ast.walk(s)):
                    raise TranslateError("_repr_table: return inside the sliced part")
                # the targets must not be touched after the sliced part
                sl, _ = slice_stmts(stmts, set(targets))
                k = lambda e, j: [" " * j + ("(" + ", ".join(targets) + ")" if len(targets) > 1 else targets[0])]
            need = {"_footer", "_compute_headers", "_header_rows"} & {n.id for s in sl for n in ast.walk(s) if isinstance(n, ast.Name)}
            for n in need:
                if n not in funcs:
                    raise TranslateError(f"{n} is not translated")
            tr = Tr({n: funcs[n] for n in need}, consts=consts)
            env = Env(atoms=table_atoms)
            lines = tr.block(sl, env, k, 2)
            if not footer:
                for t in targets:
                    later = [s for s in body[body.index(stmts[-1]) + 1:] if t in mutated([s])]
                    if later:
                        raise TranslateError(f"_repr_table: {t} changed later")
            return (f"/-- {doc}\n    The statements of `display._repr_table` this value depends on, in source order:\n" + quote(sl) + " -/\n"
                    f"def {name} {table_params} : {ret} :=\n" + "\n".join(lines))
        attempt("_repr_table/" + name, go)

    table_slice("colIndicesT", ["truncated", "col_indices"], "`truncated` and `col_indices` of `_repr_table` (for a table with at least one column).",
                "Bool × List Nat")
    table_slice("tableShowTypesT", ["header_rows", "show_types_in_header"],
                "`header_rows, show_types_in_header` of `_repr_table` (for a table with at least one column): `_compute_headers` on the\n"
                "    displayed columns, the `...` column inserted, `_header_rows`.", "List (List String) × Bool")
    table_slice("tableFooterT", [], "The last line `_repr_table` prints, the footer (`lines.append(X)` … `return '\\n'.join(lines)` read as `X`); for a table\n"
                "    without columns the whole output.", "String", footer=True)

    # ---- _repr_vector ------------------------------------------------------------------------------------------------
    def repr_vector():
        if "_footer" not in funcs:
            raise TranslateError("_footer is not translated")
        f = find_func(tree, "_repr_vector")
        check_args(f, ["v"])
        body = strip_doc(f.body)
        if u(body[-1]) != "return '\\n'.join(lines)":
            raise TranslateError("_repr_vector: last statement")
        body = body[:-1] + [ast.Return(value=ast.Name(id="lines", ctx=ast.Load()))]
        tr = Tr({"_footer": funcs["_footer"]}, hints={"lines": "list[str]"}, consts=consts)
        tr.find_cond_vars(f, None)
        atoms = dict(OBJ("v"))
        atoms["v._name"] = ("v_name", "name")
        atoms["_format_column(v)"] = ("formatted_v", "list[str]")
        env = Env(atoms=atoms)
        lines = tr.block(body, env, None, 2)
        return ("/-- translated from `display._repr_vector`; the result is the list `lines` (the function returns `'\\n'.join(lines)`);\n"
                "    `formatted_v` is `_format_column(v)`, `name_text` is the name as text (`v._name` where it is used as a string):\n" + quote(f) + " -/\n"
                f"def reprVectorT {{ν : Type}} (kindName : Kind → String) (MAX_HEAD_COLS : Nat) (name_truthy : ν → Bool) (needs_quote : ν → Bool)\n"
                "    (py_repr : ν → String) (name_text : ν → String) (str_ljust str_rjust : String → Nat → String)\n"
                f"    {OBJ_PARAMS('v')} (v_name : ν) (formatted_v : List String) : List String :=\n" + "\n".join(lines))
    attempt("_repr_vector", repr_vector)

    # ---- _printr -----------------------------------------------------------------------------------------------------
    def printr():
        if "_footer" not in funcs:
            raise TranslateError("_footer is not translated")
        f = find_func(tree, "_printr")
        check_args(f, ["pv"])
        tr = Tr({"_footer": funcs["_footer"]}, consts=consts)
        atoms = dict(OBJ("pv"))
        atoms["_repr_vector(pv)"] = ("repr_vector_pv", "str")
        atoms["_repr_table(pv)"] = ("repr_table_pv", "str")
        lines = tr.block(f.body, Env(atoms=atoms), None, 2)
        return ("/-- translated from `display._printr` (`repr_vector_pv` = `_repr_vector(pv)`, `repr_table_pv` = `_repr_table(pv)`):\n" + quote(f) + " -/\n"
                f"def printrT (kindName : Kind → String) (MAX_HEAD_COLS : Nat) {OBJ_PARAMS('pv')}\n"
                "    (repr_vector_pv repr_table_pv : String) : String :=\n" + "\n".join(lines))
    attempt("_printr", printr)
    return results


PREAMBLE = '''/- GENERATED by harness/tr/reprfooter.py from /repo's working tree — do not edit.
   Footers, column selection and header rows of repr (display.py: _footer, _compute_headers, _is_structural_change, _header_rows,
   slices of _repr_table, _repr_vector, _printr; typing.py: DataType.__repr__; vector.py: Vector.shape), translated statement by statement.
   Equivalence theorems in Serif/Tie/ReprFooter.lean. -/
import Serif.Prelude

set_option linter.unusedVariables false

namespace Serif.Gen.TF
open Serif

/-! fixed vocabulary (not generated from the source): the Python list / string operations the translated statements use -/

/-- `sep.join(l)` -/
def pyJoin (sep : String) (l : List String) : String := sep.intercalate l

/-- `l[-n:]` for `n ≥ 0` (`l[-0:]` is `l[0:]`, the whole list) -/
def pyLastN {α : Type} (n : Nat) (l : List α) : List α := if n == 0 then l else l.drop (l.length - n)

/-- `list(range(a, b))` -/
def pyRange (a b : Nat) : List Nat := (List.range (b - a)).map (· + a)

/-- `l.insert(i, x)` for `i ≥ 0` -/
def pyInsert {α : Type} (i : Nat) (x : α) (l : List α) : List α := l.take i ++ x :: l.drop i

/-- the list behind an optional list when it is truthy (neither `None` nor empty) -/
def pyNonEmpty? {α : Type} : Option (List α) → Option (List α)
  | some (a :: l) => some (a :: l)
  | _ => none

/-- `s.endswith(c)` for a one-character `c` -/
def pyEndsWith (s : String) (c : Char) : Bool := s.toList.getLast? == some c

/-- `max(l)` of a non-empty sequence of lengths -/
def pyMax (l : List Nat) : Nat := l.foldl max 0

/-! the translated definitions -/

'''


def generate(src_dir):
    parts, errors = [], []
    try:
        dsrc = open(os.path.join(src_dir, "display.py")).read()
        tsrc = open(os.path.join(src_dir, "typing.py")).read()
        vsrc = open(os.path.join(src_dir, "vector.py")).read()
        results = translate_all(dsrc, tsrc, vsrc)
    except Exception as ex:
        results = [("reprfooter", None, f"{type(ex).__name__}: {ex}")]
    for what, text, err in results:
        if text is None:
            errors.append((what, err))
            parts.append(f"-- {what}: not translated ({err.split(':')[0]})")
        else:
            parts.append(text)
    return PREAMBLE + "\n\n".join(parts) + "\n\nend Serif.Gen.TF\n", errors


if __name__ == "__main__":
    import sys
    text, errors = generate(sys.argv[1] if len(sys.argv) > 1 else "/repo/src/serif")
    sys.stdout.write(text)
    for e in errors:
        print("-- ERROR", e, file=sys.stderr)
