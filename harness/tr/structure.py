"""Translator plug-in: the structural table operations (C02, and rename_columns of C08).

Reads, with `ast`, the current text of
    table.py   Table.rename_columns, _missing_col_error, Table.T, Table.__lshift__, Table.__rshift__, Table.__iter__,
               Row.__init__ / set_index / _underlying / __getitem__ / __iter__, Table.__init__ (`self._dtype = None`)
    vector.py  Vector.__new__ (the Table dispatch), Vector.__lshift__ (values), Vector.cols
and writes lean/Serif/Gen/TranslatedStructure.lean; lean/Serif/Tie/Structure.lean proves the translated definitions equal to
the models of Model/Tab.lean and Model/Assign.lean (renameColumns) for every table.

How a function is translated.  Every function is walked statement by statement, in source order; every statement becomes one
Lean step (a `let`, an `if … then .error …`, a `match`, a loop combinator applied to the translated loop body), preceded by the
Python statement as a `--` comment.  Three things are really *translated* from the AST (an edit changes the generated text, and
then a theorem of the tie stops checking):
    * the class of every raised exception (`raise C(...)`, `return C(...)` in _missing_col_error) -> `Err.<class>`;
    * the guard of every `if <guard>: raise …` (lengths, `!=` / `==`, `and`, truthiness of `self._underlying`);
    * the conjuncts of the two type-safety refusals (`X is not None`, `not X.nullable`, `X.kind != Y.kind`), plain assignments
      of lengths (`num_rows = self._length`), and `self._dtype = None` in Table.__init__.
Everything else (comprehensions, loops, `zip`, `Vector(...)` / `Table(...)` calls, the isinstance dispatch) is a shape-checked
transcription: `ast.unparse` of the statement -- docstrings dropped, the arguments of `raise C(...)` and of `warnings.warn(...)`
dropped, so comments, blank lines, docstrings and message texts do not matter -- must be literally the understood text, else
TranslateError (the definition is then replaced by a comment and the tie module stops building: `translation_tie: unavailable`).
A renamed local variable or parameter therefore makes the translator refuse; that is deliberate.

Parameters of the generated definitions (not re-implemented): `x << y` on columns inside Table.__lshift__ (instantiated in the
tie with the translated Vector.__lshift__), `len(self.shape)`, `bool(self)`, `other.schema()`, the more-than-2-D branch of `T`,
`len(self)` in `__iter__`, `_build_column_map`, names (no effect on cells), the dtype given to `Vector(values, dtype=…)`.
"""
import ast, copy, os

import py2lean
from py2lean import TranslateError, find_func

GEN_FILE = "TranslatedStructure.lean"
TIE = {"Serif.Tie.Structure": ["C02", "C08"]}

ERR = {"SerifValueError": "value", "ValueError": "value", "SerifKeyError": "key", "KeyError": "key",
       "SerifTypeError": "type", "TypeError": "type", "SerifIndexError": "index", "IndexError": "index"}


# ---------------------------------------------------------------------------------------------
# normalised statement text
# ---------------------------------------------------------------------------------------------
class _Norm(ast.NodeTransformer):
    """drop what does not matter for behaviour: docstrings, the arguments of raised exceptions and of warnings.warn"""

    def _body(self, body):
        out = [s for s in body if not (isinstance(s, ast.Expr) and isinstance(s.value, ast.Constant) and isinstance(s.value.value, str))]
        return out or [ast.Pass()]

    def generic_visit(self, node):
        node = super().generic_visit(node)
        for f in ("body", "orelse", "finalbody"):
            v = getattr(node, f, None)
            if isinstance(v, list) and v and isinstance(v[0], ast.stmt):
                setattr(node, f, self._body(v))
        return node

    def visit_Raise(self, node):
        if isinstance(node.exc, ast.Call) and isinstance(node.exc.func, ast.Name):
            return ast.Raise(exc=ast.Call(func=node.exc.func, args=[], keywords=[]), cause=None)
        return node

    def visit_Call(self, node):
        node = self.generic_visit(node)
        if ast.unparse(node.func) == "warnings.warn":
            return ast.Call(func=node.func, args=[], keywords=[])
        return node


def norm(node):
    n = _Norm().visit(copy.deepcopy(node))
    return ast.unparse(ast.fix_missing_locations(n))


def body_of(fn):
    """the statements of a function without docstring / local imports (normalised copies are made on demand)"""
    out = []
    for s in fn.body:
        if isinstance(s, ast.Expr) and isinstance(s.value, ast.Constant) and isinstance(s.value.value, str):
            continue
        out.append(s)
    return out


_CANON = {}


def C(text):
    """the understood text as this Python version's `ast.unparse` writes it (tuple targets are parenthesised or not, …)"""
    if text not in _CANON:
        try:
            _CANON[text] = ast.unparse(ast.parse(text))
        except SyntaxError:
            _CANON[text] = text
    return _CANON[text]


def want(what, got, expected):
    g = norm(got) if not isinstance(got, str) else got
    expected = C(expected)
    if g != expected:
        raise TranslateError(f"{what}: statement differs from the understood shape: {g[:110]!r} (expected {expected[:80]!r})")


def want_list(what, stmts, expected):
    if len(stmts) != len(expected):
        raise TranslateError(f"{what}: {len(stmts)} statements, {len(expected)} understood: "
                             + " | ".join(norm(s).split(chr(10))[0][:40] for s in stmts))
    for s, e in zip(stmts, expected):
        want(what, s, e)


def args_of(what, fn, expected):
    got = [a.arg for a in fn.args.args]
    if got != expected or fn.args.vararg or fn.args.kwarg or fn.args.kwonlyargs:
        raise TranslateError(f"{what}: parameters {got}, understood {expected}")


def err_of(what, node):
    """`raise C(...)` -> Lean `Err.<c>`"""
    if not (isinstance(node, ast.Raise) and isinstance(node.exc, ast.Call) and isinstance(node.exc.func, ast.Name)):
        raise TranslateError(f"{what}: not a `raise C(...)`: {ast.unparse(node)[:60]}")
    c = node.exc.func.id
    if c not in ERR:
        raise TranslateError(f"{what}: unknown exception class {c}")
    return "Err." + ERR[c]


def show(node_or_text):
    """one-line Python text for the comments of the generated file"""
    import re
    t = node_or_text if isinstance(node_or_text, str) else norm(node_or_text)
    t = re.sub(r"raise (\w+)\(\)", "raise \\1(…)", t).replace("warnings.warn()", "warnings.warn(…)")
    return t.replace("\n    ", " ")


def if_raise(what, s, env, truthy=None):
    """`if <guard>: raise C(...)` -> (guard in Lean, Err, guard text)"""
    if not (isinstance(s, ast.If) and not s.orelse and len(s.body) == 1 and isinstance(s.body[0], ast.Raise)):
        raise TranslateError(f"{what}: expected `if …: raise …`, got {norm(s)[:70]!r}")
    return guard(what, s.test, env, truthy or {}), err_of(what, s.body[0]), show(s)


def term(what, node, env):
    txt = ast.unparse(node)
    if txt in env:
        return env[txt]
    if isinstance(node, ast.Call) and isinstance(node.func, ast.Name) and node.func.id == "len" and len(node.args) == 1 and not node.keywords:
        return term(what, node.args[0], env) + ".length"
    if isinstance(node, ast.Constant) and isinstance(node.value, int) and not isinstance(node.value, bool) and node.value >= 0:
        return str(node.value)
    raise TranslateError(f"{what}: term {txt[:60]!r} not understood")


def guard(what, node, env, truthy):
    txt = ast.unparse(node)
    if txt in truthy:
        return truthy[txt]
    if isinstance(node, ast.BoolOp):
        op = " && " if isinstance(node.op, ast.And) else " || "
        parts = [guard(what, v, env, truthy) for v in node.values]
        return op.join(parts) if isinstance(node.op, ast.And) else "(" + op.join(parts) + ")"
    if isinstance(node, ast.Compare) and len(node.ops) == 1:
        op = {ast.NotEq: "!=", ast.Eq: "=="}.get(type(node.ops[0]))
        if op is None:
            raise TranslateError(f"{what}: comparison {txt[:60]!r} not understood")
        return f"{term(what, node.left, env)} {op} {term(what, node.comparators[0], env)}"
    raise TranslateError(f"{what}: guard {txt[:60]!r} not understood")


def mismatch(what, test, a_txt, b_txt, a, b):
    """the type-safety refusal: a conjunction of `X is not None`, `not X.nullable`, `X.kind != Y.kind` over the two optional
    dtypes A (`a_txt`) and B (`b_txt`); every use of X must come after `X is not None` (short-circuit)."""
    if not (isinstance(test, ast.BoolOp) and isinstance(test.op, ast.And)):
        raise TranslateError(f"{what}: refusal test is not a conjunction")
    names = {a_txt: a, b_txt: b}
    known, conj = set(), []
    for v in test.values:
        t = ast.unparse(v)
        done = False
        for x in names:
            if t == f"{x} is not None":
                known.add(x); done = True
        if done:
            continue
        if isinstance(v, ast.UnaryOp) and isinstance(v.op, ast.Not) and isinstance(v.operand, ast.Attribute) \
                and v.operand.attr == "nullable" and ast.unparse(v.operand.value) in known:
            conj.append(f"!{names[ast.unparse(v.operand.value)]}.nullable"); continue
        if isinstance(v, ast.Attribute) and v.attr == "nullable" and ast.unparse(v.value) in known:
            conj.append(f"{names[ast.unparse(v.value)]}.nullable"); continue
        if isinstance(v, ast.Compare) and len(v.ops) == 1 and type(v.ops[0]) in (ast.NotEq, ast.Eq) \
                and isinstance(v.left, ast.Attribute) and isinstance(v.comparators[0], ast.Attribute) \
                and v.left.attr == "kind" and v.comparators[0].attr == "kind" \
                and ast.unparse(v.left.value) in known and ast.unparse(v.comparators[0].value) in known:
            op = "!=" if isinstance(v.ops[0], ast.NotEq) else "=="
            conj.append(f"{names[ast.unparse(v.left.value)]}.kind {op} {names[ast.unparse(v.comparators[0].value)]}.kind"); continue
        raise TranslateError(f"{what}: conjunct {t[:60]!r} of the refusal test not understood (or used before its `is not None`)")
    if known != set(names):
        raise TranslateError(f"{what}: the refusal test does not guard both dtypes with `is not None`")
    return " && ".join(conj) if conj else "true"


# ---------------------------------------------------------------------------------------------
# fixed support text
# ---------------------------------------------------------------------------------------------
SUPPORT = r'''/-! ### support: Python's control flow and sequence built-ins on lists (fixed text) -/

/-- a column name (`None` or the id of a name object; `==` on names is equality of ids) -/
abbrev Name := Option Nat

/-- a table seen through its cells: the cells of every column, and `_length` -/
structure Tbl (α : Type) where
  cols : List (List α)
  length : Nat
  deriving Repr, DecidableEq

/-- `seq[i]` for an index `0 ≤ i`: IndexError beyond the end -/
def getItem {α : Type} (seq : List α) (i : Nat) : Except Err α :=
  match seq[i]? with
  | some x => .ok x
  | none => .error Err.index

/-- `seq.index(x)`: position of the first element equal to `x`; `none` = ValueError -/
def listIndex {α : Type} [BEq α] (seq : List α) (x : α) : Option Nat := seq.findIdx? (fun y => y == x)

/-- `tuple(f(x) for x in xs)` / `[f(x) for x in xs]`: elements evaluated in order, the first exception propagates -/
def genE {α β : Type} (f : α → Except Err β) : List α → Except Err (List β)
  | [] => .ok []
  | x :: xs =>
    match f x with
    | .error e => .error e
    | .ok y =>
      match genE f xs with
      | .error e => .error e
      | .ok ys => .ok (y :: ys)

/-- `for x in xs: <body>` with the loop-carried variables as state `s`: the first exception leaves the loop -/
def forE {σ α : Type} (body : σ → α → Except Err σ) : List α → σ → Except Err σ
  | [], s => .ok s
  | x :: xs, s =>
    match body s x with
    | .error e => .error e
    | .ok s' => forE body xs s'

/-- `for x in it: <body>` over an iterable that delivers the items `xs` but raises (some exception, `Err.other`) instead of
    delivering item number `raiseAt`; returns the exception (if any) and the loop-carried state at that moment -/
def forRaising {σ α : Type} (raiseAt : Option Nat) (body : σ → α → Except Err σ) : Nat → List α → σ → Option Err × σ
  | _, [], s => (none, s)
  | j, x :: xs, s =>
    if raiseAt = some j then (some Err.other, s) else
    match body s x with
    | .error e => (some e, s)
    | .ok s' => forRaising raiseAt body (j + 1) xs s'

/-- `zip(a, b, strict=True)` consumed completely: ValueError when the lengths differ -/
def zipStrict {α β : Type} (a : List α) (b : List β) : Except Err (List (α × β)) :=
  if a.length != b.length then .error Err.value else .ok (a.zip b)

/-- `len({x for x in xs})`: the number of distinct elements -/
def distinct : List Nat → List Nat
  | [] => []
  | x :: xs => x :: (distinct xs).filter (fun y => y != x)'''

MKTABLE = r'''/-- `Table(initial)` on the cells of the given columns: the length validation of `Table.__init__` as translated in
    Serif/Gen/TranslatedTab.lean (`_length` = length of the first column, SerifValueError when a column differs); the
    columns are copied cell by cell -/
def mkTable {α : Type} (initial : List (List α)) : Except Err (Tbl α) :=
  match Serif.Gen.TT.tableInitLengthT (initial.map List.length) with
  | .error e => .error e
  | .ok length => .ok { cols := initial, length := length }'''

ITER_NOT_STR = "isinstance(other, Iterable) and (not isinstance(other, (str, bytes, bytearray)))"


# ---------------------------------------------------------------------------------------------
# Table.rename_columns
# ---------------------------------------------------------------------------------------------
def translate_rename(ttree):
    what = "Table.rename_columns"
    f = find_func(ttree, "rename_columns", "Table")
    args_of(what, f, ["self", "old_names", "new_names"])
    st = body_of(f)
    if len(st) != 6:
        raise TranslateError(f"{what}: {len(st)} statements, 6 understood")
    g0, e0, t0 = if_raise(what, st[0], {"old_names": "old_names", "new_names": "new_names"})
    want(what, st[1], "simulated = [col._name for col in self._underlying]")
    # simulation loop
    lp = st[2]
    if not (isinstance(lp, ast.For) and not lp.orelse and norm(lp.target) == C("(old, new)") and norm(lp.iter) == C("zip(old_names, new_names)")
            and len(lp.body) == 2):
        raise TranslateError(f"{what}: simulation loop header/shape: {norm(lp)[:80]!r}")
    tr = lp.body[0]
    if not (isinstance(tr, ast.Try) and len(tr.body) == 1 and norm(tr.body[0]) == C("idx = simulated.index(old)") and len(tr.handlers) == 1
            and tr.handlers[0].type is not None and norm(tr.handlers[0].type) == C("ValueError") and tr.handlers[0].name is None
            and len(tr.handlers[0].body) == 1 and not tr.orelse and not tr.finalbody):
        raise TranslateError(f"{what}: try/except of the simulation loop: {norm(tr)[:100]!r}")
    rs = tr.handlers[0].body[0]
    if isinstance(rs, ast.Raise) and isinstance(rs.exc, ast.Call) and norm(rs.exc) == C("_missing_col_error(old)"):
        mf = find_func(ttree, "_missing_col_error")
        mb = body_of(mf)
        if not (len(mb) == 1 and isinstance(mb[0], ast.Return) and isinstance(mb[0].value, ast.Call) and isinstance(mb[0].value.func, ast.Name)
                and mb[0].value.func.id in ERR):
            raise TranslateError("_missing_col_error: not a single `return <Error>(...)`")
        e1 = "Err." + ERR[mb[0].value.func.id]
        t1 = f"raise _missing_col_error(old)   [returns {mb[0].value.func.id}(…)]"
    else:
        e1 = err_of(what, rs)
        t1 = show(rs)
    want(what, lp.body[1], "simulated[idx] = new")
    # apply loop
    want(what, st[3], "for (old, new) in zip(old_names, new_names):\n    for col in self._underlying:\n        if col._name == old:\n"
                      "            col._name = new\n            break")
    want(what, st[4], "self._column_map = self._build_column_map()")
    want(what, st[5], "return self")
    return [
        "/-! ### Table.rename_columns -/",
        "/-- translated from the inner loop of `Table.rename_columns`\n"
        "    `for col in self._underlying:` / `if col._name == old:` / `col._name = new` / `break`\n"
        "    (`names` are the `_name`s of `self._underlying` in order; the result are the names after the loop) -/\n"
        "def renameFirstT (old new : Name) : List Name → List Name\n"
        "  | [] => []\n"
        "  | col_name :: rest =>\n"
        "    -- if col._name == old:\n"
        "    if col_name == old then\n"
        "      -- col._name = new ; break\n"
        "      new :: rest\n"
        "    else col_name :: renameFirstT old new rest",
        "/-- translated from one iteration of the simulation loop of `Table.rename_columns` (`simulated` is the loop-carried list) -/\n"
        "def renameSimStepT (simulated : List Name) (p : Name × Name) : Except Err (List Name) :=\n"
        "  let old := p.1\n"
        "  let new := p.2\n"
        f"  -- try: idx = simulated.index(old) / except ValueError: {t1}\n"
        "  match listIndex simulated old with\n"
        f"  | none => .error {e1}\n"
        "  | some idx =>\n"
        "    -- simulated[idx] = new\n"
        "    .ok (simulated.set idx new)",
        "/-- translated from one iteration of the apply loop of `Table.rename_columns` (`names` are the `_name`s of the columns) -/\n"
        "def renameApplyStepT (names : List Name) (p : Name × Name) : Except Err (List Name) :=\n"
        "  let old := p.1\n"
        "  let new := p.2\n"
        "  -- for col in self._underlying: if col._name == old: col._name = new; break\n"
        "  .ok (renameFirstT old new names)",
        "/-- translated from `Table.rename_columns(self, old_names, new_names)`.\n"
        "    `old_names`, `new_names`: the items the two arguments hold (`len()` is the number of items); `raiseAt`: iterating\n"
        "    `zip(old_names, new_names)` raises instead of delivering pair number `raiseAt`; `names` = `[col._name for col in\n"
        "    self._underlying]`.  Result: the exception (if any) and the column names afterwards. -/\n"
        "def renameColumnsT (old_names new_names : List Name) (raiseAt : Option Nat) (names : List Name) : Option Err × List Name :=\n"
        f"  -- {t0}\n"
        f"  if {g0} then (some {e0}, names) else\n"
        "  -- simulated = [col._name for col in self._underlying]\n"
        "  let simulated := names\n"
        "  -- for (old, new) in zip(old_names, new_names): <renameSimStepT>\n"
        "  match forRaising raiseAt renameSimStepT 0 (old_names.zip new_names) simulated with\n"
        "  | (some e, _) => (some e, names)\n"
        "  | (none, simulated) =>\n"
        "    -- for (old, new) in zip(old_names, new_names): <renameApplyStepT>\n"
        "    forRaising raiseAt renameApplyStepT 0 (old_names.zip new_names) names\n"
        "    -- self._column_map = self._build_column_map() ; return self     [no effect on the names]",
    ]


# ---------------------------------------------------------------------------------------------
# Vector.__new__ (Table dispatch)
# ---------------------------------------------------------------------------------------------
def translate_vector_new(vtree):
    what = "Vector.__new__"
    f = find_func(vtree, "__new__", "Vector")
    if [a.arg for a in f.args.args][:2] != ["cls", "initial"]:
        raise TranslateError(f"{what}: parameters")
    st = body_of(f)
    want_list(what + " (head)", st[:4], [
        "_precomputed_data = None",
        "if isinstance(initial, Iterator):\n    initial = tuple(initial)\n    _precomputed_data = initial",
        "has_items = len(initial) > 0 if isinstance(initial, Vector) else bool(initial)",
        "if has_items and all((isinstance(x, Vector) for x in initial)):\n    if len({len(x) for x in initial}) == 1:\n"
        "        from .table import Table\n        return Table(initial=initial, dtype=dtype, name=name, as_row=as_row)\n    warnings.warn()",
    ])
    return [
        "/-! ### Vector.__new__ (the Table dispatch) -/",
        "/-- translated from the head of `Vector.__new__(cls, initial, …)` for an `initial` that is a tuple / list of Vectors (given by\n"
        "    their cells): `some t` = the Table that is returned, `none` = no Table (empty Vector, or a nested Vector after the warning) -/\n"
        "def vectorOfVectorsT {α : Type} (initial : List (List α)) : Except Err (Option (Tbl α)) :=\n"
        "  -- has_items = len(initial) > 0 if isinstance(initial, Vector) else bool(initial)\n"
        "  let has_items := !initial.isEmpty\n"
        "  -- if has_items and all((isinstance(x, Vector) for x in initial)):\n"
        "  if has_items then\n"
        "    -- if len({len(x) for x in initial}) == 1:\n"
        "    if (distinct (initial.map List.length)).length == 1 then\n"
        "      -- return Table(initial=initial, dtype=dtype, name=name, as_row=as_row)\n"
        "      match mkTable initial with\n"
        "      | .error e => .error e\n"
        "      | .ok t => .ok (some t)\n"
        "    else\n"
        "      -- warnings.warn(…)\n"
        "      .ok none\n"
        "  else .ok none",
    ]


# ---------------------------------------------------------------------------------------------
# Table.T
# ---------------------------------------------------------------------------------------------
def translate_T(ttree):
    what = "Table.T"
    f = find_func(ttree, "T", "Table")
    if [norm(d) for d in f.decorator_list] != ["property"]:
        raise TranslateError(f"{what}: not a plain property")
    args_of(what, f, ["self"])
    st = body_of(f)
    if len(st) != 2 or not (isinstance(st[0], ast.If) and not st[0].orelse):
        raise TranslateError(f"{what}: expected `if …: …` and a final return")
    env = {"len(self.shape)": "shape_len", "self._length": "self_length", "self._underlying": "self_cols"}
    g = guard(what, st[0].test, env, {})
    b = body_of(st[0])
    if len(b) != 5:
        raise TranslateError(f"{what}: 2-D branch has {len(b)} statements, 5 understood")
    lets = []
    for s, name in zip(b[:2], ["num_rows", "num_cols"]):
        if not (isinstance(s, ast.Assign) and len(s.targets) == 1 and norm(s.targets[0]) == name):
            raise TranslateError(f"{what}: expected an assignment to {name}: {norm(s)[:60]!r}")
        lets.append((norm(s), name, term(what, s.value, env)))
    want(what, b[2], "rows = []")
    want(what, b[3], "for row_idx in range(num_rows):\n    row = Vector(tuple((col[row_idx] for col in self._underlying)))\n    rows.append(row)")
    want(what, b[4], "return Table(rows)")
    want(what, st[1], "return self.copy(tuple((x.T for x in self)))")
    return [
        "/-! ### Table.T -/",
        "/-- translated from one iteration of the row loop of `Table.T` (`rows` is the loop-carried list) -/\n"
        "def transposeStepT {α : Type} (self_cols : List (List α)) (rows : List (List α)) (row_idx : Nat) : Except Err (List (List α)) :=\n"
        "  -- row = Vector(tuple((col[row_idx] for col in self._underlying)))\n"
        "  match genE (fun col => getItem col row_idx) self_cols with\n"
        "  | .error e => .error e\n"
        "  | .ok row =>\n"
        "    -- rows.append(row)\n"
        "    .ok (rows ++ [row])",
        "/-- translated from the property `Table.T`.  `shape_len` = `len(self.shape)`; `higher` = the value of\n"
        "    `self.copy(tuple((x.T for x in self)))` (more than two dimensions: not translated, a parameter) -/\n"
        "def transposeT {α : Type} (shape_len : Nat) (self_cols : List (List α)) (self_length : Nat) (higher : Except Err (Tbl α)) :\n"
        "    Except Err (Tbl α) :=\n"
        f"  -- if {norm(st[0].test)}:\n"
        f"  if {g} then\n"
        + "".join(f"    -- {t}\n    let {n} := {v}\n" for t, n, v in lets) +
        "    -- rows = []\n"
        "    let rows : List (List α) := []\n"
        "    -- for row_idx in range(num_rows): <transposeStepT>\n"
        "    match forE (transposeStepT self_cols) (List.range num_rows) rows with\n"
        "    | .error e => .error e\n"
        "    | .ok rows =>\n"
        "      -- return Table(rows)\n"
        "      mkTable rows\n"
        "  else\n"
        "    -- return self.copy(tuple((x.T for x in self)))\n"
        "    higher",
    ]


# ---------------------------------------------------------------------------------------------
# Vector.__lshift__ (values), Vector.cols, Table.__lshift__
# ---------------------------------------------------------------------------------------------
WARN_SHIFT = ("if self._dtype is not None and self._dtype.kind in (bool, int) and isinstance(other, int):\n    warnings.warn()")


def translate_vec_lshift(vtree):
    what = "Vector.__lshift__"
    f = find_func(vtree, "__lshift__", "Vector")
    args_of(what, f, ["self", "other"])
    st = body_of(f)
    if len(st) != 5:
        raise TranslateError(f"{what}: {len(st)} statements, 5 understood")
    want(what, st[0], WARN_SHIFT)
    a = st[1]
    if not (isinstance(a, ast.If) and not a.orelse and norm(a.test) == C("isinstance(other, Vector)") and len(body_of(a)) == 3):
        raise TranslateError(f"{what}: Vector branch: {norm(a)[:80]!r}")
    ab = body_of(a)
    if not (isinstance(ab[0], ast.If) and not ab[0].orelse and len(ab[0].body) == 1):
        raise TranslateError(f"{what}: refusal of the Vector branch")
    mm = mismatch(what, ab[0].test, "self._dtype", "other.schema()", "self_dtype", "other_schema")
    e = err_of(what, ab[0].body[0])
    want(what, ab[1], "values = (*self._underlying, *other._underlying)")
    want(what, ab[2], "return Vector(values, dtype=infer_dtype(values) if values else self._dtype)")
    want(what, st[2], f"if {ITER_NOT_STR}:\n    values = (*self._underlying, *other)\n"
                      "    return Vector(values, dtype=infer_dtype(values) if values else self._dtype)")
    want(what, st[3], "values = self._underlying + (other,)")
    want(what, st[4], "return Vector(values, dtype=infer_dtype(values))")
    return [
        "/-! ### Vector.__lshift__ (values) -/",
        "/-- the right operand of `column << other`, classified by the `isinstance` tests of `Vector.__lshift__` -/\n"
        "inductive VOther (α : Type) where\n"
        "  /-- `isinstance(other, Vector)`: its cells and `other.schema()` -/\n"
        "  | vector (data : List α) (schema : Option DType)\n"
        "  /-- another `Iterable` that is not str / bytes / bytearray: the items it delivers -/\n"
        "  | iterable (items : List α)\n"
        "  /-- anything else: one value -/\n"
        "  | scalar (x : α)",
        "/-- translated from the test of the refusal in `Vector.__lshift__`:\n"
        f"    `{norm(ab[0].test)}` -/\n"
        "def vecLshiftMismatchT (self_dtype other_schema : Option DType) : Bool :=\n"
        "  match self_dtype, other_schema with\n"
        f"  | some self_dtype, some other_schema => {mm}\n"
        "  | _, _ => false",
        "/-- translated from `Vector.__lshift__(self, other)` (the values of the result; `self_data` = `self._underlying`,\n"
        "    `self_dtype` = `self._dtype`; the dtype of the result is `infer_dtype(values)`, see Serif/Tie/Typing.lean) -/\n"
        "def vecLshiftT {α : Type} (self_data : List α) (self_dtype : Option DType) (other : VOther α) : Except Err (List α) :=\n"
        "  match other with\n"
        "  -- if isinstance(other, Vector):\n"
        "  | .vector other_data other_schema =>\n"
        f"    -- if <vecLshiftMismatchT>: {show(ab[0].body[0])}\n"
        f"    if vecLshiftMismatchT self_dtype other_schema then .error {e} else\n"
        "    -- values = (*self._underlying, *other._underlying)\n"
        "    let values := self_data ++ other_data\n"
        "    -- return Vector(values, dtype=infer_dtype(values) if values else self._dtype)\n"
        "    .ok values\n"
        f"  -- if {ITER_NOT_STR}:\n"
        "  | .iterable items =>\n"
        "    -- values = (*self._underlying, *other)\n"
        "    let values := self_data ++ items\n"
        "    -- return Vector(values, dtype=infer_dtype(values) if values else self._dtype)\n"
        "    .ok values\n"
        "  | .scalar x =>\n"
        "    -- values = self._underlying + (other,)\n"
        "    let values := self_data ++ [x]\n"
        "    -- return Vector(values, dtype=infer_dtype(values))\n"
        "    .ok values",
    ]


def check_cols(vtree, ttree):
    """`self.cols()` is `self._underlying` (Vector.cols with key=None; Table does not override it)"""
    f = find_func(vtree, "cols", "Vector")
    args_of("Vector.cols", f, ["self", "key"])
    if not (len(f.args.defaults) == 1 and norm(f.args.defaults[0]) == C("None")):
        raise TranslateError("Vector.cols: default of key")
    want_list("Vector.cols", body_of(f), ["if isinstance(key, int):\n    return self._underlying[key]",
                                           "if isinstance(key, slice):\n    return self._underlying[key]", "return self._underlying"])
    for node in ast.walk(ttree):
        if isinstance(node, ast.ClassDef) and node.name == "Table":
            if any(isinstance(s, ast.FunctionDef) and s.name == "cols" for s in node.body):
                raise TranslateError("Table overrides cols()")


def translate_lshift(ttree):
    what = "Table.__lshift__"
    f = find_func(ttree, "__lshift__", "Table")
    args_of(what, f, ["self", "other"])
    st = body_of(f)
    if len(st) != 3:
        raise TranslateError(f"{what}: {len(st)} statements, 3 understood")
    a = st[0]
    if not (isinstance(a, ast.If) and not a.orelse and norm(a.test) == C("isinstance(other, Table)") and len(body_of(a)) == 2):
        raise TranslateError(f"{what}: Table branch: {norm(a)[:80]!r}")
    ab = body_of(a)
    g1, e1, t1 = if_raise(what, ab[0], {"self.cols()": "self_cols", "other.cols()": "other_cols"})
    want(what, ab[1], "return Vector(tuple((x << y for (x, y) in zip(self.cols(), other.cols(), strict=True))))")
    g2, e2, t2 = if_raise(what, st[1], {"self.cols()": "self_cols", "other": "other"})
    want(what, st[2], "return Vector(tuple((x << y for (x, y) in zip(self.cols(), other, strict=True))))")
    return [
        "/-! ### Table.__lshift__ -/",
        "/-- the right operand of `table << other` -/\n"
        "inductive LOther (α β : Type) where\n"
        "  /-- `isinstance(other, Table)`: the cells of its columns -/\n"
        "  | table (cols : List (List α))\n"
        "  /-- anything else: `len(other)` and iteration give these items -/\n"
        "  | items (items : List β)",
        "/-- translated from `Table.__lshift__(self, other)`.  `shiftCol x y` = `x << y` for a column `x` of `self` and a column `y`\n"
        "    of the other table (`Vector.__lshift__`), `shiftItem x y` = `x << y` for an item `y` of `other`; `self_cols` = `self.cols()`.\n"
        "    Result: what `Vector(<tuple of the new columns>)` returns (`none`: not a Table). -/\n"
        "def lshiftT {α β : Type} (shiftCol : List α → List α → Except Err (List α)) (shiftItem : List α → β → Except Err (List α))\n"
        "    (self_cols : List (List α)) (other : LOther α β) : Except Err (Option (Tbl α)) :=\n"
        "  match other with\n"
        "  -- if isinstance(other, Table):\n"
        "  | .table other_cols =>\n"
        f"    -- {t1}\n"
        f"    if {g1} then .error {e1} else\n"
        "    -- return Vector(tuple((x << y for (x, y) in zip(self.cols(), other.cols(), strict=True))))\n"
        "    match zipStrict self_cols other_cols with\n"
        "    | .error e => .error e\n"
        "    | .ok pairs =>\n"
        "      match genE (fun (p : List α × List α) => shiftCol p.1 p.2) pairs with\n"
        "      | .error e => .error e\n"
        "      | .ok new_cols => vectorOfVectorsT new_cols\n"
        "  | .items other =>\n"
        f"    -- {t2}\n"
        f"    if {g2} then .error {e2} else\n"
        "    -- return Vector(tuple((x << y for (x, y) in zip(self.cols(), other, strict=True))))\n"
        "    match zipStrict self_cols other with\n"
        "    | .error e => .error e\n"
        "    | .ok pairs =>\n"
        "      match genE (fun (p : List α × β) => shiftItem p.1 p.2) pairs with\n"
        "      | .error e => .error e\n"
        "      | .ok new_cols => vectorOfVectorsT new_cols",
    ]


# ---------------------------------------------------------------------------------------------
# Table.__rshift__
# ---------------------------------------------------------------------------------------------
def translate_rshift(ttree):
    what = "Table.__rshift__"
    f = find_func(ttree, "__rshift__", "Table")
    args_of(what, f, ["self", "other"])
    st = body_of(f)
    if len(st) != 6:
        raise TranslateError(f"{what}: {len(st)} statements, 6 understood")
    want(what, st[0], WARN_SHIFT)
    # ---- Table.__init__: self._dtype = None
    init = find_func(ttree, "__init__", "Table")
    dts = [norm(s) for s in ast.walk(init) if isinstance(s, (ast.Assign, ast.AugAssign, ast.AnnAssign)) and "self._dtype" in
           [norm(t) for t in (s.targets if isinstance(s, ast.Assign) else [s.target])]]
    if dts != ["self._dtype = None"]:
        raise TranslateError(f"Table.__init__: `self._dtype = None` expected as the only assignment of _dtype, found {dts}")
    # ---- dict branch
    d = st[1]
    if not (isinstance(d, ast.If) and not d.orelse and norm(d.test) == C("isinstance(other, dict)") and len(body_of(d)) == 3):
        raise TranslateError(f"{what}: dict branch: {norm(d)[:80]!r}")
    db = body_of(d)
    want(what, db[0], "named_cols = []")
    lp = db[1]
    if not (isinstance(lp, ast.For) and not lp.orelse and norm(lp.target) == C("(col_name, values)") and norm(lp.iter) == C("other.items()")
            and len(body_of(lp)) == 5):
        raise TranslateError(f"{what}: dict loop header/shape: {norm(lp)[:80]!r}")
    lb = body_of(lp)
    c = lb[0]
    if not (isinstance(c, ast.If) and len(c.orelse) == 1 and isinstance(c.orelse[0], ast.If) and len(c.orelse[0].orelse) == 1
            and norm(c.test) == C("isinstance(values, Vector)") and [norm(s) for s in body_of(c)] == ["col = values.copy()"]
            and norm(c.orelse[0].test) == C("isinstance(values, Iterable) and (not isinstance(values, (str, bytes, bytearray)))")
            and [norm(s) for s in body_of(c.orelse[0])] == ["col = Vector(values)"]):
        raise TranslateError(f"{what}: conversion of a dict value: {norm(c)[:100]!r}")
    e_scalar = err_of(what, c.orelse[0].orelse[0])
    g_len, e_len, t_len = if_raise(what, lb[1], {"col": "col", "self._length": "self_length"}, {"self._underlying": "!self_cols.isEmpty"})
    want(what, lb[2], "col._name = col_name")
    want(what, lb[3], "if _sanitize_user_name(col_name) in self._column_map:\n    warnings.warn()")
    want(what, lb[4], "named_cols.append(col)")
    want(what, db[2], "return Table(tuple(self._underlying) + tuple(named_cols))")
    # ---- Table branch
    t = st[2]
    if not (isinstance(t, ast.If) and not t.orelse and norm(t.test) == C("isinstance(other, Table)") and len(body_of(t)) == 2):
        raise TranslateError(f"{what}: Table branch: {norm(t)[:80]!r}")
    tb = body_of(t)
    if not (isinstance(tb[0], ast.If) and not tb[0].orelse and len(tb[0].body) == 1):
        raise TranslateError(f"{what}: refusal of the Table branch")
    mm = mismatch(what, tb[0].test, "self._dtype", "other.schema()", "self_dtype", "other_schema")
    e_mm = err_of(what, tb[0].body[0])
    want(what, tb[1], "return Vector(self.cols() + other.cols(), dtype=self._dtype)")
    want(what, st[3], "if isinstance(other, Vector):\n    return Vector(self.cols() + (other,), dtype=self._dtype)")
    it = st[4]
    if not (isinstance(it, ast.If) and norm(it.test) == C(ITER_NOT_STR)
            and [norm(s) for s in body_of(it)] == ["return Vector(self.cols() + (Vector(other),), dtype=self._dtype)"]
            and [norm(s) for s in it.orelse] == ["if not self:\n    return Vector((other,), dtype=self._dtype)"]):
        raise TranslateError(f"{what}: iterable / empty-table branch: {norm(it)[:100]!r}")
    e_last = err_of(what, st[5])
    return [
        "/-! ### Table.__rshift__ -/",
        "/-- translated from `Table.__init__`: `self._dtype = None` (the only assignment of `_dtype` there) -/\n"
        "def tableDtypeT : Option DType := none",
        "/-- a value of the dict form `table >> {name: values, …}` -/\n"
        "inductive DictVal (α : Type) where\n"
        "  /-- `isinstance(values, Vector)`: the cells of `values.copy()` -/\n"
        "  | vector (data : List α)\n"
        "  /-- another `Iterable` that is not str / bytes / bytearray: the cells of `Vector(values)` -/\n"
        "  | iterable (data : List α)\n"
        "  /-- anything else -/\n"
        "  | scalar",
        "/-- the right operand of `table >> other`, classified by the `isinstance` tests of `Table.__rshift__` in their order -/\n"
        "inductive ROther (α : Type) where\n"
        "  /-- `isinstance(other, dict)`: `other.items()` -/\n"
        "  | dict (items : List (Name × DictVal α))\n"
        "  /-- `isinstance(other, Table)`: `other.cols()` and `other.schema()` -/\n"
        "  | table (cols : List (List α)) (schema : Option DType)\n"
        "  /-- `isinstance(other, Vector)`: its cells -/\n"
        "  | vector (data : List α)\n"
        "  /-- another `Iterable` that is not str / bytes / bytearray: the cells of `Vector(other)` -/\n"
        "  | iterable (data : List α)\n"
        "  /-- anything else: one value -/\n"
        "  | scalar (x : α)",
        "/-- translated from one iteration of the dict loop of `Table.__rshift__` (`named_cols` is the loop-carried list) -/\n"
        "def rshiftDictStepT {α : Type} (self_cols : List (List α)) (self_length : Nat) (named_cols : List (List α))\n"
        "    (item : Name × DictVal α) : Except Err (List (List α)) :=\n"
        "  let col_name := item.1\n"
        "  let values := item.2\n"
        "  -- if isinstance(values, Vector): col = values.copy()\n"
        "  -- elif isinstance(values, Iterable) and (not isinstance(values, (str, bytes, bytearray))): col = Vector(values)\n"
        f"  -- else: {show(c.orelse[0].orelse[0])}\n"
        "  match (match values with\n"
        "         | .vector data => (.ok data : Except Err (List α))\n"
        "         | .iterable data => .ok data\n"
        f"         | .scalar => .error {e_scalar}) with\n"
        "  | .error e => .error e\n"
        "  | .ok col =>\n"
        f"    -- {t_len}\n"
        f"    if {g_len} then .error {e_len} else\n"
        "    -- col._name = col_name\n"
        "    -- if _sanitize_user_name(col_name) in self._column_map: warnings.warn(…)\n"
        "    -- named_cols.append(col)\n"
        "    .ok (named_cols ++ [col])",
        "/-- translated from the test of the refusal in the Table branch of `Table.__rshift__`:\n"
        f"    `{norm(tb[0].test)}` -/\n"
        "def rshiftMismatchT (self_dtype other_schema : Option DType) : Bool :=\n"
        "  match self_dtype, other_schema with\n"
        f"  | some self_dtype, some other_schema => {mm}\n"
        "  | _, _ => false",
        "/-- translated from `Table.__rshift__(self, other)`.  `self_cols` = the cells of `self._underlying` (= `self.cols()`),\n"
        "    `self_length` = `self._length`, `self_dtype` = `self._dtype`, `self_bool` = the outcome of `bool(self)`.\n"
        "    Result: the Table returned (`none`: the result is not a Table). -/\n"
        "def rshiftT {α : Type} (self_cols : List (List α)) (self_length : Nat) (self_dtype : Option DType) (self_bool : Except Err Bool)\n"
        "    (other : ROther α) : Except Err (Option (Tbl α)) :=\n"
        "  -- if self._dtype is not None and self._dtype.kind in (bool, int) and isinstance(other, int): warnings.warn(…)\n"
        "  match other with\n"
        "  -- if isinstance(other, dict):\n"
        "  | .dict items =>\n"
        "    -- named_cols = []\n"
        "    let named_cols : List (List α) := []\n"
        "    -- for (col_name, values) in other.items(): <rshiftDictStepT>\n"
        "    match forE (rshiftDictStepT self_cols self_length) items named_cols with\n"
        "    | .error e => .error e\n"
        "    | .ok named_cols =>\n"
        "      -- return Table(tuple(self._underlying) + tuple(named_cols))\n"
        "      match mkTable (self_cols ++ named_cols) with\n"
        "      | .error e => .error e\n"
        "      | .ok t => .ok (some t)\n"
        "  -- if isinstance(other, Table):\n"
        "  | .table other_cols other_schema =>\n"
        f"    -- if <rshiftMismatchT>: {show(tb[0].body[0])}\n"
        f"    if rshiftMismatchT self_dtype other_schema then .error {e_mm} else\n"
        "    -- return Vector(self.cols() + other.cols(), dtype=self._dtype)\n"
        "    vectorOfVectorsT (self_cols ++ other_cols)\n"
        "  -- if isinstance(other, Vector):\n"
        "  | .vector other_data =>\n"
        "    -- return Vector(self.cols() + (other,), dtype=self._dtype)\n"
        "    vectorOfVectorsT (self_cols ++ [other_data])\n"
        f"  -- if {ITER_NOT_STR}:\n"
        "  | .iterable other_data =>\n"
        "    -- return Vector(self.cols() + (Vector(other),), dtype=self._dtype)\n"
        "    vectorOfVectorsT (self_cols ++ [other_data])\n"
        "  | .scalar x =>\n"
        "    -- elif not self: return Vector((other,), dtype=self._dtype)      [a Vector of one value: not a Table]\n"
        "    match self_bool with\n"
        "    | .error e => .error e\n"
        "    | .ok b =>\n"
        "      if !b then .ok none else\n"
        f"      -- {show(st[5])}\n"
        f"      .error {e_last}",
    ]


# ---------------------------------------------------------------------------------------------
# Row, Table.__iter__
# ---------------------------------------------------------------------------------------------
def translate_rows(ttree):
    row = [n for n in ast.walk(ttree) if isinstance(n, ast.ClassDef) and n.name == "Row"]
    if len(row) != 1:
        raise TranslateError("class Row not found")
    row = row[0]
    init = find_func(ttree, "__init__", "Row")
    args_of("Row.__init__", init, ["self", "table", "index"])
    top = [norm(s) for s in body_of(init)]
    for need in ("self._raw_cols = [col._underlying for col in table._underlying]", "self._index = index"):
        if top.count(need) != 1:
            raise TranslateError(f"Row.__init__: `{need}` expected once at top level")
    # the two attributes are assigned nowhere else in the class (except _index in set_index)
    for meth in row.body:
        if not isinstance(meth, ast.FunctionDef):
            continue
        for s in ast.walk(meth):
            tg = []
            if isinstance(s, ast.Assign):
                tg = s.targets
            elif isinstance(s, (ast.AugAssign, ast.AnnAssign)):
                tg = [s.target]
            for t in tg:
                for sub in ast.walk(t):
                    if isinstance(sub, ast.Attribute) and sub.attr == "_raw_cols" and meth.name != "__init__":
                        raise TranslateError(f"Row.{meth.name} assigns _raw_cols")
                    if isinstance(sub, ast.Attribute) and sub.attr == "_index" and meth.name not in ("__init__", "set_index"):
                        raise TranslateError(f"Row.{meth.name} assigns _index")
    si = find_func(ttree, "set_index", "Row")
    args_of("Row.set_index", si, ["self", "index"])
    want_list("Row.set_index", body_of(si), ["self._index = index", "return self"])
    un = find_func(ttree, "_underlying", "Row")
    if [norm(d) for d in un.decorator_list] != ["property"]:
        raise TranslateError("Row._underlying: not a plain property")
    want_list("Row._underlying", body_of(un), ["return tuple((col[self._index] for col in self._raw_cols))"])
    gi = find_func(ttree, "__getitem__", "Row")
    args_of("Row.__getitem__", gi, ["self", "key"])
    gb = body_of(gi)
    if not gb:
        raise TranslateError("Row.__getitem__: empty")
    want("Row.__getitem__", gb[0], "if type(key) is int:\n    return self._raw_cols[key][self._index]")
    it = find_func(ttree, "__iter__", "Row")
    want_list("Row.__iter__", body_of(it), ["idx = self._index", "for col in self._raw_cols:\n    yield col[idx]"])
    ti = find_func(ttree, "__iter__", "Table")
    args_of("Table.__iter__", ti, ["self"])
    want_list("Table.__iter__", body_of(ti), ["row_view = Row(self, 0)", "n = len(self)",
                                               "for i in range(n):\n    yield row_view.set_index(i)"])
    return [
        "/-! ### Row, Table.__iter__ -/",
        "/-- translated from `Row.__init__(self, table, index)`: `self._raw_cols = [col._underlying for col in table._underlying]`\n"
        "    (the cells of every column) -/\n"
        "def rowInitT {α : Type} (table_cols : List (List α)) : List (List α) :=\n"
        "  table_cols",
        "/-- translated from the property `Row._underlying`: `return tuple((col[self._index] for col in self._raw_cols))` -/\n"
        "def rowUnderlyingT {α : Type} (raw_cols : List (List α)) (index : Nat) : Except Err (List α) :=\n"
        "  genE (fun col => getItem col index) raw_cols",
        "/-- translated from `Row.__getitem__(self, key)` for `type(key) is int` (`0 ≤ key`):\n"
        "    `return self._raw_cols[key][self._index]` -/\n"
        "def rowGetItemT {α : Type} (raw_cols : List (List α)) (index : Nat) (key : Nat) : Except Err α :=\n"
        "  match getItem raw_cols key with\n"
        "  | .error e => .error e\n"
        "  | .ok col => getItem col index",
        "/-- translated from `Row.__iter__(self)`, consumed completely: `idx = self._index`, `for col in self._raw_cols: yield col[idx]` -/\n"
        "def rowIterT {α : Type} (raw_cols : List (List α)) (index : Nat) : Except Err (List α) :=\n"
        "  -- idx = self._index\n"
        "  let idx := index\n"
        "  -- for col in self._raw_cols: yield col[idx]\n"
        "  genE (fun col => getItem col idx) raw_cols",
        "/-- translated from `Table.__iter__(self)`, every yielded row view materialised at once (`[tuple(r) for r in t]`, the one\n"
        "    `Row` object is re-used: `set_index(i)` is `self._index = index; return self`).  `len_self` = `len(self)`. -/\n"
        "def tableIterT {α : Type} (self_cols : List (List α)) (len_self : Nat) : Except Err (List (List α)) :=\n"
        "  -- row_view = Row(self, 0)\n"
        "  let row_view := rowInitT self_cols\n"
        "  -- n = len(self)\n"
        "  let n := len_self\n"
        "  -- for i in range(n): yield row_view.set_index(i)\n"
        "  genE (fun i => rowUnderlyingT row_view i) (List.range n)",
    ]


# ---------------------------------------------------------------------------------------------
def generate(src_dir):
    parts, errors = [SUPPORT], []
    ok = {}
    try:
        tsrc = open(os.path.join(src_dir, "table.py")).read()
        vsrc = open(os.path.join(src_dir, "vector.py")).read()
        ttree, vtree = ast.parse(tsrc), ast.parse(vsrc)
    except Exception as ex:
        return ("/- GENERATED by harness/tr/structure.py — the source could not be read -/\n",
                [("structure", f"{type(ex).__name__}: {ex}")])

    def attempt(name, fn, needs=()):
        missing = [n for n in needs if not ok.get(n)]
        if missing:
            errors.append((name, "not translated because " + ", ".join(missing) + " is not translated"))
            parts.append(f"-- {name}: not translated (depends on {', '.join(missing)})")
            ok[name] = False
            return
        try:
            parts.extend(fn())
            ok[name] = True
        except Exception as ex:
            errors.append((name, f"{type(ex).__name__}: {ex}"))
            parts.append(f"-- {name}: not translated ({type(ex).__name__})")
            ok[name] = False

    def mk():
        py2lean.translate_table_lengths(tsrc)        # `Table(initial)` is what Serif/Gen/TranslatedTab.lean translates
        return [MKTABLE]

    def cols():
        check_cols(vtree, ttree)
        return []

    attempt("structure.table_init", mk)
    attempt("structure.rename_columns", lambda: translate_rename(ttree))
    attempt("structure.vector_new", lambda: translate_vector_new(vtree), ["structure.table_init"])
    attempt("structure.T", lambda: translate_T(ttree), ["structure.table_init"])
    attempt("structure.vector_lshift", lambda: translate_vec_lshift(vtree))
    attempt("structure.cols", cols)
    attempt("structure.lshift", lambda: translate_lshift(ttree), ["structure.vector_new", "structure.cols"])
    attempt("structure.rshift", lambda: translate_rshift(ttree), ["structure.vector_new", "structure.table_init", "structure.cols"])
    attempt("structure.rows", lambda: translate_rows(ttree))
    imp = "import Serif.Prelude\n" + ("import Serif.Gen.TranslatedTab\n" if ok.get("structure.table_init") else "")
    text = ("/- GENERATED by harness/tr/structure.py from /repo's working tree — do not edit.\n"
            "   Structural table operations: Table.rename_columns, Table.T, Table.__lshift__, Table.__rshift__, Table.__iter__, Row\n"
            "   (and the Table dispatch of Vector.__new__, the values of Vector.__lshift__); theorems in Serif/Tie/Structure.lean. -/\n"
            + imp + "\nset_option linter.unusedVariables false\n\nnamespace Serif.Gen.TS\nopen Serif\n\n"
            + "\n\n".join(parts) + "\n\nend Serif.Gen.TS\n")
    return text, errors
