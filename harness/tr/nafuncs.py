"""Translator plug-in: the None helpers of `Vector` (C06).

Reads src/serif/vector.py and src/serif/typing.py with `ast` and translates, statement by statement,

    DataType.with_nullable, Vector.schema, Vector.copy (called without arguments),
    Vector.isna, Vector.dropna, Vector.fillna, and the 1-D branches of Vector.any / Vector.all / Vector.sum / Vector.min / Vector.max

into lean/Serif/Gen/TranslatedNa.lean.  lean/Serif/Tie/NaFuncs.lean proves the translated definitions equal to the model's
`Vec.isna`, `Vec.dropna`, `Vec.withNullable`, `Vec.fillStandard`, `Vec.fillna`, `Vec.vany`, `Vec.vall` for all inputs.

A small *typed* statement translator (class `_Na`).  What it understands, and nothing else:

  statements   `N = E`;  `return E`;  `if C: N = E1  else: N = E2`;  `if C1 and C2 and …: <body>` followed by more statements
               (control falling off the body, or a false condition, continues with those: `fallthrough`);
               `try: validate_scalar(V, D)  except TypeError: <handler that always returns or raises>`;
               `try: <body>  except SerifTypeError: raise ValueError(…)` where the only raising statement of the body is
               `R._promote(K)`;  `raise <known exception class>(…)`;  the guard `if self.ndims() == 2: return …` (skipped: the
               translation is that of the 1-D branch);  docstrings are dropped.
  expressions  names, None/True/False, `self._underlying`, `self._dtype`, `R._underlying`, `D.kind`, `self.schema()`, `self.copy()`,
               `X is None`, `X is not None`, `K1 is K2`, `K1 is not K2` (also `==` / `!=`, on classes), `and`/`or`/`not`, `A if C else B`,
               `tuple(G)`, `any(G)`, `all(G)`, `sum(G)`, `min(G)`, `max(G)` for a generator `E for x in L [if x is not None]`,
               `DataType(K[, nullable=B])`, `D.with_nullable(B)`, `infer_dtype([V])`,
               `Vector(VALUES, dtype=D[, name=self._name][, as_row=self._display_as_row])`.

Python's `None` is `Option.none`: a name known to be optional is refined by `X is None` / `X is not None` tests (a `match`), and
the translator tracks which names are optional; a non-None value used where an optional one is expected is wrapped in `some`.
A `Vector` object is seen as its state `(_underlying, _dtype)`; a call `Vector(values, dtype=d, …)` as the record of those two
arguments (`name=` / `as_row=` are accepted only as the pass-through of `self`'s and are not represented: the model does not
carry them).  Oracles (parameters of the generated definitions): `validate_scalar` (`true` = returns, `false` = TypeError),
`infer_dtype`, `_promote` (the state after the call, or the exception), `truthy` (`bool(x)` of a non-None element), and the
built-ins `sum` / `min` / `max` on a list of non-None values (`py_sum`, `py_min`, `py_max`).
Exception classes are seen as `Err`: TypeError/SerifTypeError = `Err.type`, ValueError/SerifValueError = `Err.value`.
The text of error messages, comments, docstrings and blank lines never reach the generated file.
"""
import ast, os

import py2lean
from py2lean import TranslateError, find_func, KINDS

GEN_FILE = "TranslatedNa.lean"
TIE = {"Serif.Tie.NaFuncs": ["C06"]}

ERR = {"TypeError": "Err.type", "SerifTypeError": "Err.type", "ValueError": "Err.value", "SerifValueError": "Err.value"}

OPT_VAL = ("opt", "val")
LEAN_TYPE = {"bool": "Bool", "kind": "Kind", "dtype": "DType", "val": "α", "vec": "(List (Option α) × Option DType)", "red": "ρ"}
BUILTIN_REDUCERS = ("sum", "min", "max")          # Python built-ins over the non-None values: oracles `py_sum`, `py_min`, `py_max`


def lean_type(t):
    if isinstance(t, tuple):
        if t[0] == "opt":
            return f"Option {lean_type(t[1])}" if not isinstance(t[1], tuple) else f"Option ({lean_type(t[1])})"
        if t[0] == "list":
            return f"List ({lean_type(t[1])})"
        if t[0] == "call":
            return f"VectorCall ({lean_type(t[1])})" if isinstance(t[1], tuple) else f"VectorCall {lean_type(t[1])}"
    return LEAN_TYPE[t]


def _strip_doc(body):
    return [s for s in body if not (isinstance(s, ast.Expr) and isinstance(s.value, ast.Constant))]


class _NoMsg(ast.NodeTransformer):
    """`raise X(<message>)` -> `raise X(…)`: the wording of a message is not behaviour"""

    def visit_Raise(self, node):
        if isinstance(node.exc, ast.Call):
            return ast.Raise(exc=ast.Call(func=node.exc.func, args=[ast.Name(id="…", ctx=ast.Load())], keywords=[]), cause=None)
        return node


def quote(node, first_line=False):
    """the Python text of a statement for the generated comments (one line, message texts dropped)"""
    import copy
    n = _NoMsg().visit(copy.deepcopy(node))
    txt = ast.unparse(ast.fix_missing_locations(n))
    lines = txt.split("\n")
    txt = lines[0] if first_line or len(lines) > 1 else " ".join(l.strip() for l in lines)
    return txt.replace("-/", "- /").replace("/-", "/ -")


class _Na:
    def __init__(self, where, nullable_default, with_nullable_param, available=()):
        self.where = where
        self.available = set(available)               # helper definitions (withNullableT, schemaT, copyT) that were translated
        self.nullable_default = nullable_default      # default of DataType's `nullable` field, read from the class
        self.with_nullable_param = with_nullable_param
        self.oracles = []                             # oracle parameters used, in order of first use
        self.raises = False                           # does the function raise / call something that raises?

    # -- helpers --------------------------------------------------------------------------------------------------------
    def fail(self, node, why=""):
        raise TranslateError(f"{self.where}: {why + ': ' if why else ''}{ast.unparse(node)[:70]}")

    def use(self, oracle):
        if oracle not in self.oracles:
            self.oracles.append(oracle)

    def need(self, helper, node):
        """a generated definition may only mention helper definitions that are in the generated file"""
        if helper not in self.available:
            self.fail(node, f"uses {helper}, which was not translated")

    def coerce(self, e, t, want, node):
        if t == want:
            return e
        if isinstance(want, tuple) and want[0] == "opt":
            if t == "none":
                return "none"
            if t == want[1]:
                return f"(some {e})"
        self.fail(node, f"type {t} where {want} is expected")

    def unify(self, a, at, b, bt, node):
        if at == bt:
            return a, b, at
        if at == "none" and bt == "none":
            return a, b, "none"
        for want in ((at if isinstance(at, tuple) and at[0] == "opt" else ("opt", at)) if at != "none" else None,
                     (bt if isinstance(bt, tuple) and bt[0] == "opt" else ("opt", bt)) if bt != "none" else None):
            if want is None:
                continue
            try:
                return self.coerce(a, at, want, node), self.coerce(b, bt, want, node), want
            except TranslateError:
                pass
        self.fail(node, f"branches of types {at} and {bt}")

    def none_test(self, node, env):
        """`N is None` / `N is not None` on an optional *name* -> (python name, lean name, is_none)"""
        if isinstance(node, ast.Compare) and len(node.ops) == 1 and isinstance(node.ops[0], (ast.Is, ast.IsNot)) \
                and isinstance(node.comparators[0], ast.Constant) and node.comparators[0].value is None:
            key = self.key(node.left)
            if key in env and isinstance(env[key][1], tuple) and env[key][1][0] == "opt":
                return key, env[key][0], isinstance(node.ops[0], ast.Is)
        return None

    @staticmethod
    def key(node):
        """environment key of a name or of a field of `self`"""
        if isinstance(node, ast.Name):
            return node.id
        if isinstance(node, ast.Attribute) and isinstance(node.value, ast.Name) and node.value.id == "self":
            return "self." + node.attr
        return None

    def refine(self, env, key):
        lean, t = env[key]
        return dict(env, **{key: (lean, t[1])})

    # -- expressions ----------------------------------------------------------------------------------------------------
    def ex(self, node, env):
        """-> (lean text, type)"""
        if isinstance(node, ast.Constant):
            if node.value is None:
                return "none", "none"
            if node.value is True or node.value is False:
                return ("true" if node.value else "false"), "bool"
            self.fail(node, "constant")
        k = self.key(node)
        if k is not None and k in env:
            return env[k]
        if isinstance(node, ast.Name):
            if node.id in KINDS:
                return KINDS[node.id], "kind"
            self.fail(node, "unknown name")
        if isinstance(node, ast.Attribute):
            e, t = self.ex(node.value, env)
            if node.attr == "kind" and t == "dtype":
                return f"{e}.kind", "kind"
            if node.attr == "nullable" and t == "dtype":
                return f"{e}.nullable", "bool"
            if node.attr == "_underlying" and t == "vec":
                return f"{e}.1", ("list", OPT_VAL)
            if node.attr == "_dtype" and t == "vec":
                return f"{e}.2", ("opt", "dtype")
            self.fail(node, f"attribute of a value of type {t}")
        if isinstance(node, ast.UnaryOp) and isinstance(node.op, ast.Not):
            return f"(!{self.cond(node.operand, env)})", "bool"
        if isinstance(node, ast.BoolOp):
            op = " && " if isinstance(node.op, ast.And) else " || "
            return "(" + op.join(self.cond(v, env) for v in node.values) + ")", "bool"
        if isinstance(node, ast.Compare) and len(node.ops) == 1:
            op, l, r = node.ops[0], node.left, node.comparators[0]
            if isinstance(op, (ast.Is, ast.IsNot)) and isinstance(r, ast.Constant) and r.value is None:
                e, t = self.ex(l, env)
                if not (isinstance(t, tuple) and t[0] == "opt"):
                    self.fail(node, "None test on a value that is not optional here")
                return (f"{e}.isNone" if isinstance(op, ast.Is) else f"(!{e}.isNone)"), "bool"
            if isinstance(op, (ast.Is, ast.IsNot, ast.Eq, ast.NotEq)):
                a, at = self.ex(l, env)
                b, bt = self.ex(r, env)
                if at == "kind" and bt == "kind":                      # classes: identity is equality
                    return (f"({a} == {b})" if isinstance(op, (ast.Is, ast.Eq)) else f"({a} != {b})"), "bool"
            self.fail(node, "comparison")
        if isinstance(node, ast.IfExp):
            nt = self.none_test(node.test, env)
            if nt:
                key, lean, is_none = nt
                n_branch, s_branch = (node.body, node.orelse) if is_none else (node.orelse, node.body)
                a, at = self.ex(n_branch, env)
                b, bt = self.ex(s_branch, self.refine(env, key))
                a, b, t = self.unify(a, at, b, bt, node)
                return f"(match {lean} with | none => {a} | some {lean} => {b})", t
            c = self.cond(node.test, env)
            a, at = self.ex(node.body, env)
            b, bt = self.ex(node.orelse, env)
            a, b, t = self.unify(a, at, b, bt, node)
            return f"(if {c} then {a} else {b})", t
        if isinstance(node, ast.GeneratorExp):
            return self.gen(node, env)
        if isinstance(node, ast.Call):
            return self.call(node, env)
        self.fail(node, "expression")

    def cond(self, node, env):
        e, t = self.ex(node, env)
        if t != "bool":
            self.fail(node, f"condition of type {t}")       # truthiness of anything but a bool is not translated
        return e

    def gen(self, node, env):
        """`E for x in L` / `E for x in L if x is not None` -> a list"""
        if len(node.generators) != 1 or not isinstance(node.generators[0].target, ast.Name) or node.generators[0].is_async:
            self.fail(node, "generator")
        g = node.generators[0]
        x = g.target.id
        src, st = self.ex(g.iter, env)
        if not (isinstance(st, tuple) and st[0] == "list"):
            self.fail(g.iter, "iteration over something that is not a tuple of elements")
        lx = py2lean._ln(x)
        inner = dict(env, **{x: (lx, st[1])})
        if not g.ifs:
            e, t = self.ex(node.elt, inner)
            return f"({src}.map (fun {lx} => {e}))", ("list", t)
        if len(g.ifs) == 1:
            nt = self.none_test(g.ifs[0], inner)
            if nt and nt[0] == x and not nt[2]:
                e, t = self.ex(node.elt, self.refine(inner, x))
                return f"({src}.filterMap (fun {lx} => match {lx} with | none => none | some {lx} => some {e}))", ("list", t)
        self.fail(node, "generator filter")

    def call(self, node, env):
        f = node.func
        if isinstance(f, ast.Name):
            if f.id == "tuple" and len(node.args) == 1 and not node.keywords and isinstance(node.args[0], ast.GeneratorExp):
                return self.gen(node.args[0], env)
            if f.id in ("any", "all") and len(node.args) == 1 and not node.keywords and isinstance(node.args[0], ast.GeneratorExp):
                e, t = self.gen(node.args[0], env)
                if t == ("list", "bool"):
                    return f"({e}.{f.id} (fun b => b))", "bool"
                if t == ("list", "val"):
                    self.use("truthy")
                    return f"({e}.{f.id} truthy)", "bool"
                self.fail(node, f"truth value of elements of type {t[1]}")
            if f.id in BUILTIN_REDUCERS and len(node.args) == 1 and not node.keywords and isinstance(node.args[0], ast.GeneratorExp):
                e, t = self.gen(node.args[0], env)
                if t != ("list", "val"):                    # a None among the arguments is another computation (TypeError)
                    self.fail(node, f"{f.id} over elements of type {t[1]}")
                self.use("py_" + f.id)
                return f"(py_{f.id} {e})", "red"
            if f.id == "DataType" and 1 <= len(node.args) <= 2:
                k = self.coerce(*self.ex(node.args[0], env), "kind", node)
                n = None
                if len(node.args) == 2:
                    n = self.coerce(*self.ex(node.args[1], env), "bool", node)
                for kw in node.keywords:
                    if kw.arg != "nullable" or n is not None:
                        self.fail(node, "DataType arguments")
                    n = self.coerce(*self.ex(kw.value, env), "bool", node)
                if n is None:
                    n = self.nullable_default
                return f"({{ kind := {k}, nullable := {n} }} : DType)", "dtype"
            if f.id == "infer_dtype" and len(node.args) == 1 and not node.keywords and isinstance(node.args[0], ast.List):
                elts = [self.coerce(*self.ex(a, env), OPT_VAL, a) for a in node.args[0].elts]
                self.use("infer_dtype")
                return f"(infer_dtype [{', '.join(elts)}])", "dtype"
            if f.id == "Vector":
                return self.vector_call(node, env)
        if isinstance(f, ast.Attribute):
            if f.attr == "with_nullable":
                d = self.coerce(*self.ex(f.value, env), "dtype", node)
                if len(node.args) == 1 and not node.keywords:
                    a = node.args[0]
                elif not node.args and len(node.keywords) == 1 and node.keywords[0].arg == self.with_nullable_param:
                    a = node.keywords[0].value
                else:
                    self.fail(node, "with_nullable arguments")
                self.need("withNullableT", node)
                return f"(withNullableT {d} {self.coerce(*self.ex(a, env), 'bool', node)})", "dtype"
            if isinstance(f.value, ast.Name) and f.value.id == "self" and not node.args and not node.keywords:
                if f.attr == "schema":
                    self.need("schemaT", node)
                    return f"(schemaT {env['self._dtype'][0]})", ("opt", "dtype")
                if f.attr == "copy":
                    self.need("copyT", node)
                    return f"(copyT {env['self._underlying'][0]} {env['self._dtype'][0]})", "vec"
        self.fail(node, "call")

    def vector_call(self, node, env):
        if len(node.args) != 1:
            self.fail(node, "Vector arguments")
        vals, vt = self.ex(node.args[0], env)
        if not (isinstance(vt, tuple) and vt[0] == "list"):
            self.fail(node, "Vector values")
        dt = None
        for kw in node.keywords:
            if kw.arg == "dtype":
                dt = self.coerce(*self.ex(kw.value, env), ("opt", "dtype"), node)
            elif (kw.arg, ast.unparse(kw.value)) in (("name", "self._name"), ("as_row", "self._display_as_row")):
                continue                                    # pass-through of self's, not represented
            else:
                self.fail(node, "Vector keyword " + str(kw.arg))
        if dt is None:
            self.fail(node, "Vector without dtype= (dtype inference is not translated)")
        if vt[1] == "val":                                  # values known to be non-None, as elements of a vector
            vals, vt = f"({vals}.map some)", ("list", OPT_VAL)
        pad = " " * (getattr(self, "cur_ind", 2) + 8)
        return f"({{ values := {vals},\n{pad}dtype := {dt} }} : VectorCall _)", ("call", vt[1])

    # -- statements -----------------------------------------------------------------------------------------------------
    @staticmethod
    def note(s):
        """the Python text quoted above the Lean step"""
        if isinstance(s, ast.If) and len(s.body) == 1 and len(s.orelse) == 1 and isinstance(s.body[0], ast.Assign):
            return f"if {quote(s.test)}: {quote(s.body[0])}  else: {quote(s.orelse[0])}"
        if isinstance(s, ast.Try) and len(s.body) == 1 and isinstance(s.body[0], ast.Expr):
            return "try: " + quote(s.body[0])
        return quote(s, first_line=isinstance(s, (ast.If, ast.Try)))

    def ret(self, e):
        return f".ok {e}" if self.raises else e

    def stmts(self, body, env, ind, fall=None, handler=None):
        """translate a statement list into one Lean term; `fall` is the term control continues with when it falls off the
        end (None = it must not), `handler` maps an `Err` constructor to the term of an enclosing `except`"""
        pad = " " * ind
        self.cur_ind = ind
        body = _strip_doc(body)
        if not body:
            if fall is None:
                raise TranslateError(f"{self.where}: a path ends without return")
            return pad + fall
        s, rest = body[0], body[1:]
        note = pad + "-- " + self.note(s) + "\n"
        if isinstance(s, ast.Return):
            if s.value is None:
                self.fail(s, "bare return")
            e, t = self.ex(s.value, env)
            self.result_type = self.merge_result(t, s)
            return note + pad + self.ret(e)
        if isinstance(s, ast.Raise):
            if not (isinstance(s.exc, ast.Call) and isinstance(s.exc.func, ast.Name) and s.exc.func.id in ERR):
                self.fail(s, "raise")
            return note + pad + f".error {ERR[s.exc.func.id]}"
        if isinstance(s, ast.Assign) and len(s.targets) == 1 and isinstance(s.targets[0], ast.Name):
            n = s.targets[0].id
            e, t = self.ex(s.value, env)
            if t == "none":
                self.fail(s, "assignment of a bare None")
            ln = py2lean._ln(n)
            return note + pad + f"let {ln} := {e}\n" + self.stmts(rest, dict(env, **{n: (ln, t)}), ind, fall, handler)
        if isinstance(s, ast.Expr) and isinstance(s.value, ast.Call) and isinstance(s.value.func, ast.Attribute) \
                and s.value.func.attr == "_promote" and isinstance(s.value.func.value, ast.Name):
            # R._promote(K): R's state is replaced by the promoted one; SerifTypeError goes to the enclosing handler
            r = s.value.func.value.id
            if r not in env or env[r][1] != "vec" or len(s.value.args) != 1 or s.value.keywords:
                self.fail(s, "_promote call")
            k = self.coerce(*self.ex(s.value.args[0], env), "kind", s)
            self.use("_promote")
            lr = env[r][0]
            lines = [pad + f"match _promote {lr} {k} with"]
            for err, term in (handler or {}).items():
                lines.append(pad + f"| .error {err} =>\n{term(ind + 4)}")
            lines.append(pad + "| .error e => .error e")
            lines.append(pad + f"| .ok {lr} =>\n" + self.stmts(rest, env, ind + 4, fall, handler))
            return note + "\n".join(lines)
        if isinstance(s, ast.If):
            return note + self.if_stmt(s, rest, env, ind, fall, handler)
        if isinstance(s, ast.Try):
            return note + self.try_stmt(s, rest, env, ind, fall, handler)
        self.fail(s, "statement")

    def merge_result(self, t, node):
        old = getattr(self, "result_type", None)
        if old is not None and old != t:
            self.fail(node, f"results of types {old} and {t}")
        return t

    def if_stmt(self, s, rest, env, ind, fall, handler):
        pad = " " * ind
        # (1) both branches assign the same single name: a conditional value
        if len(s.body) == 1 and len(s.orelse) == 1 and all(
                isinstance(b, ast.Assign) and len(b.targets) == 1 and isinstance(b.targets[0], ast.Name) for b in (s.body[0], s.orelse[0])) \
                and s.body[0].targets[0].id == s.orelse[0].targets[0].id:
            n = s.body[0].targets[0].id
            e, t = self.ex(ast.IfExp(test=s.test, body=s.body[0].value, orelse=s.orelse[0].value), env)
            ln = py2lean._ln(n)
            return pad + f"let {ln} := {e}\n" + self.stmts(rest, dict(env, **{n: (ln, t)}), ind, fall, handler)
        # (2) the 2-D guard of the reductions: skipped, the translation is that of the 1-D branch
        if ast.unparse(s.test) == "self.ndims() == 2" and not s.orelse and len(s.body) == 1 and isinstance(s.body[0], ast.Return):
            self.one_d = True
            return pad + "--   … (not translated: this is the 1-D branch, the guard is false)\n" + self.stmts(rest, env, ind, fall, handler)
        # (3) `if C1 and C2 and …: body` (no else); afterwards `rest`
        if s.orelse:
            self.fail(s, "if/else statement")
        if rest:
            after = self.stmts(rest, env, ind + 2, fall, handler)
            out = pad + "let fallthrough : ⟪RT⟫ :=   -- the statements after this `if`\n" + after + "\n"
            fall2 = "fallthrough"
        else:
            out, fall2 = "", fall
        conj = s.test.values if isinstance(s.test, ast.BoolOp) and isinstance(s.test.op, ast.And) else [s.test]
        return out + self.conj(conj, s.body, env, ind, fall2, handler)

    def conj(self, conj, body, env, ind, fall, handler):
        pad = " " * ind
        if not conj:
            return self.stmts(body, env, ind, fall, handler)
        if fall is None:
            raise TranslateError(f"{self.where}: a path ends without return")
        c, more = conj[0], conj[1:]
        nt = self.none_test(c, env)
        if nt:
            key, lean, is_none = nt
            if is_none:
                return (pad + f"match {lean} with   -- {quote(c)}\n" + pad + f"| some _ => {fall}\n" + pad + "| none =>\n"
                        + self.conj(more, body, env, ind + 2, fall, handler))
            return (pad + f"match {lean} with   -- {quote(c)}\n" + pad + f"| none => {fall}\n" + pad + f"| some {lean} =>\n"
                    + self.conj(more, body, self.refine(env, key), ind + 2, fall, handler))
        return (pad + f"if {self.cond(c, env)} then   -- {quote(c)}\n" + self.conj(more, body, env, ind + 2, fall, handler) + "\n"
                + pad + f"else {fall}")

    def try_stmt(self, s, rest, env, ind, fall, handler):
        pad = " " * ind
        if s.orelse or s.finalbody or len(s.handlers) != 1 or s.handlers[0].name is not None \
                or not isinstance(s.handlers[0].type, ast.Name) or s.handlers[0].type.id not in ERR:
            self.fail(s, "try shape")
        h = s.handlers[0]
        body = _strip_doc(s.body)
        self.raises = True
        # (a) try: validate_scalar(V, D)   except TypeError: <handler>
        if len(body) == 1 and isinstance(body[0], ast.Expr) and isinstance(body[0].value, ast.Call) \
                and isinstance(body[0].value.func, ast.Name) and body[0].value.func.id == "validate_scalar":
            call = body[0].value
            if h.type.id != "TypeError" or len(call.args) != 2 or call.keywords:
                self.fail(s, "validate_scalar try")
            v = self.coerce(*self.ex(call.args[0], env), OPT_VAL, call)
            d = self.coerce(*self.ex(call.args[1], env), "dtype", call)
            self.use("validate_scalar")
            cont = self.stmts(rest, env, ind + 2, fall, handler)
            hnd = self.stmts(h.body, env, ind + 2, None, handler)       # the handler must return or raise on every path
            return (pad + f"if validate_scalar {v} {d} then   -- it returned\n" + cont + "\n"
                    + pad + f"else   -- except {h.type.id}:\n" + hnd)
        # (b) try: <body>   except SerifTypeError: <handler>   — the raising statement of the body is `R._promote(K)`
        if rest:
            self.fail(s, "statements after a try block")
        hb = _strip_doc(h.body)
        if len(hb) != 1 or not isinstance(hb[0], ast.Raise):
            self.fail(s, "handler that is not a single raise")
        hmap = dict(handler or {})
        hmap[ERR[h.type.id]] = lambda i, hb=h.body, e=env, hd=handler, cls=h.type.id: (
            " " * i + f"-- except {cls}:\n" + self.stmts(hb, e, i, None, hd))
        return self.stmts(body, env, ind, fall, hmap)


# ---------------------------------------------------------------------------------------------------------------------
def _dataclass_nullable_default(ttree):
    for node in ast.walk(ttree):
        if isinstance(node, ast.ClassDef) and node.name == "DataType":
            for s in node.body:
                if isinstance(s, ast.AnnAssign) and isinstance(s.target, ast.Name) and s.target.id == "nullable" \
                        and isinstance(s.value, ast.Constant) and isinstance(s.value.value, bool):
                    return "true" if s.value.value else "false"
    raise TranslateError("DataType: default of the field `nullable`")


PRELUDE = """/-- the arguments of a constructor call `Vector(values, dtype=dtype, …)`; `dtype = none` is `dtype=None`.  (`name=self._name`
    and `as_row=self._display_as_row` are not represented.) -/
structure VectorCall (ε : Type) where
  values : List ε
  dtype : Option DType
  deriving DecidableEq, Repr"""

SELF_PARAMS = "(self_underlying : List (Option α)) (self_dtype : Option DType)"
ORACLE_SIG = {
    "truthy": "(truthy : α → Bool)",
    "validate_scalar": "(validate_scalar : Option α → DType → Bool)",
    "infer_dtype": "(infer_dtype : List (Option α) → DType)",
    "_promote": "(_promote : (List (Option α) × Option DType) → Kind → Except Err (List (Option α) × Option DType))",
}
for _b in BUILTIN_REDUCERS:
    ORACLE_SIG["py_" + _b] = f"(py_{_b} : List α → ρ)"
ORACLE_DOC = {
    "truthy": "`truthy x` is `bool(x)` of a non-None element",
    "validate_scalar": "`validate_scalar v d` is `true` when the call returns and `false` when it raises TypeError",
    "infer_dtype": "`infer_dtype` is the library's",
    "_promote": "`_promote state k` is the state `(_underlying, _dtype)` of the vector after `._promote(k)`, or the exception it raises",
}


for _b in BUILTIN_REDUCERS:
    ORACLE_DOC["py_" + _b] = f"`py_{_b} l` is Python's `{_b}(l)` on the list of the non-None elements — a value or an exception, whatever `ρ` holds"


def _self_env():
    return {"self._underlying": ("self_underlying", ("list", OPT_VAL)), "self._dtype": ("self_dtype", ("opt", "dtype"))}


def _method(vtree, name, lean_name, args, nullable_default, wn_param, one_d=False, available=()):
    """translate one method of Vector -> Lean definition text"""
    f = find_func(vtree, name, "Vector")
    a = f.args
    names = [x.arg for x in a.args]
    if names != ["self"] + [n for n, _ in args] or a.vararg or a.kwarg or a.kwonlyargs or a.defaults:
        raise TranslateError(f"Vector.{name}: signature ({', '.join(names)})")
    tr = _Na(f"Vector.{name}", nullable_default, wn_param, available)
    env = _self_env()
    for n, t in args:
        env[n] = (py2lean._ln(n), t)
    # two passes: whether the function can raise decides the shape of every `return`
    tr.raises = any(isinstance(n, (ast.Raise, ast.Try)) for n in ast.walk(f))
    tr.one_d = False
    body = tr.stmts(f.body, env, 2)
    if one_d != tr.one_d:
        raise TranslateError(f"Vector.{name}: 2-D guard")
    rt = lean_type(tr.result_type)
    if tr.raises:
        rt = f"Except Err ({rt})"
    body = body.replace("⟪RT⟫", rt)
    params = "\n    ".join([ORACLE_SIG[o] for o in tr.oracles] + [" ".join([SELF_PARAMS] + [f"({py2lean._ln(n)} : {lean_type(t)})" for n, t in args])])
    doc = f"translated statement by statement from {'the 1-D branch of ' if one_d else ''}`Vector.{name}`"
    if tr.oracles:
        doc += " (" + "; ".join(ORACLE_DOC[o] for o in tr.oracles) + ")"
    if tr.raises:
        doc += "; `.error` = the exception raised"
    tv = "{α ρ : Type}" if any(o.startswith("py_") for o in tr.oracles) else "{α : Type}"
    import textwrap
    doc = textwrap.fill("/-- " + doc + " -/", width=128, subsequent_indent="    ", break_on_hyphens=False)
    return f"{doc}\ndef {lean_name} {tv} {params} : {rt} :=\n{body}"


def translate_with_nullable(ttree):
    f = find_func(ttree, "with_nullable", "DataType")
    names = [x.arg for x in f.args.args]
    if len(names) != 2 or names[0] != "self" or f.args.vararg or f.args.kwarg or f.args.kwonlyargs or f.args.defaults:
        raise TranslateError("DataType.with_nullable: signature")
    p = names[1]
    tr = _Na("DataType.with_nullable", _dataclass_nullable_default(ttree), p)
    tr.raises = False
    body = tr.stmts(f.body, {"self": ("self", "dtype"), p: (py2lean._ln(p), "bool")}, 2)
    if tr.result_type != "dtype":
        raise TranslateError("DataType.with_nullable: result type")
    return p, (f"/-- translated from `DataType.with_nullable` -/\ndef withNullableT (self : DType) ({py2lean._ln(p)} : Bool) : DType :=\n" + body)


def translate_schema(vtree):
    f = find_func(vtree, "schema", "Vector")
    tr = _Na("Vector.schema", "false", "nullable")
    tr.raises = False
    if [x.arg for x in f.args.args] != ["self"]:
        raise TranslateError("Vector.schema: signature")
    body = tr.stmts(f.body, {"self._dtype": ("self_dtype", ("opt", "dtype"))}, 2)
    if tr.result_type not in (("opt", "dtype"), "none"):
        raise TranslateError("Vector.schema: result type")
    return "/-- translated from `Vector.schema` -/\ndef schemaT (self_dtype : Option DType) : Option DType :=\n" + body


def translate_copy(vtree):
    """`self.copy()` (no arguments): shape-checked — the new vector is built from `list(self._underlying)` (as `new_values is
    None`) with `dtype=self._dtype`"""
    f = find_func(vtree, "copy", "Vector")
    a = f.args
    if [x.arg for x in a.args] != ["self", "new_values", "name"] or [ast.unparse(d) for d in a.defaults] != ["None", "..."]:
        raise TranslateError("Vector.copy: signature")
    body = _strip_doc(f.body)
    if not body or not isinstance(body[-1], ast.Return) or not isinstance(body[-1].value, ast.Call):
        raise TranslateError("Vector.copy: return")
    for s in body[:-1]:
        if not (isinstance(s, ast.Assign) and ast.unparse(s.targets[0]) == "use_name"):
            raise TranslateError("Vector.copy: statement " + ast.unparse(s)[:50])
    call = body[-1].value
    kws = {k.arg: ast.unparse(k.value) for k in call.keywords}
    if ast.unparse(call.func) != "Vector" or len(call.args) != 1 \
            or ast.unparse(call.args[0]) != "list(self._underlying if new_values is None else new_values)" \
            or kws.get("dtype") != "self._dtype" or set(kws) - {"dtype", "name", "as_row"} \
            or kws.get("as_row", "self._display_as_row") != "self._display_as_row":
        raise TranslateError("Vector.copy: constructor call " + ast.unparse(call)[:80])
    return ("/-- transcribed from `Vector.copy` called without arguments (shape-checked: `Vector(list(self._underlying if new_values is\n"
            "    None else new_values), dtype=self._dtype, …)`): the state `(_underlying, _dtype)` of the new vector -/\n"
            "def copyT {α : Type} (self_underlying : List (Option α)) (self_dtype : Option DType) : List (Option α) × Option DType :=\n"
            "  (self_underlying, self_dtype)")


def translate_all(vsrc, tsrc):
    """-> (parts, errors): every piece on its own, so that one unreadable method does not take the others down"""
    parts, errors = [PRELUDE], []
    vtree, ttree = ast.parse(vsrc), ast.parse(tsrc)

    def piece(what, fn):
        try:
            parts.append(fn())
            return True
        except Exception as ex:
            errors.append((what, f"{type(ex).__name__}: {ex}"))
            parts.append(f"-- {what}: not translated ({type(ex).__name__})")
            return False

    wn = {}
    available = set()

    def with_nullable():
        wn["param"], text = translate_with_nullable(ttree)
        return text
    if piece("with_nullable", with_nullable):
        available.add("withNullableT")
    try:
        nd = _dataclass_nullable_default(ttree)
    except TranslateError:
        nd = None
    if piece("schema", lambda: translate_schema(vtree)):
        available.add("schemaT")
    if piece("copy", lambda: translate_copy(vtree)):
        available.add("copyT")

    def method(name, lean_name, args, one_d=False):
        def go():
            if nd is None:
                raise TranslateError("DataType: default of the field `nullable`")
            return _method(vtree, name, lean_name, args, nd, wn.get("param", "nullable"), one_d, available)
        piece(name, go)
    method("isna", "isnaT", [])
    method("dropna", "dropnaT", [])
    method("fillna", "fillnaT", [("value", OPT_VAL)])
    method("any", "anyT", [], one_d=True)
    method("all", "allT", [], one_d=True)
    for b in BUILTIN_REDUCERS:
        method(b, b + "T", [], one_d=True)
    return parts, errors


def generate(src_dir):
    try:
        vsrc = open(os.path.join(src_dir, "vector.py")).read()
        tsrc = open(os.path.join(src_dir, "typing.py")).read()
        parts, errors = translate_all(vsrc, tsrc)
    except Exception as ex:
        parts, errors = [f"-- nafuncs: not translated ({type(ex).__name__})"], [("nafuncs", f"{type(ex).__name__}: {ex}")]
    text = ("/- GENERATED by harness/tr/nafuncs.py from /repo's working tree — do not edit.\n"
            "   DataType.with_nullable, Vector.schema / copy() / isna / dropna / fillna and the 1-D branches of Vector.any / all / sum /\n"
            "   min / max, translated statement by statement; equivalence theorems in Serif/Tie/NaFuncs.lean. -/\n"
            "import Serif.Prelude\n\nset_option linter.unusedVariables false\n\nnamespace Serif.Gen.TNa\nopen Serif\n\n"
            + "\n\n".join(parts) + "\n\nend Serif.Gen.TNa\n")
    return text, errors


if __name__ == "__main__":
    import sys
    t, e = generate(sys.argv[1] if len(sys.argv) > 1 else "/repo/src/serif")
    print(t)
    print(e, file=sys.stderr)
