"""Translator plug-in: the element hash of fingerprints (C16).

Reads src/serif/vector.py with `ast` and translates, statement by statement,

    _is_hashable (module level), Vector._hash_element (the whole dispatch), Vector._compute_fingerprint_full, Vector._invalidate_fp

into lean/Serif/Gen/TranslatedHashElem.lean.  lean/Serif/Tie/HashElem.lean proves the translated `_hash_element` equal to the model's
`FP.Elem.hash` on every Python object (read as an element tree by `toElem`), and the translated `_compute_fingerprint_full` equal to
`FP.fpElems`.

How a Python object appears in the generated Lean.  `_hash_element` only ever *asks* things of its argument: `x is None`,
`hasattr(x, "fingerprint")`, `callable(getattr(x, "fingerprint"))`, `int(x.fingerprint())`, `isinstance(x, <class>)`, `math.isnan(x)`,
`hash(x)` (its value, and whether it raises: `_is_hashable`), `hash(repr(x))`, and iteration `for elem in x`.  The answers of the
interpreter are the oracle: a `PyObj` is the record of those answers (`PyAns`) together with the objects iteration yields (`items`),
so that the recursion into the members is a structural recursion.  Nothing is assumed about the answers (an object may claim to be
None and a float): the order of the tests in the source decides, and that order is what is translated.  `list.sort()` / `sorted` on a
list of ints is the oracle parameter `sort`.  `P` / `B` (`Vector._FP_P` / `Vector._FP_B`) are parameters.
An exception escaping `_hash_element` (raised by `x.fingerprint()`, `repr`, iteration, or `hash` of a float) is outside the
translation.

The statement translator (class `_Tr`) understands, and nothing else:

  statements   `N = Vector._FP_P` / `N = self._FP_B` … (N becomes a name of the parameter);  `N = E`;  `return E`;
               `if C: <body that always returns>` followed by more statements;  `if C: <returns> else: <returns>`;
               `if C: L.sort()` and `L.sort()` (rebinding of L);  `for v in L: N = E …` with one accumulator (a fold);
               `try: hash(X); <statements> except Exception: <statements>` (`hash(X)` the only statement that can raise);
               `self._fp = None`;  docstrings and `pass` are dropped.
  expressions  int / bool constants, names, `+ - * %` on ints (`%` is `Int.fmod`, Python's floored modulo), `A if C else B`,
               `and` / `or` / `not`, `X is None`, `X is not None`, the questions listed above, `len(L)`, `sorted(L)`,
               `Vector._hash_element(E)` / `self._hash_element(E)`, and `[Vector._hash_element(v) for v in X]` for the argument `X`
               of `_hash_element` itself (the recursion into the members).

The text of comments, docstrings and blank lines never reaches the generated definitions.
"""
import ast, os

import py2lean
from py2lean import TranslateError

GEN_FILE = "TranslatedHashElem.lean"
TIE = {"Serif.Tie.HashElem": ["C16"]}

CLASSES = ("float", "set", "list", "tuple", "frozenset", "dict", "int", "str", "bool", "bytes", "complex")
LEAN_TYPE = {"int": "Int", "bool": "Bool", "obj": "PyObj", "listint": "List Int", "listobj": "List PyObj", "optint": "Option Int"}

PRELUDE = '''/-- the classes `_hash_element` may test with `isinstance` -/
inductive PyCls where
  | ''' + " | ".join(CLASSES) + '''
  deriving DecidableEq, Repr

/-- what the interpreter answers about one object `x` (the oracle): `x is None`; `hasattr(x, "fingerprint")`;
    `callable(getattr(x, "fingerprint"))`; `int(x.fingerprint())`; `isinstance(x, C)`; `math.isnan(x)`; whether `hash(x)` raises, and
    its value when it does not; `hash(repr(x))` -/
structure PyAns where
  isNone : Bool
  hasattrFingerprint : Bool
  callableFingerprint : Bool
  fingerprint : Int
  isinstance : PyCls → Bool
  isnan : Bool
  hashRaises : Bool
  hash : Int
  reprHash : Int

/-- a Python object as `_hash_element` sees it: the answers about it, and the objects `for elem in x` yields -/
inductive PyObj where
  | mk (ans : PyAns) (items : List PyObj)

def PyObj.ans : PyObj → PyAns
  | .mk a _ => a

def PyObj.items : PyObj → List PyObj
  | .mk _ xs => xs'''


RESERVED = {"P", "B", "sort", "items", "ans", "at", "from", "end", "fun", "then", "else", "if", "let", "have", "show", "do", "match",
            "with", "in", "by", "where", "open", "def", "theorem", "instance", "structure", "class", "Type", "Prop", "Sort", "Int",
            "Nat", "List", "hashElementT", "hashElementListT", "isHashableT", "self_underlying", "self_fp"}


def _local(name, node, tr):
    """a Python local that becomes a Lean `let` / binder of the same name"""
    if name in RESERVED or not name.isidentifier() or not name.isascii():
        tr.fail(node, "local name not usable in Lean")
    return name


def _strip(body):
    return [s for s in body if not (isinstance(s, ast.Expr) and isinstance(s.value, ast.Constant)) and not isinstance(s, ast.Pass)]


def _q(node):
    """Python text of a statement head / expression for the generated comments (one line)"""
    if isinstance(node, (ast.If, ast.For, ast.Try)):
        if isinstance(node, ast.If):
            txt = "if " + ast.unparse(node.test) + ":"
        elif isinstance(node, ast.For):
            txt = "for " + ast.unparse(node.target) + " in " + ast.unparse(node.iter) + ":"
        else:
            txt = "try:"
    else:
        txt = " ".join(l.strip() for l in ast.unparse(node).split("\n"))
    return txt.replace("-/", "- /").replace("/-", "/ -")


def _source_doc(f):
    """the function's statements (docstrings dropped) for the docstring of the generated definition"""
    import copy
    g = copy.deepcopy(f)
    g.decorator_list = []
    g.returns = None
    for a in g.args.args:
        a.annotation = None

    class D(ast.NodeTransformer):
        def visit_FunctionDef(self, n):
            self.generic_visit(n)
            n.body = _strip(n.body) or [ast.Pass()]
            return n
    g = D().visit(g)
    txt = ast.unparse(ast.fix_missing_locations(g))
    return "\n".join("      " + l for l in txt.replace("-/", "- /").replace("/-", "/ -").split("\n"))


def _always_returns(stmts):
    for s in stmts:
        if isinstance(s, (ast.Return, ast.Raise)):
            return True
        if isinstance(s, ast.If) and s.orelse and _always_returns(s.body) and _always_returns(s.orelse):
            return True
    return False


class _Tr:
    def __init__(self, where, self_name=None, rec_arg=None, available=()):
        self.where = where
        self.self_name = self_name          # `self` of a method (None: a function / static method)
        self.rec_arg = rec_arg              # the argument of `_hash_element` (recursion into its members is allowed)
        self.available = set(available)     # helper definitions present in the generated file

    def fail(self, node, why=""):
        txt = ast.unparse(node) if isinstance(node, ast.AST) else str(node)
        raise TranslateError(f"{self.where}: {why + ': ' if why else ''}{txt[:80]}")

    # -- expressions --------------------------------------------------------------------------------------------------
    def const_param(self, node):
        """`Vector._FP_P` / `self._FP_B` / `cls._FP_P` -> the parameter"""
        if isinstance(node, ast.Attribute) and isinstance(node.value, ast.Name) and node.attr in ("_FP_P", "_FP_B") \
                and node.value.id in ("Vector", "self", "cls") and (node.value.id != "self" or self.self_name == "self"):
            return "P" if node.attr == "_FP_P" else "B"
        return None

    def is_hash_element(self, func):
        return isinstance(func, ast.Attribute) and func.attr == "_hash_element" and isinstance(func.value, ast.Name) \
            and (func.value.id == "Vector" or (func.value.id == self.self_name and self.self_name))

    def obj(self, node, env):
        e, t = self.ex(node, env)
        if t != "obj":
            self.fail(node, "not an object")
        return e

    def typed(self, node, env, want):
        e, t = self.ex(node, env)
        if t != want:
            self.fail(node, f"type {t} where {want} is expected")
        return e

    def ex(self, node, env):
        if isinstance(node, ast.Constant):
            v = node.value
            if v is True or v is False:
                return ("true" if v else "false"), "bool"
            if isinstance(v, int):
                return f"({v} : Int)", "int"
            self.fail(node, "constant")
        if isinstance(node, ast.Name):
            if node.id in env:
                return env[node.id]
            self.fail(node, "unknown name")
        if isinstance(node, ast.Attribute):
            p = self.const_param(node)
            if p:
                return p, "int"
            if isinstance(node.value, ast.Name) and node.value.id == self.self_name and ("self." + node.attr) in env:
                return env["self." + node.attr]
            self.fail(node, "attribute")
        if isinstance(node, ast.BinOp):
            a, b = self.typed(node.left, env, "int"), self.typed(node.right, env, "int")
            if isinstance(node.op, ast.Add):
                return f"({a} + {b})", "int"
            if isinstance(node.op, ast.Sub):
                return f"({a} - {b})", "int"
            if isinstance(node.op, ast.Mult):
                return f"({a} * {b})", "int"
            if isinstance(node.op, ast.Mod):
                return f"(Int.fmod {a} {b})", "int"
            self.fail(node, "operator")
        if isinstance(node, ast.IfExp):
            c = self.typed(node.test, env, "bool")
            a, ta = self.ex(node.body, env)
            b, tb = self.ex(node.orelse, env)
            if ta != tb:
                self.fail(node, "branches of different types")
            return f"(if {c} then {a} else {b})", ta
        if isinstance(node, ast.BoolOp):
            parts = [self.typed(v, env, "bool") for v in node.values]
            return "(" + (" && " if isinstance(node.op, ast.And) else " || ").join(parts) + ")", "bool"
        if isinstance(node, ast.UnaryOp) and isinstance(node.op, ast.Not):
            return f"(!{self.typed(node.operand, env, 'bool')})", "bool"
        if isinstance(node, ast.Compare) and len(node.ops) == 1 and isinstance(node.ops[0], (ast.Is, ast.IsNot)) \
                and isinstance(node.comparators[0], ast.Constant) and node.comparators[0].value is None:
            x = self.obj(node.left, env)
            return (f"{x}.ans.isNone" if isinstance(node.ops[0], ast.Is) else f"(!{x}.ans.isNone)"), "bool"
        if isinstance(node, ast.ListComp):
            # [Vector._hash_element(v) for v in X], X the argument of _hash_element: the recursion into the members
            if len(node.generators) == 1 and not node.generators[0].ifs and not node.generators[0].is_async \
                    and isinstance(node.generators[0].target, ast.Name) and isinstance(node.generators[0].iter, ast.Name) \
                    and node.generators[0].iter.id == self.rec_arg and env.get(self.rec_arg, (None, None))[1] == "obj" \
                    and isinstance(node.elt, ast.Call) and self.is_hash_element(node.elt.func) and not node.elt.keywords \
                    and len(node.elt.args) == 1 and isinstance(node.elt.args[0], ast.Name) \
                    and node.elt.args[0].id == node.generators[0].target.id:
                return "hashElementListT P B sort items", "listint"
            self.fail(node, "comprehension")
        if isinstance(node, ast.Call) and not node.keywords:
            f, a = node.func, node.args
            fname = f.id if isinstance(f, ast.Name) else None
            if fname == "hasattr" and len(a) == 2 and isinstance(a[1], ast.Constant) and a[1].value == "fingerprint":
                return f"{self.obj(a[0], env)}.ans.hasattrFingerprint", "bool"
            if fname == "callable" and len(a) == 1 and isinstance(a[0], ast.Call) and isinstance(a[0].func, ast.Name) \
                    and a[0].func.id == "getattr" and len(a[0].args) == 2 and not a[0].keywords \
                    and isinstance(a[0].args[1], ast.Constant) and a[0].args[1].value == "fingerprint":
                return f"{self.obj(a[0].args[0], env)}.ans.callableFingerprint", "bool"
            if fname == "isinstance" and len(a) == 2:
                x = self.obj(a[0], env)
                classes = a[1].elts if isinstance(a[1], ast.Tuple) else [a[1]]
                if not classes:
                    self.fail(node, "empty class tuple")
                for c in classes:
                    if not (isinstance(c, ast.Name) and c.id in CLASSES):
                        self.fail(node, "isinstance with an unknown class")
                parts = [f"{x}.ans.isinstance .{c.id}" for c in classes]
                return (parts[0] if len(parts) == 1 else "(" + " || ".join(parts) + ")"), "bool"
            if isinstance(f, ast.Attribute) and f.attr == "isnan" and isinstance(f.value, ast.Name) and f.value.id == "math" and len(a) == 1:
                return f"{self.obj(a[0], env)}.ans.isnan", "bool"
            if fname == "hash" and len(a) == 1:
                if isinstance(a[0], ast.Call) and isinstance(a[0].func, ast.Name) and a[0].func.id == "repr" \
                        and len(a[0].args) == 1 and not a[0].keywords:
                    return f"{self.obj(a[0].args[0], env)}.ans.reprHash", "int"
                return f"{self.obj(a[0], env)}.ans.hash", "int"
            if fname == "int" and len(a) == 1 and isinstance(a[0], ast.Call) and isinstance(a[0].func, ast.Attribute) \
                    and a[0].func.attr == "fingerprint" and not a[0].args and not a[0].keywords:
                return f"{self.obj(a[0].func.value, env)}.ans.fingerprint", "int"
            if fname == "_is_hashable" and len(a) == 1:
                if "isHashableT" not in self.available:
                    self.fail(node, "uses _is_hashable, which was not translated")
                return f"isHashableT {self.obj(a[0], env)}", "bool"
            if fname == "len" and len(a) == 1:
                e, t = self.ex(a[0], env)
                if t not in ("listint", "listobj"):
                    self.fail(node, "len of a non-list")
                return f"(({e}.length : Nat) : Int)", "int"
            if fname == "sorted" and len(a) == 1:
                return f"(sort {self.typed(a[0], env, 'listint')})", "listint"
            if self.is_hash_element(f) and len(a) == 1:
                if self.rec_arg is not None:
                    self.fail(node, "recursive call outside the comprehension over the argument")
                if "hashElementT" not in self.available:
                    self.fail(node, "uses _hash_element, which was not translated")
                return f"hashElementT P B sort {self.obj(a[0], env)}", "int"
        self.fail(node, "expression")

    # -- statements ---------------------------------------------------------------------------------------------------
    def block(self, stmts, env, indent, result):
        """-> lines.  `result`: the type the block must return"""
        pad = " " * indent
        stmts = _strip(stmts)
        if not stmts:
            self.fail("end of block", "control reaches the end without a return")
        s, rest = stmts[0], stmts[1:]
        if isinstance(s, ast.Return):
            if s.value is None:
                self.fail(s, "bare return")
            return [pad + "-- " + _q(s), pad + self.typed(s.value, env, result)]
        if isinstance(s, ast.Assign) and len(s.targets) == 1 and isinstance(s.targets[0], ast.Name):
            name = _local(s.targets[0].id, s, self) if not self.const_param(s.value) else s.targets[0].id
            p = self.const_param(s.value)
            if p:
                env = dict(env)
                env[name] = (p, "int")
                return [pad + f"-- {_q(s)}   (the parameter `{p}`)"] + self.block(rest, env, indent, result)
            e, t = self.ex(s.value, env)
            if t not in LEAN_TYPE:
                self.fail(s, "type")
            env = dict(env)
            env[name] = (name, t)
            return [pad + "-- " + _q(s), pad + f"let {name} : {LEAN_TYPE[t]} := {e}"] + self.block(rest, env, indent, result)
        if isinstance(s, ast.Expr) and self.sort_call(s.value, env):
            name = self.sort_call(s.value, env)
            return [pad + "-- " + _q(s), pad + f"let {name} : List Int := sort {name}"] + self.block(rest, env, indent, result)
        if isinstance(s, ast.If):
            c = self.typed(s.test, env, "bool")
            if _always_returns(s.body):
                other = list(s.orelse) + rest
                return ([pad + "-- " + _q(s), pad + f"if {c} then"] + self.block(s.body, env, indent + 2, result)
                        + [pad + "else"] + self.block(other, env, indent, result))
            body = _strip(s.body)
            if not s.orelse and len(body) == 1 and isinstance(body[0], ast.Expr) and self.sort_call(body[0].value, env):
                name = self.sort_call(body[0].value, env)
                return ([pad + f"-- {_q(s)} {_q(body[0])}", pad + f"let {name} : List Int := if {c} then sort {name} else {name}"]
                        + self.block(rest, env, indent, result))
            self.fail(s, "conditional statement")
        if isinstance(s, ast.For):
            return self.loop(s, env, indent) + self.block(rest, env, indent, result)
        if isinstance(s, ast.Try):
            return self.try_hash(s, rest, env, indent, result)
        self.fail(s, "statement")

    def sort_call(self, node, env):
        """`L.sort()` on a list of ints -> the Lean name of L"""
        if isinstance(node, ast.Call) and isinstance(node.func, ast.Attribute) and node.func.attr == "sort" and not node.args \
                and not node.keywords and isinstance(node.func.value, ast.Name) and env.get(node.func.value.id, (None, None))[1] == "listint" \
                and env[node.func.value.id][0] == node.func.value.id:
            return node.func.value.id
        return None

    def loop(self, s, env, indent):
        pad = " " * indent
        if s.orelse or not isinstance(s.target, ast.Name):
            self.fail(s, "loop")
        it, t = self.ex(s.iter, env)
        if t not in ("listint", "listobj"):
            self.fail(s.iter, "loop over a non-list")
        v = _local(s.target.id, s, self)
        inner = dict(env)
        inner[v] = (v, "int" if t == "listint" else "obj")
        body = _strip(s.body)
        assigned = []
        lines = []
        for b in body:
            if not (isinstance(b, ast.Assign) and len(b.targets) == 1 and isinstance(b.targets[0], ast.Name)):
                self.fail(b, "loop body statement")
            name = _local(b.targets[0].id, b, self)
            e, te = self.ex(b.value, inner)
            if te != "int":
                self.fail(b, "loop body assigns a non-int")
            if name == v:
                self.fail(b, "loop variable reassigned")
            inner[name] = (name, "int")
            assigned.append(name)
            lines += [pad + "  -- " + _q(b), pad + f"  let {name} : Int := {e}"]
        accs = [n for n in dict.fromkeys(assigned) if n in env]
        if len(accs) != 1 or env[accs[0]] != (accs[0], "int"):
            self.fail(s, "loop must update exactly one int accumulator")
        acc = accs[0]
        vt = "Int" if t == "listint" else "PyObj"
        return ([pad + "-- " + _q(s), pad + f"let {acc} : Int := ({it}).foldl (fun ({acc} : Int) ({v} : {vt}) =>"] + lines
                + [pad + f"  {acc}) {acc}"])

    def try_hash(self, s, rest, env, indent, result):
        """try: hash(X); <more> / except Exception: <handler>  — `hash(X)` is the only statement that can raise"""
        pad = " " * indent
        body = _strip(s.body)
        if s.orelse or s.finalbody or len(s.handlers) != 1 or not body:
            self.fail(s, "try statement")
        h = s.handlers[0]
        if not (h.type is None or (isinstance(h.type, ast.Name) and h.type.id in ("Exception", "BaseException"))):
            self.fail(s, "handler catches something else than Exception")
        first = body[0]
        if not (isinstance(first, ast.Expr) and isinstance(first.value, ast.Call) and isinstance(first.value.func, ast.Name)
                and first.value.func.id == "hash" and len(first.value.args) == 1 and not first.value.keywords):
            self.fail(first, "first statement of the try body is not hash(X)")
        x = self.obj(first.value.args[0], env)
        for b in body[1:]:
            if not (isinstance(b, ast.Return) and isinstance(b.value, ast.Constant)):
                self.fail(b, "statement of the try body that may raise")
        return ([pad + f"-- try: {_q(first)}", pad + f"if !{x}.ans.hashRaises then"]
                + self.block(body[1:] + rest, env, indent + 2, result)
                + [pad + f"else", pad + f"  -- except {ast.unparse(h.type) if h.type else ''}:"]
                + self.block(list(h.body) + rest, env, indent + 2, result))


def _args(f):
    a = f.args
    if a.vararg or a.kwarg or a.kwonlyargs or a.posonlyargs or a.defaults:
        raise TranslateError(f"{f.name}: signature")
    return [x.arg for x in a.args]


def _decorators(f):
    return [ast.unparse(d) for d in f.decorator_list]


def translate_is_hashable(tree):
    fs = [n for n in tree.body if isinstance(n, ast.FunctionDef) and n.name == "_is_hashable"]
    if len(fs) != 1:
        raise TranslateError("_is_hashable: not found at module level")
    f = fs[0]
    args = _args(f)
    if len(args) != 1 or f.decorator_list:
        raise TranslateError("_is_hashable: signature")
    x = args[0]
    tr = _Tr("_is_hashable")
    lines = tr.block(f.body, {x: (x, "obj")}, 2, "bool")
    return ("/-- translated from `_is_hashable` (`hash(x)` raising is the oracle answer `hashRaises`):\n" + _source_doc(f) + " -/\n"
            f"def isHashableT ({x} : PyObj) : Bool :=\n" + "\n".join(lines))


def translate_hash_element(tree, available):
    f = py2lean.find_func(tree, "_hash_element", "Vector")
    args = _args(f)
    if _decorators(f) != ["staticmethod"] or len(args) != 1:
        raise TranslateError("_hash_element: not a static method of one argument")
    x = args[0]
    if x in ("P", "B", "sort", "items", "ans"):
        raise TranslateError("_hash_element: argument name")
    tr = _Tr("_hash_element", rec_arg=x, available=available)
    lines = tr.block(f.body, {x: (x, "obj")}, 4, "int")
    return ("mutual\n"
            "/-- translated from `Vector._hash_element` (`sort`: `list.sort()` on ints; the questions asked of `" + x + "` are answered by\n"
            "    `" + x + ".ans`; `for elem in " + x + "` yields `items`):\n" + _source_doc(f) + " -/\n"
            "def hashElementT (P B : Int) (sort : List Int → List Int) : PyObj → Int\n"
            "  | .mk ans items =>\n"
            f"    let {x} : PyObj := .mk ans items\n" + "\n".join(lines) + "\n"
            "/-- the comprehension `[Vector._hash_element(elem) for elem in " + x + "]` -/\n"
            "def hashElementListT (P B : Int) (sort : List Int → List Int) : List PyObj → List Int\n"
            "  | [] => []\n"
            "  | elem :: rest => hashElementT P B sort elem :: hashElementListT P B sort rest\n"
            "end")


def translate_compute_full(tree, available):
    f = py2lean.find_func(tree, "_compute_fingerprint_full", "Vector")
    if _args(f) != ["self"] or f.decorator_list:
        raise TranslateError("_compute_fingerprint_full: signature")
    tr = _Tr("_compute_fingerprint_full", self_name="self", available=available)
    lines = tr.block(f.body, {"self._underlying": ("self_underlying", "listobj")}, 2, "int")
    return ("/-- translated from `Vector._compute_fingerprint_full` (`self_underlying`: the elements `self._underlying`):\n" + _source_doc(f) + " -/\n"
            "def computeFingerprintFullT (P B : Int) (sort : List Int → List Int) (self_underlying : List PyObj) : Int :=\n"
            + "\n".join(lines))


def translate_invalidate(tree):
    f = py2lean.find_func(tree, "_invalidate_fp", "Vector")
    if _args(f) != ["self"] or f.decorator_list:
        raise TranslateError("_invalidate_fp: signature")
    body = _strip(f.body)
    lines = []
    for s in body:
        if not (isinstance(s, ast.Assign) and len(s.targets) == 1 and ast.unparse(s.targets[0]) == "self._fp"
                and isinstance(s.value, ast.Constant) and s.value.value is None):
            raise TranslateError("_invalidate_fp: statement " + ast.unparse(s)[:60])
        lines += ["  -- " + _q(s), "  let self_fp : Option Int := none"]
    return ("/-- translated from `Vector._invalidate_fp`: `self._fp` on entry ↦ `self._fp` on exit:\n" + _source_doc(f) + " -/\n"
            "def invalidateFpT (self_fp : Option Int) : Option Int :=\n" + "\n".join(lines + ["  self_fp"]))


def translate_all(vsrc):
    parts, errors = [PRELUDE], []
    tree = ast.parse(vsrc)
    available = set()

    def piece(what, fn, provides):
        try:
            parts.append(fn())
            available.add(provides)
        except Exception as ex:
            errors.append((what, f"{type(ex).__name__}: {ex}"))
            parts.append(f"-- {what}: not translated ({type(ex).__name__})")
    piece("_is_hashable", lambda: translate_is_hashable(tree), "isHashableT")
    piece("_hash_element", lambda: translate_hash_element(tree, set(available)), "hashElementT")
    piece("_compute_fingerprint_full", lambda: translate_compute_full(tree, set(available)), "computeFingerprintFullT")
    piece("_invalidate_fp", lambda: translate_invalidate(tree), "invalidateFpT")
    return parts, errors


def generate(src_dir):
    try:
        vsrc = open(os.path.join(src_dir, "vector.py")).read()
        parts, errors = translate_all(vsrc)
    except Exception as ex:
        parts, errors = [f"-- hashelem: not translated ({type(ex).__name__})"], [("hashelem", f"{type(ex).__name__}: {ex}")]
    text = ("/- GENERATED by harness/tr/hashelem.py from /repo's working tree — do not edit.\n"
            "   `_is_hashable`, `Vector._hash_element` (the whole dispatch), `Vector._compute_fingerprint_full` and `Vector._invalidate_fp`,\n"
            "   translated statement by statement; equivalence theorems in Serif/Tie/HashElem.lean. -/\n\n"
            "set_option linter.unusedVariables false\n\nnamespace Serif.Gen.THE\n\n"
            + "\n\n".join(parts) + "\n\nend Serif.Gen.THE\n")
    return text, errors


if __name__ == "__main__":
    import sys
    t, e = generate(sys.argv[1] if len(sys.argv) > 1 else "/repo/src/serif")
    print(t)
    print(e, file=sys.stderr)
