"""Translator plug-in: the output naming of `Table.aggregate` and `Table.window` (C12, C13, C18).

From the *current* text of src/serif/table.py it translates, separately for each of the two methods (`Agg` / `Win`):

  * the local function `uniquify(name)` -- statement by statement; the closure variable (a `set` of names) becomes an explicit
    state that the translated function takes and returns; the `while` loop becomes `whileFuel cond body fuel i` whose condition
    and body are translated from the AST (`uniquifyFuelT<tag>`), and `uniquifyT<tag>` runs it with fuel `len(used) + 1`;
  * the local function that builds the candidate name of a built-in (`make_agg_name` in aggregate, `sanitize` in window:
    whichever local function calls `_sanitize_user_name`) -- statement by statement (`makeAggNameT<tag>`);
  * the *naming skeleton* of the method: the statements that touch the set of used names or the list of result columns, in
    source order (`used_names = set()`, `result_cols = []`, the key loop, the `if X_over: for col in X_over:` blocks with their
    suffix literals, the `apply` loop, `return Table(result_cols)`), as a chain of folds over the `_name`s of the columns
    (`namesT<tag>`); every other statement is checked not to interfere (no mention of these variables, no
    `continue`/`break`/`return`, no assignment to a loop variable or to an iterated argument other than the recognised
    normalisation statements at the top of the method).

Parameters of the generated definitions (not re-implemented): `fmt : Nat -> String` (how an f-string renders the integer `i`),
`sanitize_user_name : String -> Option String` (`naming._sanitize_user_name`, which has its own tie), `fuel`.
A column is seen through its `_name : Optional[str]`; `a or "lit"` on such a value is `pyOrStr`.
Anything not understood raises TranslateError: the piece is replaced by a comment and reported in `errors`.
"""
import ast, os

import py2lean
from py2lean import TranslateError

GEN_FILE = "TranslatedUniquify.lean"
TIE = {"Serif.Tie.Uniquify": ["C12", "C13", "C18"]}

_LEAN_WORDS = set(py2lean._LEAN_WORDS) | {"new", "final", "private", "public", "section", "namespace", "instance", "structure",
                                           "class", "theorem", "example", "match", "if", "where", "return", "for", "mut", "meta"}


def _ln(name):
    return name + "_" if name in _LEAN_WORDS else name


def _u(node):
    return ast.unparse(node)


def _lean_str(s):
    out = ['"']
    for ch in s:
        if ch == '"':
            out.append('\\"')
        elif ch == "\\":
            out.append("\\\\")
        elif ch == "\n":
            out.append("\\n")
        elif 32 <= ord(ch) < 127:
            out.append(ch)
        else:
            out.append("\\u{%x}" % ord(ch))
    out.append('"')
    return "".join(out)


def _is_doc(s):
    return isinstance(s, ast.Expr) and isinstance(s.value, ast.Constant) and isinstance(s.value.value, str)


class _DropDocAndMessages(ast.NodeTransformer):
    """for quoting / comparing source text: docstrings dropped, the arguments of raised exceptions replaced by `...`"""
    def visit_FunctionDef(self, node):
        self.generic_visit(node)
        node.body = [s for s in node.body if not _is_doc(s)] or [ast.Pass()]
        return node

    def visit_Raise(self, node):
        if isinstance(node.exc, ast.Call):
            node.exc = ast.Call(func=node.exc.func, args=[ast.Constant(value=Ellipsis)], keywords=[])
        return node


def _clean_text(node):
    import copy
    n = _DropDocAndMessages().visit(copy.deepcopy(node))
    ast.fix_missing_locations(n)
    return ast.unparse(n)


def _quote(text, indent="    "):
    text = text.replace("-/", "- /").replace("/-", "/ -")
    return "\n".join(indent + ln for ln in text.split("\n"))


def _walk_shallow(node):
    """ast.walk that does not enter nested function definitions, lambdas or comprehensions' own scopes for control flow"""
    todo = [node]
    while todo:
        n = todo.pop()
        yield n
        for ch in ast.iter_child_nodes(n):
            if isinstance(ch, (ast.FunctionDef, ast.AsyncFunctionDef, ast.Lambda, ast.ClassDef)):
                continue
            todo.append(ch)


def _mentions(node, names):
    return any(isinstance(n, ast.Name) and n.id in names for n in ast.walk(node))


def _stores(node):
    """names assigned by the statement in the enclosing function's scope (comprehension targets and nested defs excluded)"""
    out = set()
    todo = [node]
    while todo:
        n = todo.pop()
        if isinstance(n, (ast.FunctionDef, ast.AsyncFunctionDef, ast.ClassDef)):
            if n is not node:
                out.add(n.name)
                continue
        if isinstance(n, (ast.Lambda, ast.ListComp, ast.SetComp, ast.DictComp, ast.GeneratorExp)):
            # a walrus inside would leak, refuse it
            if any(isinstance(m, ast.NamedExpr) for m in ast.walk(n)):
                raise TranslateError("walrus in comprehension/lambda")
            continue
        if isinstance(n, ast.Name) and isinstance(n.ctx, (ast.Store, ast.Del)):
            out.add(n.id)
        if isinstance(n, (ast.Global, ast.Nonlocal)):
            out.update(n.names)
        if isinstance(n, (ast.Import, ast.ImportFrom)):
            out.update((a.asname or a.name).split(".")[0] for a in n.names)
        todo.extend(ast.iter_child_nodes(n))
    return out


# ---------------------------------------------------------------------------------------------
# expressions and blocks of the two small local functions
# ---------------------------------------------------------------------------------------------
class _Fn:
    """typed mini-translator: types are 'str', 'nat', 'optstr' (Optional[str]), 'bool'"""

    def __init__(self, where, setvar=None, namer=None, namer_lean=None):
        self.where = where
        self.setvar = setvar            # the closure variable holding the set of used names (None: no such variable allowed)
        self.namer = namer              # python name of the candidate-name function (callable from expressions)
        self.namer_lean = namer_lean
        self.uses_fuel = False

    def fail(self, node, why=""):
        raise TranslateError(f"{self.where}: {why or 'not understood'}: {_u(node)[:90]}")

    def ex(self, node, env):
        if isinstance(node, ast.Constant):
            if isinstance(node.value, str):
                return _lean_str(node.value), "str"
            if isinstance(node.value, int) and not isinstance(node.value, bool) and node.value >= 0:
                return str(node.value), "nat"
            self.fail(node, "constant")
        if isinstance(node, ast.Name):
            if node.id not in env:
                self.fail(node, "unknown name")
            return _ln(node.id), env[node.id]
        if isinstance(node, ast.Attribute) and node.attr == "_name" and isinstance(node.value, ast.Name) \
                and env.get(node.value.id) == "col":
            return _ln(node.value.id), "optstr"       # a column is seen through its `_name`
        if isinstance(node, ast.BoolOp) and isinstance(node.op, ast.Or) and len(node.values) == 2:
            a, at = self.ex(node.values[0], env)
            b, bt = self.ex(node.values[1], env)
            if at == "optstr" and bt == "str":
                return f"pyOrStr {self.par(a)} {self.par(b)}", "str"
            self.fail(node, f"`or` on {at}, {bt}")
        if isinstance(node, ast.JoinedStr):
            parts = []
            for v in node.values:
                if isinstance(v, ast.Constant) and isinstance(v.value, str):
                    parts.append(_lean_str(v.value))
                elif isinstance(v, ast.FormattedValue) and v.conversion == -1 and v.format_spec is None:
                    e, t = self.ex(v.value, env)
                    if t == "str":
                        parts.append(self.par(e))
                    elif t == "nat":
                        parts.append(f"fmt {self.par(e)}")
                    else:
                        self.fail(node, f"formatted value of type {t}")
                else:
                    self.fail(node, "f-string piece")
            if not parts:
                return '""', "str"
            return " ++ ".join(parts), "str"
        if isinstance(node, ast.Compare) and len(node.ops) == 1 and isinstance(node.ops[0], (ast.In, ast.NotIn)) \
                and isinstance(node.comparators[0], ast.Name) and self.setvar and node.comparators[0].id == self.setvar:
            e, t = self.ex(node.left, env)
            if t != "str":
                self.fail(node, "membership of a non-string")
            s = f"{_ln(self.setvar)}.contains {self.par(e)}"
            return (s if isinstance(node.ops[0], ast.In) else f"!({s})"), "bool"
        if isinstance(node, ast.BinOp) and isinstance(node.op, ast.Add):
            a, at = self.ex(node.left, env)
            b, bt = self.ex(node.right, env)
            if at == bt == "nat":
                return f"{self.par(a)} + {self.par(b)}", "nat"
            if at == bt == "str":
                return f"{self.par(a)} ++ {self.par(b)}", "str"
            self.fail(node, "+")
        if isinstance(node, ast.Call) and isinstance(node.func, ast.Name) and not node.keywords:
            if node.func.id == "_sanitize_user_name" and len(node.args) == 1 and "_sanitize_user_name" not in env:
                a, at = self.ex(node.args[0], env)
                if at != "str":
                    self.fail(node, "argument of _sanitize_user_name")
                return f"sanitize_user_name {self.par(a)}", "optstr"
            if self.namer and node.func.id == self.namer and len(node.args) == 2 and self.namer not in env:
                c = node.args[0]
                if not (isinstance(c, ast.Name) and env.get(c.id) == "col"):
                    self.fail(node, "first argument is not a column variable")
                b, bt = self.ex(node.args[1], env)
                if bt != "str":
                    self.fail(node, "suffix is not a string")
                return f"{self.namer_lean} sanitize_user_name {_ln(c.id)} {self.par(b)}", "str"
        self.fail(node, "expression")

    @staticmethod
    def par(e):
        if e.replace("_", "a").replace(".", "a").isalnum() or (e.startswith('"') and e.endswith('"') and e.count('"') == 2):
            return e
        return "(" + e + ")"

    def block(self, stmts, env, ind, ret, open_end=False):
        """returns Lean lines; `ret(e)` renders the returned value"""
        pad = " " * ind
        env = dict(env)
        out = []
        stmts = [s for s in stmts if not _is_doc(s)]
        for k, s in enumerate(stmts):
            rest = stmts[k + 1:]
            if isinstance(s, ast.Return):
                if s.value is None:
                    self.fail(s, "bare return")
                e, t = self.ex(s.value, env)
                if t != "str":
                    self.fail(s, "returns a non-string")
                if rest:
                    self.fail(rest[0], "statement after return")
                out.append(pad + ret(e))
                return out
            if isinstance(s, ast.Assign) and len(s.targets) == 1 and isinstance(s.targets[0], ast.Name):
                v = s.targets[0].id
                if v == self.setvar or env.get(v) == "col":
                    self.fail(s, "assignment to the set / a column")
                e, t = self.ex(s.value, env)
                ann = {"nat": " : Nat", "str": " : String", "optstr": " : Option String", "bool": " : Bool"}[t]
                out.append(pad + f"let {_ln(v)}{ann} := {e}")
                env[v] = t
                continue
            if isinstance(s, ast.AugAssign) and isinstance(s.op, ast.Add) and isinstance(s.target, ast.Name):
                v = s.target.id
                e, t = self.ex(s.value, env)
                if env.get(v) == "nat" and t == "nat":
                    out.append(pad + f"let {_ln(v)} : Nat := {_ln(v)} + {self.par(e)}")
                elif env.get(v) == "str" and t == "str":
                    out.append(pad + f"let {_ln(v)} : String := {_ln(v)} ++ {self.par(e)}")
                else:
                    self.fail(s, "+=")
                continue
            if isinstance(s, ast.Expr) and isinstance(s.value, ast.Call) and isinstance(s.value.func, ast.Attribute) \
                    and s.value.func.attr == "add" and isinstance(s.value.func.value, ast.Name) and self.setvar \
                    and s.value.func.value.id == self.setvar and len(s.value.args) == 1 and not s.value.keywords:
                e, t = self.ex(s.value.args[0], env)
                if t != "str":
                    self.fail(s, "adds a non-string")
                sv = _ln(self.setvar)
                out.append(pad + f"let {sv} : List String := {self.par(e)} :: {sv}")
                continue
            if isinstance(s, ast.While) and not s.orelse:
                vs = set()
                for b in s.body:
                    if isinstance(b, ast.AugAssign) and isinstance(b.target, ast.Name):
                        vs.add(b.target.id)
                    elif isinstance(b, ast.Assign) and len(b.targets) == 1 and isinstance(b.targets[0], ast.Name):
                        vs.add(b.targets[0].id)
                    else:
                        self.fail(b, "statement in a while body")
                if len(vs) != 1 or env.get(next(iter(vs))) != "nat":
                    self.fail(s, "while loop whose state is not one integer variable")
                v = next(iter(vs))
                c, ct = self.ex(s.test, env)
                if ct != "bool":
                    self.fail(s.test, "while condition")
                body = self.block(s.body, env, 0, lambda e: e, open_end=True)
                body_e = "; ".join(ln.strip() for ln in body) + f"; {_ln(v)}"
                self.uses_fuel = True
                out.append(pad + f"let {_ln(v)} : Nat := whileFuel (fun {_ln(v)} => {c}) (fun {_ln(v)} => {body_e}) fuel {_ln(v)}")
                continue
            if isinstance(s, ast.If):
                # `if x is None: x = <str>`  (x : Optional[str])
                if isinstance(s.test, ast.Compare) and len(s.test.ops) == 1 and isinstance(s.test.ops[0], ast.Is) \
                        and isinstance(s.test.left, ast.Name) and isinstance(s.test.comparators[0], ast.Constant) \
                        and s.test.comparators[0].value is None and env.get(s.test.left.id) == "optstr" and not s.orelse \
                        and len(s.body) == 1 and isinstance(s.body[0], ast.Assign) and len(s.body[0].targets) == 1 \
                        and isinstance(s.body[0].targets[0], ast.Name) and s.body[0].targets[0].id == s.test.left.id:
                    v = s.test.left.id
                    e, t = self.ex(s.body[0].value, {k2: t2 for k2, t2 in env.items() if k2 != v})
                    if t != "str":
                        self.fail(s, "None replaced by a non-string")
                    out.append(pad + f"let {_ln(v)} : String := match {_ln(v)} with | none => {e} | some {_ln(v)} => {_ln(v)}")
                    env[v] = "str"
                    continue
                c, ct = self.ex(s.test, env)
                if ct != "bool":
                    self.fail(s.test, "condition")
                if py2lean.always_returns(s.body) and not any(isinstance(x, ast.Raise) for x in ast.walk(s)):
                    out.append(pad + f"if {c} then")
                    out += self.block(s.body, env, ind + 2, ret)
                    out.append(pad + "else")
                    out += self.block(list(s.orelse) + rest, env, ind + 2, ret)
                    return out
                self.fail(s, "if")
            self.fail(s, "statement")
        if open_end:
            return out
        raise TranslateError(f"{self.where}: falls off the end without `return`")


# ---------------------------------------------------------------------------------------------
# one method (aggregate / window)
# ---------------------------------------------------------------------------------------------
_NORMALIZE = ("def N(v):\n    if v is None:\n        return None\n    if isinstance(v, (str, Vector)):\n"
              "        return [self._resolve_column(v)]\n    return [self._resolve_column(col) for col in v]")


class _Method:
    def __init__(self, tree, mname, tag):
        self.m = py2lean.find_func(tree, mname, "Table")
        self.mname, self.tag = mname, tag
        self.body = [s for s in self.m.body if not _is_doc(s)]
        self.defs = {s.name: s for s in self.body if isinstance(s, ast.FunctionDef)}
        if len(self.defs) != len([s for s in self.body if isinstance(s, ast.FunctionDef)]):
            raise TranslateError(f"{mname}: a local function is defined twice")
        a = self.m.args
        if a.vararg or a.kwarg or a.posonlyargs or a.kwonlyargs:
            raise TranslateError(f"{mname}: signature")
        self.params = [x.arg for x in a.args][1:]
        # --- uniquify and its set
        if "uniquify" not in self.defs:
            raise TranslateError(f"{mname}: no local function `uniquify`")
        self.uniq = self.defs["uniquify"]
        adds = {n.func.value.id for n in ast.walk(self.uniq) if isinstance(n, ast.Call) and isinstance(n.func, ast.Attribute)
                and n.func.attr == "add" and isinstance(n.func.value, ast.Name)}
        if len(adds) != 1:
            raise TranslateError(f"{mname}.uniquify: exactly one set variable expected, found {sorted(adds)}")
        self.S = next(iter(adds))
        # --- the candidate-name function: the local function that calls _sanitize_user_name
        namers = [n for n, f in self.defs.items() if n != "uniquify" and _mentions(f, {"_sanitize_user_name"})]
        if len(namers) != 1:
            raise TranslateError(f"{mname}: exactly one local function calling _sanitize_user_name expected, found {namers}")
        self.namer = namers[0]
        self.uniq_lean = f"uniquifyT{tag}"
        self.namer_lean = f"makeAggNameT{tag}"
        self.names_lean = f"namesT{tag}"

    # -- uniquify -------------------------------------------------------------------------------
    def translate_uniquify(self):
        f = self.uniq
        a = f.args
        if [x.arg for x in a.args] != ["name"] or a.vararg or a.kwarg or a.defaults or a.kwonlyargs or a.posonlyargs or f.decorator_list:
            raise TranslateError(f"{self.mname}.uniquify: signature")
        if any(isinstance(n, (ast.Global, ast.Nonlocal)) for n in ast.walk(f)):
            raise TranslateError(f"{self.mname}.uniquify: global/nonlocal")
        # the set is created once, as an empty set, at the top level of the method, and nothing but uniquify touches it
        inits = [s for s in self.body if isinstance(s, ast.Assign) and _u(s) == f"{self.S} = set()"]
        if len(inits) != 1:
            raise TranslateError(f"{self.mname}: `{self.S} = set()` expected exactly once at the top level")
        for s in self.body:
            if s is f or s is inits[0]:
                continue
            if _mentions(s, {self.S}):
                raise TranslateError(f"{self.mname}: `{self.S}` is used outside uniquify: {_u(s)[:60]}")
        tr = _Fn(f"{self.mname}.uniquify", setvar=self.S)
        sv = _ln(self.S)
        lines = tr.block(f.body, {"name": "str"}, 2, lambda e: f"({e}, {sv})")
        if not tr.uses_fuel:
            raise TranslateError(f"{self.mname}.uniquify: no while loop")
        doc = (f"/-- translated from `uniquify` inside `Table.{self.mname}` (the closure variable `{self.S}`, a set, is passed in and\n"
               f"    returned with the result; `fmt i` is how the f-string renders the integer `i`; the `while` runs at most `fuel` times):\n"
               + _quote(_clean_text(f)) + " -/\n")
        d1 = (doc + f"def uniquifyFuelT{self.tag} (fmt : Nat → String) (fuel : Nat) ({sv} : List String) (name : String) : String × List String :=\n"
              + "\n".join(lines))
        d2 = (f"/-- `uniquify` of `Table.{self.mname}` with fuel `len({self.S}) + 1` (enough: Serif.Tie.uniquifyFuel{self.tag}_stable) -/\n"
              f"def {self.uniq_lean} (fmt : Nat → String) ({sv} : List String) (name : String) : String × List String :=\n"
              f"  uniquifyFuelT{self.tag} fmt ({sv}.length + 1) {sv} name")
        return [d1, d2]

    # -- make_agg_name / sanitize ---------------------------------------------------------------
    def translate_namer(self):
        f = self.defs[self.namer]
        a = f.args
        ps = [x.arg for x in a.args]
        if len(ps) != 2 or a.vararg or a.kwarg or a.defaults or a.kwonlyargs or a.posonlyargs or f.decorator_list:
            raise TranslateError(f"{self.mname}.{self.namer}: signature")
        if any(isinstance(n, (ast.Global, ast.Nonlocal)) for n in ast.walk(f)):
            raise TranslateError(f"{self.mname}.{self.namer}: global/nonlocal")
        tr = _Fn(f"{self.mname}.{self.namer}")
        lines = tr.block(f.body, {ps[0]: "col", ps[1]: "str"}, 2, lambda e: e)
        doc = (f"/-- translated from `{self.namer}` inside `Table.{self.mname}` (`{ps[0]}` is the column's `_name`):\n"
               + _quote(_clean_text(f)) + " -/\n")
        return [doc + f"def {self.namer_lean} (sanitize_user_name : String → Option String) ({_ln(ps[0])} : Option String) "
                f"({_ln(ps[1])} : String) : String :=\n" + "\n".join(lines)]

    # -- the naming skeleton of the method ------------------------------------------------------
    def translate_names(self, sanitize_is_imported):
        if not sanitize_is_imported:
            raise TranslateError("table.py: `_sanitize_user_name` is not (only) the function imported from .naming")
        m, S = self.mname, self.S
        last = self.body[-1]
        if not (isinstance(last, ast.Return) and isinstance(last.value, ast.Call) and _u(last.value.func) == "Table"
                and len(last.value.args) == 1 and not last.value.keywords and isinstance(last.value.args[0], ast.Name)):
            raise TranslateError(f"{m}: last statement is not `return Table(<list>)`")
        R = last.value.args[0].id
        # local functions that touch the names (other than uniquify and the namer): "appenders" such as aggregate_col
        core = {S, R, "uniquify", self.namer}
        appenders = [n for n, f in self.defs.items() if n not in ("uniquify", self.namer) and _mentions(f, core)]
        naming = core | set(appenders)
        for n, f in self.defs.items():
            if n not in naming and _mentions(f, naming):
                raise TranslateError(f"{m}.{n}: touches the naming state")
        for n in ast.walk(self.m):
            if isinstance(n, ast.Lambda) and _mentions(n, naming):
                raise TranslateError(f"{m}: a lambda touches the naming state")
        self.R, self.naming, self.appenders = R, naming, appenders
        self.app_sigs = {}
        # Lean names do not depend on what the source calls the helper
        self.app_lean = {n: f"appendColT{self.tag}" + ("" if k == 0 else str(k + 1)) for k, n in enumerate(appenders)}
        pieces = []
        for n in appenders:
            pieces.append(self.translate_appender(self.defs[n]))
        # ---- walk the top level
        lines, quoted = [], []
        iterables = []          # parameters iterated by the naming loops, in order of use
        normalised = {}         # parameter -> number of recognised normalisation statements seen
        seen_S = seen_R = False
        first_loop_seen = False
        norm_fn = None
        for s in self.body[:-1]:
            if isinstance(s, ast.FunctionDef):
                if s.name not in naming and _clean_text(s).replace(f"def {s.name}(", "def N(", 1) == _NORMALIZE:
                    if norm_fn:
                        raise TranslateError(f"{m}: two normalising functions")
                    norm_fn = s.name
                continue
            txt = _u(s)
            if txt == f"{S} = set()":
                if first_loop_seen:
                    raise TranslateError(f"{m}: `{txt}` after a naming loop")
                seen_S = True
                lines.append(f"  let {_ln(S)} : List String := []")
                quoted.append(txt)
                continue
            if txt == f"{R} = []":
                if first_loop_seen or seen_R:
                    raise TranslateError(f"{m}: `{txt}` repeated or after a naming loop")
                seen_R = True
                lines.append(f"  let {_ln(R)} : List String := []")
                quoted.append(txt)
                continue
            if not _mentions(s, naming):
                self.check_inert(s, set(), f"{m}")
                st = _stores(s) & set(self.params)
                if st:
                    # recognised normalisations of the iterated arguments (before any naming loop)
                    ok = False
                    if len(st) == 1:
                        p = next(iter(st))
                        if txt in (f"if isinstance({p}, (str, Vector)):\n    {p} = [{p}]",
                                   f"{p} = [self._resolve_column(col) for col in {p}]") or (norm_fn and txt == f"{p} = {norm_fn}({p})"):
                            ok = not first_loop_seen
                            normalised.setdefault(p, []).append(txt)
                    if not ok:
                        raise TranslateError(f"{m}: argument reassigned in a way that is not understood: {txt[:70]}")
                continue
            # a naming statement: `for` or `if X: for`
            first_loop_seen = True
            if not (seen_S and seen_R):
                raise TranslateError(f"{m}: naming loop before `{S} = set()` / `{R} = []`")
            loop, guard = s, None
            if isinstance(s, ast.If):
                t = s.test
                if isinstance(t, ast.Name):
                    guard = t.id
                elif isinstance(t, ast.Compare) and len(t.ops) == 1 and isinstance(t.ops[0], ast.IsNot) and isinstance(t.left, ast.Name) \
                        and isinstance(t.comparators[0], ast.Constant) and t.comparators[0].value is None:
                    guard = t.left.id
                else:
                    raise TranslateError(f"{m}: guard of a naming block: {_u(t)[:60]}")
                if s.orelse or len(s.body) != 1 or not isinstance(s.body[0], ast.For):
                    raise TranslateError(f"{m}: `if {guard}:` must contain exactly one `for` loop")
                loop = s.body[0]
            if not isinstance(loop, ast.For):
                raise TranslateError(f"{m}: naming statement that is not a loop: {txt[:70]}")
            it, fold, q = self.translate_loop(loop)
            if guard is not None and guard != it:
                raise TranslateError(f"{m}: `if {guard}:` guards a loop over `{it}`")
            if it in iterables:
                raise TranslateError(f"{m}: `{it}` iterated twice")
            if not iterables:
                lines.append(f"  let st : List String × List String := ({_ln(S)}, {_ln(R)})     -- the state the loops below update")
            iterables.append(it)
            if guard is not None:
                # `if X:` / `if X is not None:` -- X is None or a list/dict; both None and empty leave the state unchanged
                quoted.append(f"if {_u(s.test)}:\n    " + q.replace("\n", "\n    "))
                lines.append(f"  let st : List String × List String := if !{_ln(it)}.isEmpty then\n{fold}\n    else st")
            else:
                quoted.append(q)
                lines.append(f"  let st : List String × List String :=\n{fold}")
        if not iterables:
            raise TranslateError(f"{m}: no naming loop found")
        lines.append(f"  st.2     -- {_u(last)}")
        quoted.append(_u(last))
        # every iterated argument except the dict (`.items()`) must have been normalised in the recognised way
        for p in iterables:
            want = None
            if p in self.dict_params:
                if p in normalised:
                    raise TranslateError(f"{m}: `{p}` reassigned")
                continue
            got = normalised.get(p, [])
            if not (got == [f"{p} = {norm_fn}({p})"] or
                    got == [f"if isinstance({p}, (str, Vector)):\n    {p} = [{p}]", f"{p} = [self._resolve_column(col) for col in {p}]"]):
                raise TranslateError(f"{m}: normalisation of `{p}` not recognised: {got}")
        for p in normalised:
            if p not in iterables:
                raise TranslateError(f"{m}: `{p}` is normalised but never named")
        order = [p for p in self.params if p in iterables]
        cols = [p for p in order if p not in self.dict_params]
        sig = (f"({' '.join(_ln(p) for p in cols)} : List (Option String))" if cols else "") + \
            "".join(f" ({_ln(p)} : List String)" for p in order if p in self.dict_params)
        doc = (f"/-- the naming skeleton of `Table.{m}`, in source order (the statements that touch `{S}` or `{R}`; a column is\n"
               f"    seen through its `_name`; `{', '.join(p for p in order if p not in self.dict_params)}` are the resolved column lists after normalisation, `None` as `[]`;\n"
               f"    `{', '.join(self.dict_params)}`: the keys of the dict in its order, `None` as `[]`; the result is the list of `name=` of `{R}`):\n"
               + _quote("\n".join(quoted)) + " -/\n")
        pieces.append(doc + f"def {self.names_lean} (fmt : Nat → String) (sanitize_user_name : String → Option String)\n    {sig} : List String :=\n"
                      + "\n".join(lines))
        self.order = order
        return pieces

    def check_inert(self, s, loopvars, where):
        """a statement that is skipped: no control flow that changes which naming statements run, no assignment to loop variables"""
        for n in ([] if isinstance(s, (ast.FunctionDef, ast.ClassDef)) else _walk_shallow(s)):
            if isinstance(n, (ast.Continue, ast.Break, ast.Return)):
                raise TranslateError(f"{where}: `{_u(n)[:40]}` among the skipped statements")
            if isinstance(n, (ast.Try, ast.With)):
                raise TranslateError(f"{where}: try/with among the skipped statements")
            if isinstance(n, ast.Attribute) and n.attr in ("_name", "name") and not isinstance(n.ctx, ast.Load):
                raise TranslateError(f"{where}: a skipped statement sets a column's name: {_u(s)[:60]}")
            if isinstance(n, ast.Call) and isinstance(n.func, ast.Attribute) and n.func.attr in ("rename", "_rename", "setattr") \
                    or isinstance(n, ast.Call) and isinstance(n.func, ast.Name) and n.func.id == "setattr":
                raise TranslateError(f"{where}: a skipped statement may rename a column: {_u(s)[:60]}")
        bad = _stores(s) & (set(loopvars) | self.naming)
        if bad:
            raise TranslateError(f"{where}: skipped statement assigns {sorted(bad)}")

    def name_steps(self, stmts, env, where, ind):
        """the naming statements of a loop body / appender body -> Lean lines updating `S` and `R`; returns (lines, quoted)"""
        S, R = _ln(self.S), _ln(self.R)
        pad = " " * ind
        tr = _Fn(where, namer=self.namer, namer_lean=self.namer_lean)
        out, quoted, bound = [], [], {}
        k = 0

        def uniq_call(node, env2):
            """`uniquify(E)` -> lines computing r"""
            if not (isinstance(node, ast.Call) and isinstance(node.func, ast.Name) and node.func.id == "uniquify"
                    and len(node.args) == 1 and not node.keywords):
                raise TranslateError(f"{where}: expected `uniquify(<name>)`: {_u(node)[:60]}")
            e, t = tr.ex(node.args[0], env2)
            if t != "str":
                raise TranslateError(f"{where}: uniquify of a non-string")
            return [pad + f"let r := {self.uniq_lean} fmt {S} {tr.par(e)}", pad + f"let {S} : List String := r.2"]

        for s in [x for x in stmts if not _is_doc(x)]:
            if not _mentions(s, self.naming):
                self.check_inert(s, [v for v in env], where)
                continue
            if isinstance(s, ast.Assign) and len(s.targets) == 1 and isinstance(s.targets[0], ast.Name) \
                    and isinstance(s.value, ast.Call) and _u(s.value.func) == "uniquify":
                v = s.targets[0].id
                if v in env or v in self.naming:
                    raise TranslateError(f"{where}: `{v}` reassigned")
                out += uniq_call(s.value, env)
                out.append(pad + f"let {_ln(v)} : String := r.1")
                env = dict(env)
                env[v] = "str"
                bound[v] = True
                quoted.append(_u(s))
                continue
            if isinstance(s, ast.Expr) and isinstance(s.value, ast.Call):
                c = s.value
                # R.append(Vector(<values>, name=<E>))
                if isinstance(c.func, ast.Attribute) and c.func.attr == "append" and isinstance(c.func.value, ast.Name) \
                        and c.func.value.id == self.R and len(c.args) == 1 and not c.keywords:
                    v = c.args[0]
                    if not (isinstance(v, ast.Call) and _u(v.func) == "Vector" and len(v.args) == 1 and [kw.arg for kw in v.keywords] == ["name"]):
                        raise TranslateError(f"{where}: appended value is not `Vector(<values>, name=...)`: {_u(v)[:60]}")
                    if _mentions(v.args[0], self.naming):
                        raise TranslateError(f"{where}: the values of the column touch the naming state")
                    ne = v.keywords[0].value
                    if isinstance(ne, ast.Name) and bound.get(ne.id):
                        out.append(pad + f"let {R} : List String := {R} ++ [{_ln(ne.id)}]")
                    else:
                        out += uniq_call(ne, env)
                        out.append(pad + f"let {R} : List String := {R} ++ [r.1]")
                    quoted.append(f"{self.R}.append(Vector(_, name={_u(ne)}))")
                    continue
                # appender(col, _, "suffix")
                if isinstance(c.func, ast.Name) and c.func.id in self.app_sigs and not c.keywords:
                    sig = self.app_sigs[c.func.id]
                    if len(c.args) != len(sig):
                        raise TranslateError(f"{where}: call of {c.func.id} with the wrong number of arguments")
                    args = []
                    for a_node, (pn, pt) in zip(c.args, sig):
                        if pt is None:
                            if _mentions(a_node, self.naming):
                                raise TranslateError(f"{where}: argument touches the naming state")
                            continue
                        if pt == "col":
                            if not (isinstance(a_node, ast.Name) and env.get(a_node.id) == "col"):
                                raise TranslateError(f"{where}: column argument of {c.func.id}: {_u(a_node)[:40]}")
                            args.append(_ln(a_node.id))
                        else:
                            e, t = tr.ex(a_node, env)
                            if t != pt:
                                raise TranslateError(f"{where}: argument of {c.func.id}: {_u(a_node)[:40]}")
                            args.append(tr.par(e))
                    out.append(pad + f"let st := {self.app_lean[c.func.id]} fmt sanitize_user_name ({S}, {R}) " + " ".join(args))
                    out.append(pad + f"let {S} : List String := st.1")
                    out.append(pad + f"let {R} : List String := st.2")
                    quoted.append(f"{c.func.id}(" + ", ".join("_" if pt is None else _u(a_node) for a_node, (pn, pt) in zip(c.args, sig)) + ")")
                    continue
            raise TranslateError(f"{where}: naming statement not understood: {_u(s)[:80]}")
        return out, quoted

    def translate_appender(self, f):
        """a local function such as `aggregate_col(col, func, suffix)` whose body names and appends one result column"""
        where = f"{self.mname}.{f.name}"
        a = f.args
        if a.vararg or a.kwarg or a.defaults or a.kwonlyargs or a.posonlyargs or f.decorator_list:
            raise TranslateError(f"{where}: signature")
        if any(isinstance(n, (ast.Global, ast.Nonlocal)) for n in ast.walk(f)):
            raise TranslateError(f"{where}: global/nonlocal")
        ps = [x.arg for x in a.args]
        # types of the parameters from their use as arguments of the namer
        types = {p: None for p in ps}
        for n in ast.walk(f):
            if isinstance(n, ast.Call) and isinstance(n.func, ast.Name) and n.func.id == self.namer and len(n.args) == 2:
                if isinstance(n.args[0], ast.Name) and n.args[0].id in types:
                    types[n.args[0].id] = "col"
                if isinstance(n.args[1], ast.Name) and n.args[1].id in types:
                    types[n.args[1].id] = "str"
        for s in f.body:
            for n in _walk_shallow(s):
                if isinstance(n, ast.Return) and n.value is not None:
                    raise TranslateError(f"{where}: returns a value")
                if isinstance(n, ast.Return):
                    raise TranslateError(f"{where}: early return")
        self.app_sigs[f.name] = [(p, types[p]) for p in ps]
        env = {p: t for p, t in types.items() if t}
        sigs = self.app_sigs
        self.app_sigs = {}               # no appender calls inside an appender
        lines, quoted = self.name_steps(f.body, env, where, 2)
        self.app_sigs = sigs
        S, R = _ln(self.S), _ln(self.R)
        sig = " ".join(f"({_ln(p)} : {'Option String' if t == 'col' else 'String'})" for p, t in self.app_sigs[f.name] if t)
        doc = (f"/-- the naming statements of `{f.name}({', '.join(ps)})` inside `Table.{self.mname}`, in order (state: `{self.S}`, names of `{self.R}`):\n"
               + _quote("\n".join(quoted)) + " -/\n")
        return (doc + f"def {self.app_lean[f.name]} (fmt : Nat → String) (sanitize_user_name : String → Option String)\n"
                f"    (st : List String × List String) {sig} : List String × List String :=\n"
                f"  let {S} : List String := st.1\n  let {R} : List String := st.2\n" + "\n".join(lines) + f"\n  ({S}, {R})")

    dict_params = ()

    def translate_loop(self, loop):
        """`for col in X` / `for idx, col in enumerate(X)` / `for key, (..) in X.items()` -> (X, Lean fold, quoted text)"""
        m = self.mname
        if loop.orelse:
            raise TranslateError(f"{m}: for/else")
        it, tgt = loop.iter, loop.target
        env = {}
        if isinstance(it, ast.Name) and isinstance(tgt, ast.Name):
            X, var = it.id, tgt.id
            env[var] = "col"
        elif isinstance(it, ast.Call) and _u(it.func) == "enumerate" and len(it.args) == 1 and not it.keywords and isinstance(it.args[0], ast.Name) \
                and isinstance(tgt, ast.Tuple) and len(tgt.elts) == 2 and all(isinstance(e, ast.Name) for e in tgt.elts):
            X, var = it.args[0].id, tgt.elts[1].id
            env[var] = "col"
            if tgt.elts[0].id == var:
                raise TranslateError(f"{m}: loop target")
        elif isinstance(it, ast.Call) and isinstance(it.func, ast.Attribute) and it.func.attr == "items" and not it.args and not it.keywords \
                and isinstance(it.func.value, ast.Name) and isinstance(tgt, ast.Tuple) and len(tgt.elts) == 2 and isinstance(tgt.elts[0], ast.Name):
            X, var = it.func.value.id, tgt.elts[0].id
            env[var] = "str"
            if var in {n.id for n in ast.walk(tgt.elts[1]) if isinstance(n, ast.Name)}:
                raise TranslateError(f"{m}: loop target")
            self.dict_params = tuple(self.dict_params) + (X,)
        else:
            raise TranslateError(f"{m}: loop header not understood: for {_u(tgt)} in {_u(it)}")
        if X not in self.params:
            raise TranslateError(f"{m}: loop over `{X}`, which is not an argument of the method")
        if var in self.naming or var in self.params:
            raise TranslateError(f"{m}: loop variable `{var}` shadows something")
        body, quoted = self.name_steps(loop.body, env, f"{m}: loop over {X}", 6)
        if not body:
            raise TranslateError(f"{m}: loop over {X} names nothing")
        S, R = _ln(self.S), _ln(self.R)
        fold = (f"    {_ln(X)}.foldl (fun (st : List String × List String) ({_ln(var)} : {'String' if env[var] == 'str' else 'Option String'}) =>\n"
                f"      let {S} : List String := st.1\n      let {R} : List String := st.2\n" + "\n".join(body)
                + f"\n      ({S}, {R})) st")
        q = f"for {_u(tgt)} in {_u(it)}:\n    " + "\n    ".join(quoted)
        return X, fold, q


_SUPPORT = '''/-- `a or b` for `a : Optional[str]` and a string `b`: `b` when `a` is `None` or empty, else `a` -/
def pyOrStr (a : Option String) (b : String) : String :=
  match a with
  | none => b
  | some s => if s = "" then b else s

/-- `while cond(s): s = body(s)`, at most `fuel` iterations -/
def whileFuel {σ : Type} (cond : σ → Bool) (body : σ → σ) : Nat → σ → σ
  | 0, s => s
  | fuel + 1, s => if cond s then whileFuel cond body fuel (body s) else s'''


def _sanitize_imported(tree):
    """`_sanitize_user_name` at module level is the one imported from .naming and is not rebound at module level"""
    imp = 0
    for s in tree.body:
        if isinstance(s, ast.ImportFrom) and s.module == "naming" and s.level == 1 and any(a.name == "_sanitize_user_name" and a.asname is None for a in s.names):
            imp += 1
        elif "_sanitize_user_name" in _stores(s):
            return False
    return imp == 1


def generate(src_dir):
    parts, errors = [_SUPPORT], []
    try:
        tree = ast.parse(open(os.path.join(src_dir, "table.py")).read())
    except Exception as ex:
        tree = None
        errors.append(("uniquify", f"{type(ex).__name__}: {ex}"))
        parts.append(f"-- table.py: not translated ({type(ex).__name__})")
    if tree is not None:
        imported = _sanitize_imported(tree)
        for mname, tag in (("aggregate", "Agg"), ("window", "Win")):
            try:
                meth = _Method(tree, mname, tag)
            except Exception as ex:
                errors.append((f"{mname}", f"{type(ex).__name__}: {ex}"))
                parts.append(f"-- {mname}: not translated ({type(ex).__name__})")
                continue
            ok = True
            for what, fn in (("uniquify", meth.translate_uniquify), ("candidate name", meth.translate_namer),
                             ("names", lambda: meth.translate_names(imported))):
                if what == "names" and not ok:
                    errors.append((f"{mname} names", "TranslateError: depends on a piece that was not translated"))
                    parts.append(f"-- {mname} names: not translated (depends on a piece that was not translated)")
                    continue
                try:
                    parts += fn()
                except Exception as ex:
                    ok = False
                    errors.append((f"{mname} {what}", f"{type(ex).__name__}: {ex}"))
                    parts.append(f"-- {mname} {what}: not translated ({type(ex).__name__})")
    text = ("/- GENERATED by harness/tr/uniquify.py from /repo's working tree — do not edit.\n"
            "   Output naming of Table.aggregate / Table.window (uniquify, make_agg_name / sanitize, the order in which names are\n"
            "   registered), translated statement by statement; equivalence theorems in Serif/Tie/Uniquify.lean. -/\n"
            "import Serif.Prelude\n\nset_option linter.unusedVariables false\n\nnamespace Serif.Gen.TU\nopen Serif\n\n"
            + "\n\n".join(parts) + "\n\nend Serif.Gen.TU\n")
    return text, errors
