"""Translator plug-in: the rest of `Vector.__setitem__`, `Vector._promote`, `Vector._invalidate_fp` (src/serif/vector.py) and
`slice_length` (src/serif/typeutils.py) -> lean/Serif/Gen/TranslatedSetItemBody.lean

`harness/py2lean.translate_setitem_target` owns the loop `for val in new_values` that works out the target dtype; this plug-in
translates what stands around it, statement by statement and in the order of the source, over the data types of
Serif/Model/Assign.lean (`Key` records the outcome of the `isinstance` dispatch on the key, `Value` what the right-hand side
is, `VState` the fields of the vector; the class of the vector object is a separate variable `self_class`):

  * every branch of the key dispatch becomes one definition (`maskCaseT`, `sliceCaseT`, `intCaseT`, `idxVecCaseT`,
    `idxListCaseT`), every loop body inside it one more (`…Loop<k>T`); `collectUpdatesT` is the `if/elif` chain itself;
  * the block `if updates:` is `typePhaseT`, `Vector._promote` is `promoteT`, `_invalidate_fp` is `invalidateFpT`;
  * `setitemT` is the method: prologue, `collectUpdatesT`, `typePhaseT`, the MUTATE statements.

Positions are Python ints (`Int`) throughout; `data_list[idx]` / `data_list[idx] = x` are Python's list indexing (`pyGet`, `pySet`:
negative indices wrap, IndexError out of range).  A state-changing definition returns `(exception or none, self, self_class, …)`
*as they stand where it stopped*, so an assignment made before a `raise` would show.

What is a parameter (field of the generated `Ops`): the outcome of `_alias.check_writable(…)`, `slice.indices`, `range`, the
target-dtype loop, the element constructors.  What is recognised by shape and NOT translated (object identity / aliasing, owned by
Tie/AliasTracker): `_alias = _ALIAS_TRACKER`, `self._check_duplicate(…)`, `id(…)`, the tracker calls `unregister` / `register` --
but the generated `setitemSequenceT` / `promoteSequenceT` record, in source order, where they stand between the stores.

Comments, docstrings, blank lines and the wording of error messages play no role (only the exception class is read).  Anything
not understood raises TranslateError: the definition is then missing from the generated file and Serif.Tie.SetItemBody stops building.
"""
import ast, os

import py2lean
from py2lean import TranslateError, find_func, _ln

GEN_FILE = "TranslatedSetItemBody.lean"
TIE = {"Serif.Tie.SetItemBody": ["C08", "C03"]}

ERR = {"SerifKeyError": "key", "SerifTypeError": "type", "SerifValueError": "value", "SerifIndexError": "index",
       "AttributeError": "attr", "TypeError": "other", "ValueError": "other", "KeyError": "other", "IndexError": "other",
       "RuntimeError": "other", "Exception": "other"}
KINDS = py2lean.KINDS

SUPPORT = '''/-- the class of the vector object, as far as `_promote` tells classes apart (`type(self) is _Date`) -/
inductive PyClass where
  | Vector | _Date | other (n : Nat)
  deriving DecidableEq, Repr

/-- a `slice` object: start, stop, step (`none` = None) -/
abbrev PySlice := Option Int × Option Int × Option Int

/-- what the methods ask of objects they do not own -/
structure Ops where
  /-- outcome of `_alias.check_writable(self, id(self._underlying))` (Tie/AliasTracker): `some e` = it raises -/
  check_writable : Option Err
  /-- `key.indices(n)` of a slice object (CPython); `.error`: ValueError (zero step) -/
  slice_indices : PySlice → Nat → Except Err (Int × Int × Int)
  /-- `range(start, stop, step)`, as the list of its elements -/
  range : Int → Int → Int → List Int
  /-- the loop `for val in new_values: …` started from `target` (Tie/Assign): the accommodating dtype, or the exception -/
  target_of : DType → List Cell → Except Err DType
  /-- the element constructors `float(x)`, `complex(x)`, `datetime.combine(x, datetime.min.time())` on the identity of the
      value: the identity of the new object, `none` = the call raises -/
  conv : Kind → Nat → Option Nat

/-- `isinstance(value, Iterable) and not isinstance(value, (str, bytes, bytearray))` -/
def isSeqV : Value → Bool
  | .scalar _ => false
  | .seq _ _ _ _ => true

/-- `len(value)` -/
def lenV : Value → Except Err Int
  | .scalar _ => .error Err.other
  | .seq _ items len _ =>
    match lenOf items len with
    | .error e => .error e
    | .ok m => .ok (m : Int)

/-- the iterator over `value`: what `next` number `j` (0-based) does -/
def iterV : Value → Nat → Except Err (Option Cell)
  | .scalar _, _ => .error Err.other
  | .seq _ items _ raiseAt, j => nextItem items raiseAt j

/-- the iterator over a list -/
def iterL (l : List Cell) (j : Nat) : Except Err (Option Cell) := .ok l[j]?

/-- `for k, v in zip(keys, it): body` with the loop-carried variable `acc`: `zip` asks `keys` first, then `it`;
    the loop ends when either is exhausted; an exception of `it` or of the body ends it -/
def forZip {κ σ : Type} (it : Nat → Except Err (Option Cell)) (body : σ → κ → Cell → Except Err σ) :
    Nat → List κ → σ → Except Err σ
  | _, [], acc => .ok acc
  | j, k :: ks, acc =>
    match it j with
    | .error e => .error e
    | .ok none => .ok acc
    | .ok (some v) =>
      match body acc k v with
      | .error e => .error e
      | .ok acc' => forZip it body (j + 1) ks acc'

/-- `for k in keys: body` with the loop-carried variable `acc` -/
def forEach {κ σ : Type} (body : σ → κ → Except Err σ) : List κ → σ → Except Err σ
  | [], acc => .ok acc
  | k :: ks, acc =>
    match body acc k with
    | .error e => .error e
    | .ok acc' => forEach body ks acc'

/-- `enumerate(xs)` -/
def enumerateFrom {α : Type} : Int → List α → List (Int × α)
  | _, [] => []
  | k, a :: as => (k, a) :: enumerateFrom (k + 1) as

def enumerate {α : Type} (xs : List α) : List (Int × α) := enumerateFrom 0 xs

/-- position addressed by Python list indexing `l[i]` on a list of length `len`; `none`: IndexError -/
def pyIndex (len : Nat) (i : Int) : Option Nat :=
  let j := if i < 0 then i + (len : Int) else i
  if 0 ≤ j ∧ j < (len : Int) then some j.toNat else none

/-- `l[i]` -/
def pyGet (l : List Cell) (i : Int) : Except Err Cell :=
  match pyIndex l.length i with
  | none => .error Err.other
  | some j =>
    match l[j]? with
    | none => .error Err.other
    | some c => .ok c

/-- `l[i] = x` -/
def pySet (l : List Cell) (i : Int) (x : Cell) : Except Err (List Cell) :=
  match pyIndex l.length i with
  | none => .error Err.other
  | some j => .ok (l.set j x)

/-- `tuple(f(x) for x in xs)`; `none` = some `f(x)` raises (nothing has been stored then) -/
def tupleOf (f : Cell → Option Cell) : List Cell → Option (List Cell)
  | [] => some []
  | x :: xs =>
    match f x with
    | none => none
    | some y =>
      match tupleOf f xs with
      | none => none
      | some ys => some (y :: ys)

/-- calling the constructor of kind `k` on the element `x`: a new object of exact type `k`, or `none` = it raises -/
def construct (conv : Kind → Nat → Option Nat) (k : Kind) (x : Cell) : Option Cell :=
  (conv k x.uid).map (fun u => { tag := Tag.ty k, uid := u })

/-- `self._dtype` where the code has tested it not None (or dereferences it without a test) -/
def dtypeOf (self : VState) : DType := self.dtype.getD { kind := Kind.object, nullable := true }'''


def _u(n):
    return ast.unparse(n)


def _strip(stmts):
    """drop docstrings / bare string expressions, imports, pass"""
    return [s for s in stmts if not (isinstance(s, ast.Expr) and isinstance(s.value, ast.Constant))
            and not isinstance(s, (ast.Import, ast.ImportFrom, ast.Pass))]


class _Msg(ast.NodeTransformer):
    """error messages do not matter: `raise X('…')` -> `raise X(…)`"""
    def visit_Raise(self, node):
        if isinstance(node.exc, ast.Call):
            node.exc.args, node.exc.keywords = [ast.Constant(value=...)], []
        return node


def _doc(title, stmts, limit=40):
    lines = []
    for s in stmts:
        lines += _u(_Msg().visit(ast.parse(_u(s)))).split("\n")
    if len(lines) > limit:
        lines = lines[:limit] + ["…"]
    body = "\n".join("      " + ln for ln in lines).replace("-/", "- /").replace("/-", "/ -")
    return "/-- " + title + "\n" + body + " -/\n"


def _err(raise_stmt):
    exc = raise_stmt.exc
    if exc is None:
        raise TranslateError("bare raise")
    name = exc.func.id if isinstance(exc, ast.Call) and isinstance(exc.func, ast.Name) else exc.id if isinstance(exc, ast.Name) else None
    if name not in ERR:
        raise TranslateError("raises " + _u(exc)[:40])
    return "Err." + ERR[name]


def _always_returns(stmts):
    for s in stmts:
        if isinstance(s, (ast.Return, ast.Raise)):
            return True
        if isinstance(s, ast.If) and s.orelse and _always_returns(s.body) and _always_returns(s.orelse):
            return True
    return False


def _is_tracker_call(s, alias_names):
    """`<tracker>.check_writable/unregister/register(…)` as a statement -> method name"""
    if isinstance(s, ast.Expr) and isinstance(s.value, ast.Call) and isinstance(s.value.func, ast.Attribute) \
            and isinstance(s.value.func.value, ast.Name) and s.value.func.value.id in alias_names \
            and s.value.func.attr in ("check_writable", "unregister", "register"):
        return s.value.func.attr
    return None


# ---------------------------------------------------------------------------------------------
# integer expressions and conditions on them (key dispatch branches, slice_length)
# ---------------------------------------------------------------------------------------------
def iexpr(n, env):
    """Python int expression -> Lean `Int` term.  env: name -> 'int' | 'nat' | 'listint' | 'listbool' | 'value' | …"""
    if isinstance(n, ast.Constant) and type(n.value) is int:
        return f"({n.value} : Int)"
    if isinstance(n, ast.UnaryOp) and isinstance(n.op, ast.USub) and isinstance(n.operand, ast.Constant) and type(n.operand.value) is int:
        return f"(-{n.operand.value} : Int)"
    if isinstance(n, ast.Name):
        t = env.get(n.id)
        if t == "int":
            return _ln(n.id)
        if t == "nat":
            return f"({_ln(n.id)} : Int)"
        raise TranslateError(f"{n.id} is not an int here")
    if isinstance(n, ast.Call) and _u(n.func) == "len" and len(n.args) == 1 and not n.keywords and isinstance(n.args[0], ast.Name):
        a = n.args[0].id
        t = env.get(a)
        if t in ("listint", "listbool"):
            return f"({_ln(a)}.length : Int)"
        if t == "value":
            if env.get("len(" + a + ")") != "hoisted":
                raise TranslateError("len(value) outside a test")
            return f"len_{_ln(a)}"
        raise TranslateError("len of " + a)
    if isinstance(n, ast.Call) and _u(n.func) == "max" and len(n.args) == 2 and not n.keywords:
        return f"(max {iexpr(n.args[0], env)} {iexpr(n.args[1], env)})"
    if isinstance(n, ast.BinOp):
        a, b = iexpr(n.left, env), iexpr(n.right, env)
        if isinstance(n.op, ast.Add):
            return f"({a} + {b})"
        if isinstance(n.op, ast.Sub):
            return f"({a} - {b})"
        if isinstance(n.op, ast.Mult):
            return f"({a} * {b})"
        if isinstance(n.op, ast.FloorDiv):
            return f"(Int.fdiv {a} {b})"
        raise TranslateError("operator " + type(n.op).__name__)
    if isinstance(n, ast.IfExp):
        return f"(if {icond(n.test, env)} then {iexpr(n.body, env)} else {iexpr(n.orelse, env)})"
    raise TranslateError("int expression " + _u(n)[:50])


_CMP = {ast.Lt: "<", ast.LtE: "≤", ast.Gt: ">", ast.GtE: "≥"}


def icond(n, env):
    """Python condition on ints / bool locals -> Lean `Bool` term"""
    if isinstance(n, ast.Name) and env.get(n.id) == "bool":
        return _ln(n.id)
    if isinstance(n, ast.UnaryOp) and isinstance(n.op, ast.Not):
        return f"!({icond(n.operand, env)})"
    if isinstance(n, ast.BoolOp):
        return "(" + (" && " if isinstance(n.op, ast.And) else " || ").join(icond(v, env) for v in n.values) + ")"
    if isinstance(n, ast.Compare):
        terms = [n.left] + list(n.comparators)
        if len(n.ops) == 1 and isinstance(n.ops[0], (ast.Eq, ast.NotEq)):
            return f"({iexpr(terms[0], env)} {'==' if isinstance(n.ops[0], ast.Eq) else '!='} {iexpr(terms[1], env)})"
        if all(type(o) in _CMP for o in n.ops):
            parts = [f"{iexpr(terms[k], env)} {_CMP[type(o)]} {iexpr(terms[k + 1], env)}" for k, o in enumerate(n.ops)]
            return "decide (" + " ∧ ".join(parts) + ")"
    raise TranslateError("condition " + _u(n)[:60])


# ---------------------------------------------------------------------------------------------
# typeutils.slice_length
# ---------------------------------------------------------------------------------------------
def translate_slice_length(tree):
    f = find_func(tree, "slice_length")
    args = [a.arg for a in f.args.args]
    body = _strip(f.body)
    if len(args) != 2 or len(body) != 2:
        raise TranslateError("slice_length: shape")
    a, r = body
    if not (isinstance(a, ast.Assign) and isinstance(a.targets[0], ast.Tuple) and len(a.targets[0].elts) == 3
            and all(isinstance(x, ast.Name) for x in a.targets[0].elts) and _u(a.value) == f"{args[0]}.indices({args[1]})"):
        raise TranslateError("slice_length: first statement is not `start, stop, step = s.indices(n)`")
    names = [x.id for x in a.targets[0].elts]
    if not isinstance(r, ast.Return) or r.value is None:
        raise TranslateError("slice_length: second statement is not a return")
    env = {x: "int" for x in names}
    e = iexpr(r.value, env)
    S, N = _ln(args[0]), _ln(args[1])
    return [_doc("translated from `typeutils.slice_length` (`//` is floor division `Int.fdiv`; `.error`: `indices` raises):", body)
            + f"def sliceLengthT (O : Ops) ({S} : PySlice) ({N} : Nat) : Except Err Int :=\n"
            f"  match O.slice_indices {S} {N} with\n  | .error e => .error e\n  | .ok ({', '.join(_ln(x) for x in names)}) =>\n  .ok {e}"]


# ---------------------------------------------------------------------------------------------
# Vector.__setitem__
# ---------------------------------------------------------------------------------------------
class _SetItem:
    CASES = [("mask", "maskCaseT", "List Bool"), ("slice", "sliceCaseT", "PySlice"), ("int", "intCaseT", "Int"),
             ("idxVec", "idxVecCaseT", "List Int"), ("idxList", "idxListCaseT", "List Int")]

    def __init__(self, tree, src):
        self.tree = tree
        self.f = find_func(tree, "__setitem__", "Vector")
        a = [x.arg for x in self.f.args.args]
        if len(a) != 3:
            raise TranslateError("__setitem__: arguments")
        self.S, self.K, self.V = a
        self.defs = []
        self.loop_names = {}
        # the loop over the new values is owned by py2lean.translate_setitem_target: it must understand the source too
        try:
            py2lean.translate_setitem_target(src)
        except TranslateError as ex:
            raise TranslateError("__setitem__: the target-dtype loop is not understood by its own translator: " + str(ex))

    def tests(self):
        K = self.K
        vec = lambda k: (f"isinstance({K}, Vector) and {K}.schema() is not None and ({K}.schema().kind == {k}) "
                         f"and (not {K}.schema().nullable)")
        return [vec("bool") + f" or (isinstance({K}, list) and all((isinstance(e, bool) for e in {K})))",
                f"isinstance({K}, slice)", f"isinstance({K}, int)", vec("int"),
                f"isinstance({K}, (list, tuple)) and all((isinstance(e, int) for e in {K}))"]

    # ---- prologue: names of the locals
    def prologue(self, stmts):
        """the statements before the key dispatch; returns their number.  Each is recognised by shape; the local names are read
        off them (`n`, `underlying`, `updates`, `append_update`, `is_seq_val`, `_alias` may be renamed)."""
        S, K, V = self.S, self.K, self.V
        self.alias = {"_ALIAS_TRACKER"}
        self.N = self.UND = self.U = self.APP = self.SEQ = None
        k = 0
        for s in stmts:
            if isinstance(s, ast.If) and _u(s.test) == self.tests()[0]:
                break
            t = _u(s)
            if isinstance(s, ast.Assign) and len(s.targets) == 1 and isinstance(s.targets[0], ast.Name):
                n, v = s.targets[0].id, _u(s.value)
                if v == "_ALIAS_TRACKER":
                    self.alias.add(n)
                elif v == f"{S}._check_duplicate({n})" and n in (K, V):
                    pass
                elif v == f"isinstance({V}, Iterable) and (not isinstance({V}, (str, bytes, bytearray)))":
                    self.SEQ = n
                elif v == f"len({S})":
                    self.N = n
                elif v == f"{S}._underlying":
                    self.UND = n
                elif v == "[]":
                    self.U = n
                elif isinstance(s.value, ast.Lambda):
                    self.APP = n
                    self.app_lambda = s.value
                else:
                    raise TranslateError("__setitem__: prologue statement " + t[:60])
            elif isinstance(s, ast.If) and not s.orelse and _u(s.test) == f"{S}._underlying" and len(_strip(s.body)) == 1 \
                    and _is_tracker_call(_strip(s.body)[0], self.alias) == "check_writable":
                pass
            else:
                raise TranslateError("__setitem__: prologue statement " + t[:60])
            k += 1
        else:
            raise TranslateError("__setitem__: key dispatch (`if <boolean mask> …`) not found")
        if None in (self.N, self.UND, self.U, self.APP, self.SEQ):
            raise TranslateError("__setitem__: prologue does not bind n / underlying / updates / append_update / is_seq_val")
        lam = self.app_lambda
        la = [x.arg for x in lam.args.args]
        if not (len(la) == 2 and _u(lam.body) == f"{self.U}.append(({la[0]}, {la[1]}))"):
            raise TranslateError("__setitem__: append_update is not `lambda idx, v: updates.append((idx, v))`")
        return k

    # ---- the branches of the key dispatch: Except Err (List (Int × Cell))
    def hoist(self, test, env, pad):
        """`len(value)` inside a test may raise: evaluate it first"""
        V = self.V
        for n in ast.walk(test):
            if isinstance(n, ast.Call) and _u(n) == f"len({V})":
                env = dict(env, **{"len(" + V + ")": "hoisted"})
                return (pad + f"match lenV {_ln(V)} with\n" + pad + "| .error e => .error e\n" + pad + f"| .ok len_{_ln(V)} =>\n"), env
        return "", env

    def cell(self, n, env):
        if isinstance(n, ast.Name) and env.get(n.id) == "cell":
            return _ln(n.id)
        if isinstance(n, ast.Name) and env.get(n.id) == "value":
            return f"(Value.asCell {_ln(n.id)})"          # the right-hand side object itself, stored as one element
        raise TranslateError("__setitem__: stored value " + _u(n)[:40])

    def cstmts(self, stmts, env, ind, case):
        pad = " " * ind
        U = _ln(self.U)
        stmts = _strip(stmts)
        if not stmts:
            return pad + f".ok {U}"
        s, rest = stmts[0], stmts[1:]
        if isinstance(s, ast.Raise):
            return pad + f".error {_err(s)}"
        if isinstance(s, ast.If):
            pre, env2 = self.hoist(s.test, env, pad)
            c = icond(s.test, env2)
            body = _strip(s.body)
            if not s.orelse and len(body) == 1 and isinstance(body[0], ast.Raise):
                return pre + pad + f"if {c} then .error {_err(body[0])} else\n" + self.cstmts(rest, env, ind, case)
            if not s.orelse and len(body) == 1 and isinstance(body[0], ast.AugAssign) and isinstance(body[0].op, ast.Add) \
                    and isinstance(body[0].target, ast.Name) and env.get(body[0].target.id) == "int" and not pre:
                v = _ln(body[0].target.id)
                return pad + f"let {v} := if {c} then {v} + {iexpr(body[0].value, env)} else {v}\n" + self.cstmts(rest, env, ind, case)
            then = s.body if _always_returns(s.body) else s.body + rest
            els = rest if not s.orelse else s.orelse if _always_returns(s.orelse) else s.orelse + rest
            # the hoisted length is not visible after the test (it is evaluated again if asked again)
            return (pre + pad + f"if {c} then\n" + self.cstmts(then, env, ind + 2, case) + "\n" + pad + "else\n"
                    + self.cstmts(els, env, ind + 2, case))
        if isinstance(s, ast.Expr) and isinstance(s.value, ast.Call) and _u(s.value.func) == self.APP and len(s.value.args) == 2 \
                and not s.value.keywords:
            return (pad + f"let {U} := {U} ++ [({iexpr(s.value.args[0], env)}, {self.cell(s.value.args[1], env)})]\n"
                    + self.cstmts(rest, env, ind, case))
        if isinstance(s, ast.Assign) and len(s.targets) == 1 and isinstance(s.targets[0], ast.Tuple):
            names = [x.id for x in s.targets[0].elts if isinstance(x, ast.Name)]
            v = s.value
            if len(names) == 3 == len(s.targets[0].elts) and isinstance(v, ast.Call) and isinstance(v.func, ast.Attribute) \
                    and v.func.attr == "indices" and isinstance(v.func.value, ast.Name) and env.get(v.func.value.id) == "pyslice" \
                    and len(v.args) == 1 and isinstance(v.args[0], ast.Name) and env.get(v.args[0].id) == "nat":
                return (pad + f"match O.slice_indices {_ln(v.func.value.id)} {_ln(v.args[0].id)} with\n" + pad + "| .error e => .error e\n"
                        + pad + f"| .ok ({', '.join(_ln(x) for x in names)}) =>\n"
                        + self.cstmts(rest, dict(env, **{x: "int" for x in names}), ind, case))
            raise TranslateError("__setitem__: assignment " + _u(s)[:60])
        if isinstance(s, ast.Assign) and len(s.targets) == 1 and isinstance(s.targets[0], ast.Name):
            n, v = s.targets[0].id, s.value
            if n in env and env[n] in ("value", "nat", "bool", "pyslice", "listbool"):
                raise TranslateError("__setitem__: assignment to " + n)
            L = _ln(n)
            # [i for i, flag in enumerate(key) if flag]
            if isinstance(v, ast.ListComp) and len(v.generators) == 1:
                g = v.generators[0]
                if isinstance(g.target, ast.Tuple) and len(g.target.elts) == 2 and all(isinstance(x, ast.Name) for x in g.target.elts) \
                        and isinstance(g.iter, ast.Call) and _u(g.iter.func) == "enumerate" and len(g.iter.args) == 1 \
                        and isinstance(g.iter.args[0], ast.Name) and env.get(g.iter.args[0].id) == "listbool" and len(g.ifs) == 1 \
                        and not g.is_async and g.target.elts[0].id != g.target.elts[1].id \
                        and _u(g.ifs[0]) == g.target.elts[1].id and _u(v.elt) == g.target.elts[0].id:
                    i, fl = _ln(g.target.elts[0].id), _ln(g.target.elts[1].id)
                    return (pad + f"let {L} := (enumerate {_ln(g.iter.args[0].id)}).filterMap (fun ({i}, {fl}) => if {fl} then some {i} else none)\n"
                            + self.cstmts(rest, dict(env, **{n: "listint"}), ind, case))
                raise TranslateError("__setitem__: comprehension " + _u(v)[:60])
            # slice_length(key, n)
            if isinstance(v, ast.Call) and _u(v.func) == "slice_length" and len(v.args) == 2 and not v.keywords \
                    and all(isinstance(x, ast.Name) for x in v.args) and env.get(v.args[0].id) == "pyslice" and env.get(v.args[1].id) == "nat":
                return (pad + f"match sliceLengthT O {_ln(v.args[0].id)} {_ln(v.args[1].id)} with\n" + pad + "| .error e => .error e\n"
                        + pad + f"| .ok {L} =>\n" + self.cstmts(rest, dict(env, **{n: "int"}), ind, case))
            # range(start, stop, step)
            if isinstance(v, ast.Call) and _u(v.func) == "range" and len(v.args) == 3 and not v.keywords:
                return (pad + f"let {L} := O.range {' '.join(iexpr(x, env) for x in v.args)}\n"
                        + self.cstmts(rest, dict(env, **{n: "listint"}), ind, case))
            # values_to_assign = value
            if isinstance(v, ast.Name) and env.get(v.id) == "value":
                return pad + f"let {L} := iterV {_ln(v.id)}\n" + self.cstmts(rest, dict(env, **{n: "iter"}), ind, case)
            # values_to_assign = [value] * slice_len
            if isinstance(v, ast.BinOp) and isinstance(v.op, ast.Mult) and isinstance(v.left, ast.List) and len(v.left.elts) == 1:
                return (pad + f"let {L} := iterL (List.replicate (Int.toNat {iexpr(v.right, env)}) {self.cell(v.left.elts[0], env)})\n"
                        + self.cstmts(rest, dict(env, **{n: "iter"}), ind, case))
            # tcount = len(true_indices) and other int expressions
            pre, env2 = self.hoist(v, env, pad)
            return pre + pad + f"let {L} : Int := {iexpr(v, env2)}\n" + self.cstmts(rest, dict(env, **{n: "int"}), ind, case)
        if isinstance(s, ast.For) and not s.orelse:
            fixed = f"{_ln(self.V)} {_ln(self.N)}"
            if isinstance(s.target, ast.Tuple) and len(s.target.elts) == 2 and all(isinstance(x, ast.Name) for x in s.target.elts) \
                    and isinstance(s.iter, ast.Call) and _u(s.iter.func) == "zip" and len(s.iter.args) == 2 and not s.iter.keywords \
                    and all(isinstance(x, ast.Name) for x in s.iter.args) and env.get(s.iter.args[0].id) == "listint":
                a, b = [x.id for x in s.target.elts]
                it = s.iter.args[1].id
                if env.get(it) == "value":
                    it_l = f"(iterV {_ln(it)})"
                elif env.get(it) == "iter":
                    it_l = _ln(it)
                else:
                    raise TranslateError("__setitem__: zip over " + it)
                name = self.loop_def(s, case, [(a, "int"), (b, "cell")])
                loop = f"forZip {it_l} ({name} {fixed}) 0 {_ln(s.iter.args[0].id)} {U}"
                if not rest:                                   # last statement: the block's result is the loop's
                    return pad + loop
                return (pad + f"match {loop} with\n" + pad + "| .error e => .error e\n"
                        + pad + f"| .ok {U} =>\n" + self.cstmts(rest, env, ind, case))
            if isinstance(s.target, ast.Name) and isinstance(s.iter, ast.Name) and env.get(s.iter.id) == "listint":
                name = self.loop_def(s, case, [(s.target.id, "int")])
                loop = f"forEach ({name} {fixed}) {_ln(s.iter.id)} {U}"
                if not rest:
                    return pad + loop
                return (pad + f"match {loop} with\n" + pad + "| .error e => .error e\n"
                        + pad + f"| .ok {U} =>\n" + self.cstmts(rest, env, ind, case))
            raise TranslateError("__setitem__: loop " + _u(s).split("\n")[0][:60])
        raise TranslateError("__setitem__: statement " + _u(s).split("\n")[0][:60])

    def loop_def(self, loop, case, vars_):
        if id(loop) in self.loop_names:
            return self.loop_names[id(loop)]
        k = 1 + len([1 for n in self.loop_names.values() if n.startswith(case[:-1] + "Loop")])
        name = f"{case[:-1]}Loop{k}T"
        self.loop_names[id(loop)] = name
        V, N, U = self.V, self.N, self.U
        if any(v in (V, N, U) for v, _ in vars_) or len({v for v, _ in vars_}) != len(vars_):
            raise TranslateError("__setitem__: loop variables")
        env = {V: "value", N: "nat"}
        env.update(dict(vars_))
        body = self.cstmts(loop.body, env, 2, case)
        params = " ".join(f"({_ln(v)} : {'Int' if t == 'int' else 'Cell'})" for v, t in vars_)
        self.defs.append(_doc(f"translated from the body of the loop `for {_u(loop.target)} in {_u(loop.iter)}` of `Vector.__setitem__`\n"
                              f"    (`{U}` is the loop-carried variable; `append_update(i, x)` is `{U}.append((i, x))`):", loop.body)
                         + f"def {name} ({_ln(V)} : Value) ({_ln(N)} : Nat) ({_ln(U)} : List (Int × Cell)) {params} : Except Err (List (Int × Cell)) :=\n"
                         + body)
        return name

    def dispatch(self, chain):
        """the if/elif chain on the key -> the five case definitions and `collectUpdatesT`"""
        K, V, N, U, SEQ = self.K, self.V, self.N, self.U, self.SEQ
        expected = self.tests()
        s = chain
        branches = []
        while True:
            branches.append((_u(s.test), s.body))
            if len(s.orelse) == 1 and isinstance(s.orelse[0], ast.If):
                s = s.orelse[0]
            else:
                orelse = _strip(s.orelse)
                break
        if [t for t, _ in branches] != expected:
            got = [t for t, _ in branches]
            bad = next((k for k in range(min(len(got), len(expected))) if got[k] != expected[k]), min(len(got), len(expected)))
            raise TranslateError(f"__setitem__: key dispatch: test number {bad + 1} is not the classification `Key` records")
        if not (len(orelse) == 1 and isinstance(orelse[0], ast.Raise)):
            raise TranslateError("__setitem__: key dispatch: the final else does not just raise")
        key_t = {"mask": "listbool", "slice": "pyslice", "int": "int", "idxVec": "listint", "idxList": "listint"}
        for (tag, name, ty), (test, body) in zip(self.CASES, branches):
            env = {K: key_t[tag], V: "value", N: "nat", SEQ: "bool"}
            term = self.cstmts(body, env, 2, name)
            self.defs.append(_doc(f"translated from the branch `if {test[:70]}…` of the key dispatch of `Vector.__setitem__`:", body)
                             + f"def {name} (O : Ops) ({_ln(K)} : {ty}) ({_ln(V)} : Value) ({_ln(N)} : Nat) ({_ln(SEQ)} : Bool) "
                             f"({_ln(U)} : List (Int × Cell)) : Except Err (List (Int × Cell)) :=\n" + term)
        args = f"{_ln(V)} {_ln(N)} {_ln(SEQ)} {_ln(U)}"
        self.defs.append(
            "/-- translated from the `if / elif / else` chain on the key of `Vector.__setitem__` (the tests, in this order, are the\n"
            "    classification the constructors of `Key` record) together with the two locals it reads:\n"
            f"      {SEQ} = isinstance({V}, Iterable) and (not isinstance({V}, (str, bytes, bytearray)))\n"
            f"      {U} = []\n"
            "    The result is the list of `(idx, new_value)` collected, or the exception raised while collecting. -/\n"
            f"def collectUpdatesT (O : Ops) ({_ln(K)} : Key) ({_ln(V)} : Value) ({_ln(N)} : Nat) : Except Err (List (Int × Cell)) :=\n"
            f"  let {_ln(SEQ)} := isSeqV {_ln(V)}\n"
            f"  let {_ln(U)} : List (Int × Cell) := []\n"
            f"  match {_ln(K)} with\n"
            f"  | .maskVec {_ln(K)} => maskCaseT O {_ln(K)} {args}\n"
            f"  | .maskList {_ln(K)} => maskCaseT O {_ln(K)} {args}\n"
            f"  | .slice a b c => sliceCaseT O (a, b, c) {args}\n"
            f"  | .int {_ln(K)} => intCaseT O {_ln(K)} {args}\n"
            f"  | .idxVec {_ln(K)} => idxVecCaseT O {_ln(K)} {args}\n"
            f"  | .idxList {_ln(K)} => idxListCaseT O {_ln(K)} {args}\n"
            f"  | .bad => .error {_err(orelse[0])}")

    def translate(self):
        stmts = _strip(self.f.body)
        k = self.prologue(stmts)
        self.dispatch(stmts[k])
        st = _State(self.S, self.alias, {"updates": self.U, "underlying": self.UND, "n": self.N})
        live3 = [self.S, "self_class", self.UND]
        after = stmts[k + 1:]
        if not (after and isinstance(after[0], ast.If) and _u(after[0].test) == self.U and not after[0].orelse):
            raise TranslateError("__setitem__: `if updates:` does not follow the key dispatch")
        tp = st.sstmts([after[0]], live3, 2)
        S, U, UND, N = _ln(self.S), _ln(self.U), _ln(self.UND), _ln(self.N)
        self.defs.append(_doc("translated from the block `if updates:` of `Vector.__setitem__` (the type phase).  `O.target_of` is the loop\n"
                              "    `for val in new_values` (Serif/Tie/Assign.lean); the result is the exception or none, and the object, its class and the\n"
                              f"    local `{self.UND}` as they stand then:", [after[0]], 60)
                         + f"def typePhaseT (O : Ops) ({U} : List (Int × Cell)) ({UND} : List Cell) ({S} : VState) (self_class : PyClass) :\n"
                         f"    Option Err × VState × PyClass × List Cell :=\n" + tp)
        # the method itself: prologue, dispatch, type phase, MUTATE
        live2 = [self.S, "self_class"]
        st.mode = "top"
        st.top = self
        st.chain, st.type_if = stmts[k], after[0]
        body = st.sstmts(stmts, live2, 2)
        self.defs += st.defs_before
        shown = [s for s in stmts if s is not stmts[k] and s is not after[0]]
        self.defs.append(_doc("translated from `Vector.__setitem__` (the key dispatch is `collectUpdatesT`, the block `if updates:` is `typePhaseT`;\n"
                              "    `-- [alias]` marks a statement about object identity that is recognised and not translated).  Result: the\n"
                              "    exception or none, the object and its class as they stand then.  Statements other than the dispatch and the block:",
                              shown, 60)
                         + f"def setitemT (O : Ops) ({_ln(self.K)} : Key) ({_ln(self.V)} : Value) ({S} : VState) (self_class : PyClass) :\n"
                         f"    Option Err × VState × PyClass :=\n" + body)
        self.defs.append("/-- the effectful steps of `Vector.__setitem__` in source order (stores to fields of `self`, tracker calls, the calls that can\n"
                         "    raise after the update list is complete) -/\n"
                         "def setitemSequenceT : List String :=\n  [" + ", ".join('"' + x + '"' for x in sequence(self.f, self.S, self.alias)) + "]")
        return self.defs


def sequence(f, S, alias):
    """effectful steps of a method in source order"""
    out = []

    def visit(stmts):
        for s in stmts:
            m = _is_tracker_call(s, alias)
            if m:
                out.append("alias." + m)
            elif isinstance(s, ast.Assign) and any(isinstance(t, ast.Attribute) and _u(t.value) == S for t in s.targets):
                out.extend("store " + t.attr for t in s.targets if isinstance(t, ast.Attribute))
            elif isinstance(s, ast.Expr) and isinstance(s.value, ast.Call) and isinstance(s.value.func, ast.Attribute) \
                    and _u(s.value.func.value) == S:
                out.append("call " + s.value.func.attr)
            elif isinstance(s, ast.Assign) and any(isinstance(n, ast.GeneratorExp) for n in ast.walk(s.value)):
                out.append("convert")
            elif isinstance(s, ast.Raise):
                out.append("raise")
            elif isinstance(s, ast.If):
                visit(s.body)
                visit(s.orelse)
            elif isinstance(s, ast.For):
                # the loop over the new values raises SerifTypeError; loops over the key raise index / value errors
                if any(isinstance(n, ast.Raise) for n in ast.walk(s)):
                    out.append("raise")
            elif isinstance(s, ast.Try):
                visit(s.body)
                for h in s.handlers:
                    visit(h.body)
    visit(f.body)
    # consecutive raises of the collecting phase are one step
    res = []
    for x in out:
        if not (x == "raise" and res and res[-1] == "raise"):
            res.append(x)
    return res


# ---------------------------------------------------------------------------------------------
# statements that act on the object: Option Err × VState × PyClass [× List Cell]
# ---------------------------------------------------------------------------------------------
class _State:
    def __init__(self, S, alias, names):
        self.S, self.alias, self.names = S, set(alias), names
        self.mode = "block"
        self.defs_before = []
        self.kinds = set()          # locals holding a class (kind)
        self.mutate_done = False

    # ---- expressions
    def kexpr(self, n):
        S = self.S
        t = _u(n)
        if t == f"{S}._dtype.kind":
            return f"(dtypeOf {_ln(S)}).kind"
        if t == "target.kind":
            return "target.kind"
        if isinstance(n, ast.Name) and n.id in self.kinds:
            return _ln(n.id)
        if isinstance(n, ast.Name) and n.id in KINDS:
            return KINDS[n.id]
        raise TranslateError("class expression " + t[:40])

    def scond(self, n):
        S = self.S
        t = _u(n)
        if t == self.names.get("updates"):
            return f"!{_ln(t)}.isEmpty"
        if t == f"{S}._underlying":
            return f"!{_ln(S)}.data.isEmpty"
        if t == f"{S}._dtype is not None":
            return f"{_ln(S)}.dtype.isSome"
        if t == f"{S}._dtype is None":
            return f"{_ln(S)}.dtype.isNone"
        if t == "target.nullable":
            return "target.nullable"
        if t == f"{S}._dtype.nullable":
            return f"(dtypeOf {_ln(S)}).nullable"
        if t == f"type({S}) is _Date":
            return "(self_class == PyClass._Date)"
        if t == "any((v is None for v in new_values))":
            return "new_values.any (fun v => v.tag == Tag.none)"
        if isinstance(n, ast.UnaryOp) and isinstance(n.op, ast.Not):
            return f"!({self.scond(n.operand)})"
        if isinstance(n, ast.BoolOp):
            return "(" + (" && " if isinstance(n.op, ast.And) else " || ").join(self.scond(v) for v in n.values) + ")"
        if isinstance(n, ast.Compare) and len(n.ops) == 1:
            op, r = n.ops[0], n.comparators[0]
            if isinstance(op, (ast.Is, ast.Eq)):
                return f"({self.kexpr(n.left)} == {self.kexpr(r)})"
            if isinstance(op, (ast.IsNot, ast.NotEq)):
                return f"({self.kexpr(n.left)} != {self.kexpr(r)})"
            if isinstance(op, ast.In) and isinstance(r, ast.Tuple):
                return f"([{', '.join(self.kexpr(x) for x in r.elts)}].contains {self.kexpr(n.left)})"
        raise TranslateError("condition " + t[:60])

    def conversion(self, v):
        """`tuple(F(x) if x is not None else None for x in self._underlying)` -> Lean function on one element"""
        S = self.S
        if not (isinstance(v, ast.Call) and _u(v.func) == "tuple" and len(v.args) == 1 and isinstance(v.args[0], ast.GeneratorExp)):
            return None
        g = v.args[0]
        if not (len(g.generators) == 1 and not g.generators[0].ifs and isinstance(g.generators[0].target, ast.Name)
                and _u(g.generators[0].iter) == f"{S}._underlying" and isinstance(g.elt, ast.IfExp)):
            raise TranslateError("_promote: conversion " + _u(v)[:70])
        x = g.generators[0].target.id
        e = g.elt
        if not (_u(e.test) == f"{x} is not None" and _u(e.orelse) == "None"):
            raise TranslateError("_promote: conversion does not keep None: " + _u(e)[:70])
        ctor = {f"float({x})": "Kind.float", f"complex({x})": "Kind.complex", f"int({x})": "Kind.int", f"bool({x})": "Kind.bool",
                f"str({x})": "Kind.str", f"datetime.combine({x}, datetime.min.time())": "Kind.datetime"}.get(_u(e.body))
        if ctor is None:
            raise TranslateError("_promote: element constructor " + _u(e.body)[:50])
        X = _ln(x)
        # in the else branch the element IS None: `None` there is the element itself
        return f"(fun {X} => if {X}.tag != Tag.none then construct O.conv {ctor} {X} else some {X})"

    def ret(self, err, live):
        return f"({err}, {', '.join(_ln(x) for x in live)})"

    # ---- statements
    def sstmts(self, stmts, live, ind):
        pad = " " * ind
        S = self.S
        SL = _ln(S)
        stmts = _strip(stmts)
        if not stmts:
            return pad + self.ret("none", live)
        s, rest = stmts[0], stmts[1:]
        nx = lambda extra_ind=0: self.sstmts(rest, live, ind + extra_ind)
        t = _u(s)
        if isinstance(s, ast.Return) and s.value is None:
            return pad + self.ret("none", live)
        if isinstance(s, ast.Raise):
            return pad + self.ret("some " + _err(s), live)
        # ---- whole-method mode: the pieces that are definitions of their own
        if self.mode == "top" and s is self.chain:
            top = self.top
            U, N = _ln(top.U), _ln(top.N)
            return (pad + f"match collectUpdatesT O {_ln(top.K)} {_ln(top.V)} {N} with\n" + pad + f"| .error e => {self.ret('some e', live)}\n"
                    + pad + f"| .ok {U} =>\n" + nx())
        if self.mode == "top" and s is self.type_if:
            top = self.top
            U, UND = _ln(top.U), _ln(top.UND)
            return (pad + f"match typePhaseT O {U} {UND} {SL} self_class with\n"
                    + pad + f"| (some e, {SL}, self_class, {UND}) => {self.ret('some e', live)}\n"
                    + pad + f"| (none, {SL}, self_class, {UND}) =>\n" + nx())
        # ---- tracker calls and identity
        m = _is_tracker_call(s, self.alias)
        if m in ("unregister", "register"):
            return pad + f"-- [alias] {t}\n" + nx()
        if isinstance(s, ast.If) and not s.orelse and len(_strip(s.body)) == 1 and _is_tracker_call(_strip(s.body)[0], self.alias) == "check_writable":
            return (pad + f"-- [alias] {_u(_strip(s.body)[0])}\n"
                    + pad + f"match (if {self.scond(s.test)} then O.check_writable else none) with\n"
                    + pad + f"| some e => {self.ret('some e', live)}\n" + pad + "| none =>\n" + nx())
        if m == "check_writable":
            return (pad + f"-- [alias] {t}\n" + pad + "match O.check_writable with\n"
                    + pad + f"| some e => {self.ret('some e', live)}\n" + pad + "| none =>\n" + nx())
        if isinstance(s, ast.Assign) and len(s.targets) == 1 and isinstance(s.targets[0], ast.Name):
            n, v = s.targets[0].id, s.value
            vt = _u(v)
            L = _ln(n)
            if n in (S, "self_class", "O"):
                raise TranslateError("assignment to " + n)
            if vt == "_ALIAS_TRACKER":
                self.alias.add(n)
                return pad + f"-- [alias] {t}\n" + nx()
            if isinstance(v, ast.Call) and _u(v.func) == "id" and len(v.args) == 1:
                return pad + f"-- [alias] {t}\n" + nx()
            if self.mode == "top":
                top = self.top
                if vt == f"{S}._check_duplicate({n})" and n in (top.K, top.V):
                    return pad + f"-- [alias] {t}\n" + nx()
                if n in (top.SEQ, top.U, top.APP) and s in _strip(top.f.body):
                    return pad + f"-- (in collectUpdatesT) {t}\n" + nx()
                if vt == f"len({S})":
                    return pad + f"let {L} := {SL}.data.length\n" + nx()
            if vt == f"{S}._underlying":
                return pad + f"let {L} := {SL}.data\n" + nx()
            if vt == f"[v for _, v in {self.names.get('updates')}]":
                return pad + f"let {L} := {_ln(self.names['updates'])}.map (fun (_, v) => v)\n" + nx()
            if n == "target" and vt == f"{S}._dtype":
                return pad + f"let target := dtypeOf {SL}\n" + nx()
            if vt == f"list({self.names.get('underlying')})" and self.names.get("underlying"):
                self.data_list = n
                return pad + f"let {L} := {_ln(self.names['underlying'])}\n" + nx()
            if getattr(self, "data_list", None) and vt == f"tuple({self.data_list})":
                return pad + f"let {L} := {_ln(self.data_list)}\n" + nx()
            conv = self.conversion(v)
            if conv is not None:
                return (pad + f"match tupleOf {conv} {SL}.data with\n" + pad + f"| none => {self.ret('some Err.other', live)}\n"
                        + pad + f"| some {L} =>\n" + nx())
            raise TranslateError("assignment " + t[:60])
        if isinstance(s, ast.Assign) and len(s.targets) == 1 and isinstance(s.targets[0], ast.Attribute) and _u(s.targets[0].value) == S:
            a, v = s.targets[0].attr, s.value
            vt = _u(v)
            if a == "_dtype" and vt == f"{S}._dtype.with_nullable(True)":
                return pad + f"let {SL} := {{ {SL} with dtype := some {{ kind := (dtypeOf {SL}).kind, nullable := true }} }}\n" + nx()
            if a == "_dtype" and isinstance(v, ast.Call) and _u(v.func) == "DataType" and len(v.args) == 1 and len(v.keywords) == 1 \
                    and v.keywords[0].arg == "nullable" and _u(v.keywords[0].value) == f"{S}._dtype.nullable":
                return (pad + f"let {SL} := {{ {SL} with dtype := some {{ kind := {self.kexpr(v.args[0])}, nullable := (dtypeOf {SL}).nullable }} }}\n"
                        + nx())
            if a == "_underlying" and isinstance(v, ast.Name) and v.id not in (S,):
                return pad + f"let {SL} := {{ {SL} with data := {_ln(v.id)} }}\n" + nx()
            if a == "_fp" and vt == "None":
                return pad + f"let {SL} := {{ {SL} with fp := none }}\n" + nx()
            if a == "__class__" and vt == "Vector":
                return pad + "let self_class := PyClass.Vector\n" + nx()
            raise TranslateError("store " + t[:60])
        if isinstance(s, ast.Expr) and isinstance(s.value, ast.Call):
            if t == f"{S}._promote(target.kind)":
                L2 = f"{SL}, self_class"
                return (pad + f"match promoteT O target.kind {SL} self_class with\n" + pad + f"| (some e, {L2}) => {self.ret('some e', live)}\n"
                        + pad + f"| (none, {L2}) =>\n" + nx())
            if t == f"{S}._invalidate_fp()":
                return pad + f"let {SL} := invalidateFpT {SL}\n" + nx()
            raise TranslateError("call " + t[:60])
        if isinstance(s, ast.For) and not s.orelse and _u(s.iter) == "new_values" and isinstance(s.target, ast.Name):
            # owned by py2lean.translate_setitem_target (checked in _SetItem.__init__): assigns `target` only
            return (pad + "match O.target_of target new_values with\n" + pad + f"| .error e => {self.ret('some e', live)}\n"
                    + pad + "| .ok target =>\n" + nx())
        if isinstance(s, ast.For) and not s.orelse and self.mode == "top" and _u(s.iter) == self.names.get("updates") \
                and getattr(self, "data_list", None):
            D = self.data_list
            body = _strip(s.body)
            if not (isinstance(s.target, ast.Tuple) and len(s.target.elts) == 2 and all(isinstance(x, ast.Name) for x in s.target.elts)
                    and len(body) == 2 and all(isinstance(b, ast.Assign) and len(b.targets) == 1 for b in body)):
                raise TranslateError("__setitem__: the loop that writes the updates")
            i, x = [e.id for e in s.target.elts]
            b0, b1 = body
            if not (isinstance(b0.targets[0], ast.Name) and _u(b0.value) == f"{D}[{i}]" and b0.targets[0].id not in (i, x, D)
                    and _u(b1.targets[0]) == f"{D}[{i}]" and _u(b1.value) == x and len({i, x, D}) == 3):
                raise TranslateError("__setitem__: the loop that writes the updates: body")
            o = _ln(b0.targets[0].id)
            self.defs_before.append(
                _doc(f"translated from the body of the loop `for {_u(s.target)} in {_u(s.iter)}` of `Vector.__setitem__` (`{D}` is the\n"
                     "    loop-carried variable; list indexing is Python's: `pyGet`, `pySet`):", s.body)
                + f"def mutateLoopT ({_ln(D)} : List Cell) ({_ln(i)} : Int) ({_ln(x)} : Cell) : Except Err (List Cell) :=\n"
                f"  match pyGet {_ln(D)} {_ln(i)} with\n  | .error e => .error e\n  | .ok {o} =>\n"
                f"  match pySet {_ln(D)} {_ln(i)} {_ln(x)} with\n  | .error e => .error e\n  | .ok {_ln(D)} =>\n  .ok {_ln(D)}")
            return (pad + f"match forEach (fun {_ln(D)} (({_ln(i)}, {_ln(x)}) : Int × Cell) => mutateLoopT {_ln(D)} {_ln(i)} {_ln(x)}) {_ln(_u(s.iter))} {_ln(D)} with\n"
                    + pad + f"| .error e => {self.ret('some e', live)}\n" + pad + f"| .ok {_ln(D)} =>\n" + nx())
        if isinstance(s, ast.If):
            c = self.scond(s.test)
            then = s.body if _always_returns(s.body) else s.body + rest
            els = rest if not s.orelse else s.orelse if _always_returns(s.orelse) else s.orelse + rest
            saved = getattr(self, "data_list", None)
            a = self.sstmts(then, live, ind + 2)
            self.data_list = saved
            b = self.sstmts(els, live, ind + 2)
            return pad + f"if {c} then\n" + a + "\n" + pad + "else\n" + b
        raise TranslateError("statement " + t.split("\n")[0][:60])


def translate_promote(tree):
    f = find_func(tree, "_promote", "Vector")
    a = [x.arg for x in f.args.args]
    if len(a) != 2:
        raise TranslateError("_promote: arguments")
    S, ND = a
    body = _strip(f.body)
    d = body[0]
    # the argument is a DataType or a class: `__setitem__` passes a class (`target.kind`)
    if not (isinstance(d, ast.If) and _u(d.test) == f"isinstance({ND}, DataType)" and len(_strip(d.body)) == 1
            and isinstance(_strip(d.body)[0], ast.Assign) and _u(_strip(d.body)[0].value) == f"{ND}.kind"
            and len(d.orelse) == 1 and isinstance(d.orelse[0], ast.If) and _u(d.orelse[0].test) == f"isinstance({ND}, type)"
            and len(_strip(d.orelse[0].body)) == 1 and isinstance(_strip(d.orelse[0].body)[0], ast.Assign)
            and _u(_strip(d.orelse[0].body)[0].value) == ND
            and len(_strip(d.orelse[0].orelse)) == 1 and isinstance(_strip(d.orelse[0].orelse)[0], ast.Raise)):
        raise TranslateError("_promote: the normalisation of the argument (DataType / class / raise)")
    tk = _u(_strip(d.body)[0].targets[0])
    if _u(_strip(d.orelse[0].body)[0].targets[0]) != tk or not tk.isidentifier() or tk in (S, ND):
        raise TranslateError("_promote: the normalisation of the argument assigns different names")
    st = _State(S, {"_ALIAS_TRACKER"}, {})
    st.kinds = {tk}
    term = st.sstmts(body[1:], [S, "self_class"], 2)
    seq = sequence(f, S, {"_ALIAS_TRACKER"})
    return [_doc("translated from `Vector._promote` called with a class (the `isinstance(new_dtype, type)` branch of the argument\n"
                 "    normalisation, which is how `__setitem__` calls it).  `tupleOf` evaluates the whole generator before anything is stored;\n"
                 "    in `F(x) if x is not None else None` the else branch returns the element itself; `-- [alias]` marks the tracker calls.\n"
                 "    Result: the exception or none, the object and its class as they stand then:", body, 70)
            + f"def promoteT (O : Ops) ({_ln(ND)} : Kind) ({_ln(S)} : VState) (self_class : PyClass) : Option Err × VState × PyClass :=\n"
            f"  let {_ln(tk)} := {_ln(ND)}\n" + term,
            "/-- the effectful steps of `Vector._promote` in source order -/\n"
            "def promoteSequenceT : List String :=\n  [" + ", ".join('"' + x + '"' for x in seq) + "]"]


def translate_invalidate_fp(tree):
    f = find_func(tree, "_invalidate_fp", "Vector")
    a = [x.arg for x in f.args.args]
    if len(a) != 1:
        raise TranslateError("_invalidate_fp: arguments")
    st = _State(a[0], set(), {})
    term = st.sstmts(f.body, [a[0]], 2)
    # result is `(none, self)`: the method cannot raise; give the object alone
    return [_doc("translated from `Vector._invalidate_fp`:", _strip(f.body))
            + f"def invalidateFpT ({_ln(a[0])} : VState) : VState :=\n  ((\n" + term + "\n  ) : Option Err × VState).2"]


def translate_setitem(tree, src):
    return _SetItem(tree, src).translate()


def generate(src_dir):
    parts, errors = [SUPPORT], []
    trees = {}
    for fn in ("typeutils.py", "vector.py"):
        try:
            src = open(os.path.join(src_dir, fn)).read()
            trees[fn] = (ast.parse(src), src)
        except Exception as ex:
            errors.append((fn, f"{type(ex).__name__}: {ex}"))
            parts.append(f"-- {fn}: not parsed ({type(ex).__name__})")
    items = []
    if "typeutils.py" in trees:
        items.append(("typeutils.slice_length", lambda: translate_slice_length(trees["typeutils.py"][0])))
    if "vector.py" in trees:
        t, src = trees["vector.py"]
        items += [("Vector._invalidate_fp", lambda: translate_invalidate_fp(t)),
                  ("Vector._promote", lambda: translate_promote(t)),
                  ("Vector.__setitem__", lambda: translate_setitem(t, src))]
    for what, fn in items:
        try:
            parts += fn()
        except Exception as ex:       # TranslateError or anything unexpected: the item is simply not available
            errors.append((what, f"{type(ex).__name__}: {ex}"))
            parts.append(f"-- {what}: not translated ({type(ex).__name__})")
    text = ("/- GENERATED by harness/tr/setitembody.py from /repo's working tree — do not edit.\n"
            "   The rest of Vector.__setitem__ (key dispatch, collection of the updates, type phase, storage swap), Vector._promote,\n"
            "   Vector._invalidate_fp and typeutils.slice_length translated statement by statement; theorems in Serif/Tie/SetItemBody.lean. -/\n"
            "import Serif.Model.Assign\n\nset_option linter.unusedVariables false\n\nnamespace Serif.Gen.SB\nopen Serif Serif.Assign\n\n"
            + "\n\n".join(parts) + "\n\nend Serif.Gen.SB\n")
    return text, errors


if __name__ == "__main__":
    import sys
    t, e = generate(sys.argv[1] if len(sys.argv) > 1 else "/repo/src/serif")
    print(t)
    print(e, file=sys.stderr)
