"""Translator plug-in: the date vector class `_Date` of src/serif/vector.py (C05, C06), statement by statement, into
lean/Serif/Gen/TranslatedDateOps.lean; tie: lean/Serif/Tie/DateOps.lean.

What is translated (in the source's order; names of locals are taken from the source):
  _Date._elementwise_compare   the whole body: `_check_duplicate`, the isinstance chain (Vector / other iterable / str / datetime),
                               the length checks, `other_kind`, the five generators with their None rule and the conversion applied
                               to the other operand, the dtype of the result, the fall back to the base class   -> dateCompareT
  _Date.__add__                the whole body: int-kind Vector (length check, per-element rule with None on either side), int scalar,
                               fall back to `Vector.__add__`; the result is built without `dtype=`                -> dateAddT
  the 14 one-line wrappers     `ctime` … `weekday`: `Vector(tuple((s.M(*args, **kwargs) if s is not None else None) for s in
                               self._underlying))`                                                                -> date_<M>T
  _Date.eomonth                the loop with its accumulator, the None shortcut (`append(None); continue`), the two local values  -> eomonthT
  class _Date                  which arithmetic dunder methods the class defines itself                           -> dateDefinesT
  Vector.__new__               how the dtype of the new vector is settled (given / inferred when there are items / none) and the
                               chain that picks `_String` / `_Int` / `_Float` / `_Date` for it                    -> vectorNewT
What stays a parameter (oracle) of the generated definitions:
  Python's scalar operations, recognised by their text after renaming the generator variables to `a`, `b` (table SCALAR_OPS):
  `bool(op(a, b))` (op), `bool(op(a, date.fromisoformat(b)))` (op_iso), `bool(op(datetime.combine(a, datetime.min.time()), b))` (op_dt),
  `date.fromordinal(a.toordinal() + b)` (days), `a.M(*args, **kwargs)` (call), the two date computations of eomonth;
  `isinstance(other, int / str / datetime)` on a scalar (isInt, isStr, isDatetime); the base class methods reached through `super()`
  (super_<method>; tied by Serif/Tie/Vec.lean); `infer_dtype` in `Vector.__new__`.
`len(self)`, iteration over `self` / `other` and `other.schema()` are read as the length / the elements of `_underlying` and `_dtype`
(shape-checked: `Vector.__len__`, `__iter__`, `schema` are the one-liners that say so and `_Date` does not redefine them);
`self._check_duplicate(other)` is `other` (shape-checked: it returns `other` or `deepcopy(other)`).
The operand `other` is the model's `Vec.Operand` (a Vector with its schema / another iterable / anything else); the isinstance tests
on it, `len(other)`, iteration and `other.schema()` are the small hand-written functions of PRELUDE below.
Anything not understood raises TranslateError; nothing is emitted for it.  Comments, docstrings, blank lines and the wording of
error messages never reach the generated file.
"""
import ast, copy, os, textwrap

from py2lean import TranslateError, find_func, KINDS

GEN_FILE = "TranslatedDateOps.lean"
TIE = {"Serif.Tie.DateOps": ["C05", "C06"]}

ERR = {"ValueError": "Err.value", "SerifValueError": "Err.value", "TypeError": "Err.type", "SerifTypeError": "Err.type"}

# names a Python local must not take in the generated text (Lean keywords, parameters and helpers of the generated definitions)
LEAN_RESERVED = {"by", "from", "at", "do", "then", "else", "if", "fun", "have", "show", "let", "in", "with", "match", "end", "open",
                 "where", "deriving", "instance", "structure", "class", "def", "theorem", "example", "set", "Type", "Prop", "Sort",
                 "op", "op_iso", "op_dt", "days", "call", "isInt", "isStr", "isDatetime", "self_", "other", "other_s", "sch", "e", "r",
                 "vals", "fallthrough", "first_of_next_month", "minus_one_day", "infer_dtype", "cls"}

# Python's scalar operations: text with the generator variables renamed (first `a`, second or the scalar `other` `b`) -> oracle
SCALAR_OPS = {
    "bool(op(a, b))": "op",
    "bool(op(a, date.fromisoformat(b)))": "op_iso",
    "bool(op(datetime.combine(a, datetime.min.time()), b))": "op_dt",
    "date.fromordinal(a.toordinal() + b)": "days",
}
EOMONTH_OPS = {
    "(a.replace(day=28) + timedelta(days=4)).replace(day=1)": "first_of_next_month",
    "a - timedelta(days=1)": "minus_one_day",
}
ORACLE_ORDER = ["isInt", "isStr", "isDatetime", "op", "op_iso", "op_dt", "days", "call"]
ORACLE_SIG = {
    "isInt": "(isInt : β → Bool)", "isStr": "(isStr : β → Bool)", "isDatetime": "(isDatetime : β → Bool)",
    "op": "(op : α → β → Res Bool)", "op_iso": "(op_iso : α → β → Res Bool)", "op_dt": "(op_dt : α → β → Res Bool)",
    "days": "(days : α → β → Res γ)", "call": "(call : α → Res γ)",
}
ORACLE_DOC = {
    "isInt": "`isInt s` is `isinstance(other, int)` for a scalar `other`",
    "isStr": "`isStr s` is `isinstance(other, str)`", "isDatetime": "`isDatetime s` is `isinstance(other, datetime)`",
    "op": "`op a b` is Python's `bool(op(a, b))`", "op_iso": "`op_iso a b` is `bool(op(a, date.fromisoformat(b)))`",
    "op_dt": "`op_dt a b` is `bool(op(datetime.combine(a, datetime.min.time()), b))`",
    "days": "`days a b` is `date.fromordinal(a.toordinal() + b)`",
}
SCALAR_CLASSES = {"int": "isInt", "str": "isStr", "datetime": "isDatetime"}
ITERABLE_TEST = "isinstance(other, Iterable) and (not isinstance(other, (str, bytes, bytearray)))"
ARITH_DUNDERS = ["__add__", "__sub__", "__mul__", "__truediv__", "__floordiv__", "__mod__", "__pow__",
                 "__radd__", "__rsub__", "__rmul__", "__rtruediv__", "__rfloordiv__", "__rmod__", "__rpow__"]
PY_CLASSES = {"Vector": "vector", "_String": "string", "_Int": "int", "_Float": "float", "_Date": "date"}


def ln(name):
    return name + "_" if name in LEAN_RESERVED else name


def u(node):
    return ast.unparse(node)


def body_of(f):
    """statements without docstrings / bare string expressions"""
    return [s for s in f.body if not (isinstance(s, ast.Expr) and isinstance(s.value, ast.Constant))]


class _DropMessages(ast.NodeTransformer):
    def visit_Raise(self, node):
        if isinstance(node.exc, ast.Call):
            node = copy.deepcopy(node)
            node.exc.args, node.exc.keywords = [ast.Constant(value=Ellipsis)], []
        return node

    def visit_Expr(self, node):
        return None if isinstance(node.value, ast.Constant) else node


def quote(node, first_line=False):
    """the Python text of a statement / function (comments are not in the AST; docstrings and message texts are dropped)"""
    t = u(ast.fix_missing_locations(_DropMessages().visit(copy.deepcopy(node))))
    if first_line:
        t = t.splitlines()[0]
    return t.replace("-/", "- /").replace("/-", "/ -")


def quote_doc(f, indent="    "):
    f = copy.deepcopy(f)
    f.decorator_list = []
    return "\n".join(indent + l for l in quote(f).splitlines())


class _Rename(ast.NodeTransformer):
    def __init__(self, m):
        self.m = m

    def visit_Name(self, node):
        return ast.Name(id=self.m.get(node.id, node.id), ctx=node.ctx)


def canonical(node, mapping):
    return u(ast.fix_missing_locations(_Rename(mapping).visit(copy.deepcopy(node))))


def none_test(node):
    """`N is None` / `N is not None` on a name -> (name, is_none)"""
    if isinstance(node, ast.Compare) and len(node.ops) == 1 and isinstance(node.ops[0], (ast.Is, ast.IsNot)) \
            and isinstance(node.comparators[0], ast.Constant) and node.comparators[0].value is None and isinstance(node.left, ast.Name):
        return node.left.id, isinstance(node.ops[0], ast.Is)
    return None


def is_none_test_of(node, text):
    """`<text> is None` / `<text> is not None` -> is_none (True/False), else None"""
    if isinstance(node, ast.Compare) and len(node.ops) == 1 and isinstance(node.ops[0], (ast.Is, ast.IsNot)) \
            and isinstance(node.comparators[0], ast.Constant) and node.comparators[0].value is None and u(node.left) == text:
        return isinstance(node.ops[0], ast.Is)
    return None


def terminates(body):
    if not body:
        return False
    s = body[-1]
    if isinstance(s, (ast.Return, ast.Raise)):
        return True
    if isinstance(s, ast.If) and s.orelse:
        return terminates(s.body) and terminates(s.orelse)
    return False


class _St:
    """what is known at a program point"""

    def __init__(self, vector=False, iterable=False, scalar=None, refined=None, env=None):
        self.vector, self.iterable, self.scalar = vector, iterable, scalar     # about `other`
        self.refined = dict(refined or {})      # python text of an optional expression known to be non-None -> lean name
        self.env = dict(env or {})              # python local -> (lean name, type)

    def but(self, **kw):
        n = _St(self.vector, self.iterable, self.scalar, self.refined, self.env)
        for k, v in kw.items():
            setattr(n, k, v)
        return n


class _Method:
    """one method of `_Date` whose body is an isinstance dispatch over `other` ending in `Vector(tuple(<generator>), …)` calls"""

    def __init__(self, cls, f, nullable_default, elem):
        self.where = f"{cls}.{f.name}"
        self.f = f
        self.nd = nullable_default
        self.elem = elem                 # Lean type of the elements of the result
        self.used = set()
        self.supers = []
        self.nfall = 0

    def fail(self, node, why=""):
        t = (u(node) if isinstance(node, ast.AST) else str(node)).replace("\n", " ")[:90]
        raise TranslateError(f"{self.where}: {why + ': ' if why else ''}{t}")

    # -- expressions -------------------------------------------------------------------------------------------------------
    def optional_expr(self, node, st):
        """an expression that may be None and can be refined: `other.schema()` -> lean text"""
        if u(node) == "other.schema()":
            if not st.vector:
                self.fail(node, "schema() of an operand not known to be a Vector")
            return "schemaT other"
        return None

    def ex(self, node, st):
        """-> (lean, type); types: kind, optkind, none"""
        if isinstance(node, ast.Constant) and node.value is None:
            return "none", "none"
        if isinstance(node, ast.Name):
            if node.id in st.env:
                return st.env[node.id]
            if node.id in KINDS:
                return KINDS[node.id], "kind"
            self.fail(node, "unknown name")
        if isinstance(node, ast.Attribute) and node.attr == "kind":
            t = u(node.value)
            if t in st.refined:
                return f"{st.refined[t]}.kind", "kind"
            self.fail(node, "`.kind` of a value that may be None here")
        if isinstance(node, ast.IfExp):
            for cand in (node.test.left,) if isinstance(node.test, ast.Compare) else ():
                opt = self.optional_expr(cand, st)
                isn = is_none_test_of(node.test, u(cand))
                if opt is not None and isn is not None:
                    nb, sb = (node.body, node.orelse) if isn else (node.orelse, node.body)
                    a, at = self.ex(nb, st)
                    b, bt = self.ex(sb, st.but(refined=dict(st.refined, **{u(cand): "sch"})))
                    if at == "none" and bt == "kind":
                        return f"(match {opt} with | some sch => some {b} | none => none)", "optkind"
            self.fail(node, "conditional expression")
        self.fail(node, "expression")

    def atom(self, node, st):
        """one conjunct -> (lean Bool, state when true)"""
        t = u(node)
        if t == "isinstance(other, Vector)":
            return "isVectorT other", st.but(vector=True, iterable=True)
        if t == "len(self) != len(other)":
            if not st.iterable:
                self.fail(node, "len() of an operand not known to be sized")
            return "(self_.length != (itemsT other).length)", st
        if isinstance(node, ast.Compare) and len(node.ops) == 1 and isinstance(node.ops[0], (ast.Eq, ast.Is)):
            a, at = self.ex(node.left, st)
            b, bt = self.ex(node.comparators[0], st)
            if at == "kind" and bt == "kind":
                return f"({a} == {b})", st
            if at == "optkind" and bt == "kind":
                return f"({a} == some {b})", st
        self.fail(node, "condition")

    def cond(self, node, st):
        """-> (lean Bool, state when true).  `A and B and …` left to right; `E is not None and P` refines `E` for `P`"""
        if u(node) == ITERABLE_TEST:
            return "isIterableT other", st.but(iterable=True)
        if isinstance(node, ast.BoolOp) and isinstance(node.op, ast.And):
            return self.conj(node.values, st)
        return self.atom(node, st)

    def conj(self, values, st):
        if len(values) == 1:
            return self.atom(values[0], st)
        v, rest = values[0], values[1:]
        if isinstance(v, ast.Compare):
            opt = self.optional_expr(v.left, st) if is_none_test_of(v, u(v.left)) is False else None
            if opt is not None:
                inner, st2 = self.conj(rest, st.but(refined=dict(st.refined, **{u(v.left): "sch"})))
                return f"(match {opt} with | none => false | some sch => {inner})", st2
        a, st1 = self.atom(v, st)
        b, st2 = self.conj(rest, st1)
        return f"({a} && {b})", st2

    # -- generators --------------------------------------------------------------------------------------------------------
    def source(self, node, st):
        t = u(node)
        if t in ("self", "self._underlying"):
            return "self_"
        if t == "other":
            if not st.iterable:
                self.fail(node, "iteration over an operand not known to be iterable")
            return "(itemsT other)"
        self.fail(node, "iterated value")

    def scalar_op(self, node, gvars, st):
        """a Python scalar operation on non-None values -> oracle application"""
        m = {gvars[0]: "a"}
        args = [ln(gvars[0])]
        if len(gvars) == 2:
            m[gvars[1]] = "b"
            args.append(ln(gvars[1]))
        names = {n.id for n in ast.walk(node) if isinstance(n, ast.Name)}
        if "other" in names and len(gvars) == 1:
            if st.scalar is None:
                self.fail(node, "`other` used as a scalar where it is not known to be one")
            m["other"] = "b"
            args.append(st.scalar)
        if ("a" in names or "b" in names) and not {"a", "b"} <= set(gvars):
            self.fail(node, "name clash")
        c = canonical(node, m)
        if c in SCALAR_OPS:
            o = SCALAR_OPS[c]
        elif c == f"a.{self.f.name}(*args, **kwargs)" and len(args) == 1:
            o = "call"
        else:
            self.fail(node, "scalar operation not in the table")
        if len(args) != (1 if o == "call" else 2):
            self.fail(node, "operands of the scalar operation")
        self.used.add(o)
        return f"{o} {' '.join(args)}"

    def cell(self, elt, gvars, st, ind):
        """`A if <None tests on the generator variables> else B` -> the per-element function"""
        pad = " " * ind
        if not isinstance(elt, ast.IfExp):
            self.fail(elt, "element without a None rule")
        t = elt.test
        parts = t.values if isinstance(t, ast.BoolOp) else [t]
        tests = [none_test(p) for p in parts]
        if any(x is None for x in tests):
            self.fail(t, "element test")
        if isinstance(t, ast.BoolOp):
            # `x is None or y is None` (some operand missing) / `x is not None and y is not None` (all present)
            want = isinstance(t.op, ast.Or)
            if any(isn != want for _, isn in tests):
                self.fail(t, "element test mixes `is None` and `is not None`")
        else:
            want = tests[0][1]
        if sorted(n for n, _ in tests) != sorted(gvars) or len(tests) != len(gvars):
            self.fail(t, "the None test does not cover exactly the generator variables")
        nb, sb = (elt.body, elt.orelse) if want else (elt.orelse, elt.body)
        if not isinstance(nb, ast.Constant) or not (nb.value is None or nb.value is False):
            self.fail(nb, "value for a missing operand")
        call = self.scalar_op(sb, gvars, st)
        if nb.value is None:
            if not self.elem.startswith("Option"):
                self.fail(nb, "None element in a bool result")
            missing = ".ok none"
            present = f"(match {call} with | .ok r => .ok (some r) | .error e => .error e)"
        else:
            if self.elem != "Bool":
                self.fail(nb, "False element in a value result")
            missing, present = ".ok false", call
        vs = [ln(v) for v in gvars]
        if len(vs) == 2:
            return [f"(fun {vs[0]} {vs[1]} =>", pad + f"  match {vs[0]}, {vs[1]} with", pad + f"  | some {vs[0]}, some {vs[1]} => {present}",
                    pad + f"  | _, _ => {missing})"]
        return [f"(fun {vs[0]} =>", pad + f"  match {vs[0]} with", pad + f"  | some {vs[0]} => {present}", pad + f"  | none => {missing})"]

    def gen(self, node, st, ind):
        """`tuple(ELT for x, y in zip(A, B, strict=True))` / `tuple(ELT for x in A)` -> lines of a `Res (List ε)` term"""
        if not (isinstance(node, ast.Call) and u(node.func) == "tuple" and len(node.args) == 1 and not node.keywords
                and isinstance(node.args[0], ast.GeneratorExp)):
            self.fail(node, "values of the new Vector")
        g = node.args[0]
        if len(g.generators) != 1 or g.generators[0].ifs or g.generators[0].is_async:
            self.fail(g, "generator")
        c = g.generators[0]
        if isinstance(c.target, ast.Name):
            gvars = [c.target.id]
            src = [self.source(c.iter, st)]
            comb = "mapRes"
        elif isinstance(c.target, ast.Tuple) and len(c.target.elts) == 2 and all(isinstance(e, ast.Name) for e in c.target.elts):
            gvars = [e.id for e in c.target.elts]
            z = c.iter
            if not (isinstance(z, ast.Call) and u(z.func) == "zip" and len(z.args) == 2
                    and [(k.arg, u(k.value)) for k in z.keywords] == [("strict", "True")]):
                self.fail(z, "zip (two operands, strict=True)")
            src = [self.source(a, st) for a in z.args]
            comb = "zipCells"
        else:
            self.fail(c.target, "generator target")
        if len(set(gvars)) != len(gvars) or "other" in gvars or "self" in gvars:
            self.fail(c.target, "generator variables")
        cell = self.cell(g.elt, gvars, st, ind)
        cell[0] = f"({comb} " + cell[0]
        cell[-1] = cell[-1] + " " + " ".join(src) + ")"
        return cell

    def dtype_arg(self, node):
        """`DataType(bool[, nullable=B])` -> lean `Option DType`"""
        if isinstance(node, ast.Call) and u(node.func) == "DataType" and len(node.args) >= 1 and isinstance(node.args[0], ast.Name) \
                and node.args[0].id in KINDS:
            n = None
            if len(node.args) == 2:
                n = node.args[1]
            elif len(node.args) > 2:
                self.fail(node, "DataType arguments")
            for kw in node.keywords:
                if kw.arg != "nullable" or n is not None:
                    self.fail(node, "DataType arguments")
                n = kw.value
            if n is None:
                nl = self.nd
            elif isinstance(n, ast.Constant) and isinstance(n.value, bool):
                nl = "true" if n.value else "false"
            else:
                self.fail(node, "DataType nullable")
            return f"(some {{ kind := {KINDS[node.args[0].id]}, nullable := {nl} }})"
        self.fail(node, "dtype argument")

    def ret(self, node, st, ind):
        """the value of a `return` -> lines"""
        pad = " " * ind
        if isinstance(node, ast.Call) and u(node.func) == "Vector":
            if len(node.args) != 1:
                self.fail(node, "Vector arguments")
            dt = "none"
            for kw in node.keywords:
                if kw.arg == "dtype":
                    dt = self.dtype_arg(kw.value)
                else:
                    self.fail(node, "Vector keyword")
            lines = self.gen(node.args[0], st, ind + 2)
            lines[0] = pad + "vectorT " + lines[0]
            lines.append(pad + "  " + dt)
            return lines
        if isinstance(node, ast.Call) and isinstance(node.func, ast.Attribute) and u(node.func.value) == "super()":
            m = node.func.attr
            want = ["other", "op"] if "op" in [a.arg for a in self.f.args.args] else ["other"]
            if m != self.f.name or [u(a) for a in node.args] != want or node.keywords:
                self.fail(node, "call of the base class")
            if m not in self.supers:
                self.supers.append(m)
            return [pad + f"super_{m.strip('_')} other"]
        self.fail(node, "returned value")

    # -- statements --------------------------------------------------------------------------------------------------------
    def stmts(self, body, st, ind, fall):
        pad = " " * ind
        if not body:
            if fall is None:
                raise TranslateError(f"{self.where}: a path ends without return")
            return [pad + fall]
        s, rest = body[0], body[1:]
        if isinstance(s, ast.Return):
            if rest or s.value is None:
                self.fail(s, "return")
            return [pad + "-- " + quote(s)] + self.ret(s.value, st, ind)
        if isinstance(s, ast.Raise):
            if rest or not (isinstance(s.exc, ast.Call) and isinstance(s.exc.func, ast.Name) and s.exc.func.id in ERR) or s.cause:
                self.fail(s, "raise")
            return [pad + "-- " + quote(s), pad + f".error {ERR[s.exc.func.id]}"]
        if isinstance(s, ast.Assign) and len(s.targets) == 1 and isinstance(s.targets[0], ast.Name):
            n = s.targets[0].id
            if u(s) == "other = self._check_duplicate(other)":
                if st.vector or st.iterable or st.scalar:
                    self.fail(s, "rebinding of `other` after a test")
                return [pad + "-- " + quote(s), pad + "let other := checkDuplicateT other"] + self.stmts(rest, st, ind, fall)
            if n in ("other", "self", "op"):
                self.fail(s, "assignment to a parameter")
            e, t = self.ex(s.value, st)
            if t == "none":
                self.fail(s, "assignment of a bare None")
            return [pad + "-- " + quote(s), pad + f"let {ln(n)} := {e}"] + self.stmts(rest, st.but(env=dict(st.env, **{n: (ln(n), t)})), ind, fall)
        if isinstance(s, ast.If):
            return self.if_stmt(s, rest, st, ind, fall)
        self.fail(s, "statement")

    def if_stmt(self, s, rest, st, ind, fall):
        pad = " " * ind
        chain, node = [], s
        while True:
            chain.append((node.test, body_of(node)))
            if len(node.orelse) == 1 and isinstance(node.orelse[0], ast.If):
                node = node.orelse[0]
            else:
                els = [x for x in node.orelse if not (isinstance(x, ast.Expr) and isinstance(x.value, ast.Constant))]
                break
        falls = any(not terminates(b) for _, b in chain) or (bool(els) and not terminates(els))
        out = []
        if falls and rest:
            self.nfall += 1
            name = "fallthrough" if self.nfall == 1 else f"fallthrough{self.nfall}"
            out.append(pad + f"let {name} : ⟪RT⟫ :=   -- the statements after this `if` statement")
            out += self.stmts(rest, st, ind + 2, fall)
            after = lambda i: [" " * i + name]
            fall_in = name
        elif rest:
            after = lambda i: self.stmts(rest, st, i, fall)
            fall_in = None
        else:
            if fall is None and (falls or not els):
                raise TranslateError(f"{self.where}: a path ends without return")
            after = lambda i: [" " * i + fall]
            fall_in = fall

        def link(i, ind_):
            p = " " * ind_
            if i == len(chain):
                return self.stmts(els, st, ind_, fall_in) if els else after(ind_)
            test, body = chain[i]
            kw = "if" if i == 0 else "elif"
            # isinstance(other, <scalar class>): `other` seen as a value of that class
            if isinstance(test, ast.Call) and u(test.func) == "isinstance" and len(test.args) == 2 and u(test.args[0]) == "other" \
                    and isinstance(test.args[1], ast.Name) and test.args[1].id in SCALAR_CLASSES:
                o = SCALAR_CLASSES[test.args[1].id]
                self.used.add(o)
                return ([p + f"match asT {o} other with   -- {kw} {quote(test)}:", p + "| some other_s =>", p + "  ("]
                        + self.stmts(body, st.but(scalar="other_s"), ind_ + 4, fall_in)
                        + [p + "  )", p + "| none =>"] + link(i + 1, ind_ + 2))
            c, st_true = self.cond(test, st)
            return ([p + f"if {c} then   -- {kw} {quote(test)}:"] + self.stmts(body, st_true, ind_ + 2, fall_in)
                    + [p + "else"] + link(i + 1, ind_ + 2))
        return out + link(0, ind)


# ---------------------------------------------------------------------------------------------------------------------
def _dataclass_nullable_default(ttree):
    for node in ast.walk(ttree):
        if isinstance(node, ast.ClassDef) and node.name == "DataType":
            for s in node.body:
                if isinstance(s, ast.AnnAssign) and isinstance(s.target, ast.Name) and s.target.id == "nullable" \
                        and isinstance(s.value, ast.Constant) and isinstance(s.value.value, bool):
                    return "true" if s.value.value else "false"
    raise TranslateError("DataType: default of the field `nullable`")


def _signature(f, names, where):
    a = f.args
    if [x.arg for x in a.args] != names or a.vararg or a.kwarg or a.kwonlyargs or a.defaults or a.posonlyargs:
        raise TranslateError(f"{where}: signature ({u(a)})")


def check_check_duplicate(vtree):
    """`self._check_duplicate(other)` returns `other` or a deep copy of it: the same value"""
    f = find_func(vtree, "_check_duplicate", "Vector")
    _signature(f, ["self", "other"], "Vector._check_duplicate")
    rets = [n for n in ast.walk(f) if isinstance(n, ast.Return)]
    if not rets or any(r.value is None or u(r.value) not in ("other", "deepcopy(other)") for r in rets) or not terminates(body_of(f)):
        raise TranslateError("Vector._check_duplicate: returns something else than `other` / `deepcopy(other)`")
    if any(isinstance(n, (ast.Raise, ast.Assign, ast.AugAssign, ast.Delete)) for n in ast.walk(f)):
        raise TranslateError("Vector._check_duplicate: statement with an effect")


BASICS = {"__iter__": "return iter(self._underlying)", "__len__": "return len(self._underlying)", "schema": "return self._dtype"}


def check_basics(vtree):
    """`len(self)`, iteration over `self` / `other` and `other.schema()` are read as the length / the elements of `_underlying` and
    `_dtype`: `Vector.__len__`, `__iter__` and `schema` must say so, and `_Date` must not redefine them"""
    for name, want in BASICS.items():
        f = find_func(vtree, name, "Vector")
        b = body_of(f)
        if len(b) != 1 or u(b[0]) != want or [a.arg for a in f.args.args] != ["self"]:
            raise TranslateError(f"Vector.{name}: expected `{want}`")
    cls = next((n for n in ast.walk(vtree) if isinstance(n, ast.ClassDef) and n.name == "_Date"), None)
    if cls is None:
        raise TranslateError("class _Date not found")
    for sub in cls.body:
        if isinstance(sub, ast.FunctionDef) and sub.name in BASICS:
            raise TranslateError(f"_Date redefines {sub.name}")


def _dispatch_method(vtree, name, lean_name, params, elem, result, nd, doc_extra):
    check_basics(vtree)
    f = find_func(vtree, name, "_Date")
    _signature(f, params, f"_Date.{name}")
    m = _Method("_Date", f, nd, elem)
    body = m.stmts(body_of(f), _St(), 2, None)
    rt = f"Res (VectorCall ({elem}))" if " " in elem else f"Res (VectorCall {elem})"
    body = [l.replace("⟪RT⟫", rt) for l in body]
    oracles = [o for o in ORACLE_ORDER if o in m.used]
    tv = "{α β γ : Type}" if "γ" in elem else "{α β : Type}"
    sig = [ORACLE_SIG[o] for o in oracles] + [f"(super_{s.strip('_')} : Operand β → {rt})" for s in m.supers]
    docs = "; ".join([ORACLE_DOC[o] for o in oracles] + [f"`super_{s.strip('_')}` is `super().{s}(other{', op' if 'op' in params else ''})`" for s in m.supers])
    doc = (f"/-- translated statement by statement from `_Date.{name}`:\n{quote_doc(f)}\n"
           + textwrap.fill(f"({docs}; {doc_extra})", width=128, initial_indent="    ", subsequent_indent="    ", break_on_hyphens=False) + " -/")
    return (f"{doc}\ndef {lean_name} {tv}\n    " + "\n    ".join(_wrap(sig)) + f"\n    (self_ : Col α) (other : Operand β) : {rt} :=\n" + "\n".join(body))


def _wrap(items, width=120):
    lines, cur = [], ""
    for it in items:
        if cur and len(cur) + 1 + len(it) > width:
            lines.append(cur)
            cur = it
        else:
            cur = (cur + " " + it) if cur else it
    return lines + ([cur] if cur else [])


WRAPPER_DOC = ("`call s` is Python's `s.{m}(*args, **kwargs)` on a non-None element, with the arguments of this call; the new Vector is "
               "built without `dtype=`")


def translate_wrappers(vtree, nd):
    """every method of `_Date` of the form `def M(self, *args, **kwargs): return Vector(tuple(… for s in self._underlying))`"""
    check_basics(vtree)
    cls = next(n for n in ast.walk(vtree) if isinstance(n, ast.ClassDef) and n.name == "_Date")
    out, names = [], []
    for f in cls.body:
        if not isinstance(f, ast.FunctionDef):
            continue
        a = f.args
        if not ([x.arg for x in a.args] == ["self"] and a.vararg and a.vararg.arg == "args" and a.kwarg and a.kwarg.arg == "kwargs"
                and not a.kwonlyargs and not a.defaults and not f.decorator_list):
            continue
        body = body_of(f)
        if len(body) != 1 or not isinstance(body[0], ast.Return):
            raise TranslateError(f"_Date.{f.name}: body of a `(*args, **kwargs)` wrapper")
        m = _Method("_Date", f, nd, "Option γ")
        lines = m.stmts(body, _St(), 2, None)
        if m.used != {"call"} or m.supers:
            raise TranslateError(f"_Date.{f.name}: not a broadcast of the element's own method")
        doc = f"/-- translated from `_Date.{f.name}`:\n{quote_doc(f)}\n    ({WRAPPER_DOC.format(m=f.name)}) -/"
        out.append(f"{doc}\ndef date_{f.name}T {{α γ : Type}} (call : α → Res γ) (self_ : Col α) : Res (VectorCall (Option γ)) :=\n" + "\n".join(lines))
        names.append(f.name)
    if not names:
        raise TranslateError("_Date: no `(*args, **kwargs)` wrapper found")
    out.append("/-- the methods of `_Date` of the wrapper form, in the order of the class body -/\n"
               "def dateWrappersT : List String := [" + ", ".join(f'"{n}"' for n in names) + "]")
    return "\n\n".join(out)


def translate_eomonth(vtree):
    f = find_func(vtree, "eomonth", "_Date")
    _signature(f, ["self"], "_Date.eomonth")
    where = "_Date.eomonth"

    def fail(node, why):
        raise TranslateError(f"{where}: {why}: " + u(node).replace("\n", " ")[:80])
    body = body_of(f)
    if len(body) != 3:
        raise TranslateError(f"{where}: expected accumulator, loop, return")
    init, loop, ret = body
    if not (isinstance(init, ast.Assign) and len(init.targets) == 1 and isinstance(init.targets[0], ast.Name) and u(init.value) == "[]"):
        fail(init, "accumulator")
    acc = init.targets[0].id
    if not (isinstance(loop, ast.For) and isinstance(loop.target, ast.Name) and u(loop.iter) in ("self._underlying", "self") and not loop.orelse):
        fail(loop, "loop")
    d = loop.target.id
    if not (isinstance(ret, ast.Return) and ret.value is not None and u(ret.value) == f"Vector(tuple({acc}))"):
        fail(ret, "return")
    used = []

    def append_arg(s):
        if isinstance(s, ast.Expr) and isinstance(s.value, ast.Call) and u(s.value.func) == f"{acc}.append" and len(s.value.args) == 1 \
                and not s.value.keywords:
            return s.value.args[0]
        return None

    def go(stmts_, env, ind, top):
        """env: python local -> (lean, 'opt'|'val'); the accumulator is threaded as the Lean variable of the same name"""
        pad = " " * ind
        if not stmts_:
            return [pad + f".ok {ln(acc)}"]
        s, rest = stmts_[0], stmts_[1:]
        note = pad + "-- " + quote(s, first_line=isinstance(s, ast.If))
        if isinstance(s, ast.Continue):
            return [note, pad + f".ok {ln(acc)}"]          # the rest of the body is skipped
        a = append_arg(s)
        if a is not None:
            if isinstance(a, ast.Constant) and a.value is None:
                v = "none"
            elif isinstance(a, ast.Name) and a.id in env and env[a.id][1] == "val":
                v = f"some {env[a.id][0]}"
            elif isinstance(a, ast.Name) and a.id in env:
                v = env[a.id][0]
            else:
                fail(s, "appended value")
            return [note, pad + f"let {ln(acc)} := {ln(acc)} ++ [{v}]"] + go(rest, env, ind, top)
        if isinstance(s, ast.If) and not s.orelse:
            nt = none_test(s.test)
            b = body_of(s)
            if nt and nt[0] in env and env[nt[0]][1] == "opt" and b and isinstance(b[-1], ast.Continue):
                name, isn = nt
                lv = env[name][0]
                if not isn:
                    fail(s, "only the `is None: …; continue` shortcut is understood")
                return ([note, pad + f"match {lv} with", pad + "| none =>", pad + "  ("] + go(b, env, ind + 4, False) + [pad + "  )", pad + f"| some {lv} =>"]
                        + go(rest, dict(env, **{name: (lv, "val")}), ind + 2, top))
            fail(s, "if statement")
        if isinstance(s, ast.Assign) and len(s.targets) == 1 and isinstance(s.targets[0], ast.Name):
            n = s.targets[0].id
            if n in (acc, d, "self"):
                fail(s, "assignment to the accumulator / loop variable")
            names = [x.id for x in ast.walk(s.value) if isinstance(x, ast.Name) and x.id in env]
            if len(set(names)) != 1 or env[names[0]][1] != "val":
                fail(s, "scalar operation on something that may be None")
            c = canonical(s.value, {names[0]: "a"})
            if c not in EOMONTH_OPS or ("a" in [x.id for x in ast.walk(s.value) if isinstance(x, ast.Name)] and names[0] != "a"):
                fail(s, "scalar operation not in the table")
            o = EOMONTH_OPS[c]
            if o not in used:
                used.append(o)
            return ([note, pad + f"match {o} {env[names[0]][0]} with", pad + "| .error e => .error e", pad + f"| .ok {ln(n)} =>"]
                    + go(rest, dict(env, **{n: (ln(n), "val")}), ind, top))
        fail(s, "statement")

    inner = go(body_of(loop), {d: (ln(d), "opt")}, 4, True)
    if used != list(EOMONTH_OPS.values()):
        raise TranslateError(f"{where}: the date computations are not the two understood ones, in order")
    docs = "; ".join(f"`{o} a` is Python's `{t}`" for t, o in EOMONTH_OPS.items())
    doc = (f"/-- translated statement by statement from `_Date.eomonth`:\n{quote_doc(f)}\n"
           + textwrap.fill(f"({docs}; `{acc}.append(v)` is `{acc} ++ [v]`, `continue` ends the iteration with the accumulator as it is; "
                           "the new Vector is built without `dtype=`)", width=128, initial_indent="    ", subsequent_indent="    ",
                           break_on_hyphens=False) + " -/")
    return (f"{doc}\ndef eomonthT {{α : Type}} (first_of_next_month minus_one_day : α → Res α) (self_ : Col α) : Res (VectorCall (Option α)) :=\n"
            f"  -- {quote(init)}\n  let {ln(acc)} : List (Option α) := []\n  -- {quote(loop, first_line=True)}\n"
            f"  vectorT (forT self_ {ln(acc)} (fun {ln(acc)} {ln(d)} =>\n" + "\n".join(inner) + f"))\n  -- {quote(ret)}\n    none")


def translate_defines(vtree):
    cls = next((n for n in ast.walk(vtree) if isinstance(n, ast.ClassDef) and n.name == "_Date"), None)
    if cls is None or [u(b) for b in cls.bases] != ["Vector"]:
        raise TranslateError("class _Date(Vector) not found")
    names = []
    for s in cls.body:
        if isinstance(s, ast.FunctionDef) and s.name in ARITH_DUNDERS:
            names.append(s.name)
        elif isinstance(s, ast.Assign) and any(isinstance(t, ast.Name) and t.id in ARITH_DUNDERS for t in s.targets):
            raise TranslateError("_Date: arithmetic method defined by assignment")
    # the constructor hands everything to Vector.__init__ (the dtype is settled by Vector.__new__)
    init = find_func(vtree, "__init__", "_Date")
    b = body_of(init)
    if len(b) != 1 or u(b[0]) != "super().__init__(initial, dtype=dtype, name=name, as_row=as_row)":
        raise TranslateError("_Date.__init__: does more than delegate to Vector.__init__")
    return ("/-- the binary arithmetic methods (`__add__` … `__pow__`, `__radd__` … `__rpow__`) that the body of `class _Date(Vector)` defines itself,\n"
            "    in source order; every other one is inherited from `Vector`.  (`_Date.__init__` only delegates to `Vector.__init__`.) -/\n"
            "def dateDefinesT : List String := [" + ", ".join(f'"{n}"' for n in names) + "]")


NEW_EXPECT = [
    "has_items = len(initial) > 0 if isinstance(initial, Vector) else bool(initial)",
    "if dtype is not None and (not isinstance(dtype, DataType)):\n    dtype = DataType(dtype)",
    "if dtype is None and has_items:\n    dtype = infer_dtype(initial)",
    "target_class = cls",
]
NEW_AFTER = ["instance = super(Vector, target_class).__new__(target_class)", "instance._dtype = dtype"]


def translate_new(vtree):
    """`Vector.__new__`: the statements that settle `dtype` and `target_class`, for an `initial` that is a tuple of scalars / None
    (what the methods of `_Date` pass) and a `dtype` that is None or a DataType.  Shape-checked frame, translated class chain."""
    f = find_func(vtree, "__new__", "Vector")
    where = "Vector.__new__"
    if [x.arg for x in f.args.args][:3] != ["cls", "initial", "dtype"]:
        raise TranslateError(f"{where}: signature")
    body = body_of(f)
    texts = [u(s) for s in body]
    pos = []
    for t in NEW_EXPECT + NEW_AFTER:
        if texts.count(t) != 1:
            raise TranslateError(f"{where}: expected exactly one statement `{t.splitlines()[0]}`")
        pos.append(texts.index(t))
    if pos != sorted(pos):
        raise TranslateError(f"{where}: the statements that settle dtype / target_class are out of order")
    chain_i = pos[3] + 1
    if chain_i >= len(body) or chain_i >= pos[4]:
        raise TranslateError(f"{where}: class chain not found")
    # nothing else may assign these names
    allowed = {id(body[p]) for p in pos}
    top = body[chain_i]
    for node in ast.walk(f):
        if isinstance(node, (ast.Assign, ast.AugAssign, ast.AnnAssign)):
            tg = node.targets if isinstance(node, ast.Assign) else [node.target]
            for t in tg:
                if isinstance(t, ast.Name) and t.id in ("dtype", "has_items", "target_class", "cls"):
                    inside = any(node is n for p in pos for n in ast.walk(body[p])) or any(node is n for n in ast.walk(top))
                    if not inside:
                        raise TranslateError(f"{where}: another assignment to `{t.id}`")
    # between the dtype statements and the chain only the Table check may stand (it concerns an `initial` of Vectors)
    for i in range(pos[0] + 1, pos[4]):
        if i in pos or i == chain_i:
            continue
        s = body[i]
        if isinstance(s, ast.If) and u(s.test) == "has_items and all((isinstance(x, Vector) for x in initial))":
            continue
        raise TranslateError(f"{where}: statement between the dtype decisions: " + texts[i].splitlines()[0][:70])
    if not (isinstance(top, ast.If) and u(top.test) == "dtype is not None" and not top.orelse and len(body_of(top)) == 1
            and isinstance(body_of(top)[0], ast.If)):
        raise TranslateError(f"{where}: class chain: " + texts[chain_i].splitlines()[0])
    lines, node, first = [], body_of(top)[0], True
    while True:
        t = node.test
        if not (isinstance(t, ast.Compare) and len(t.ops) == 1 and isinstance(t.ops[0], (ast.Is, ast.Eq)) and u(t.left) == "dtype.kind"
                and isinstance(t.comparators[0], ast.Name) and t.comparators[0].id in KINDS):
            raise TranslateError(f"{where}: class chain test: {u(t)}")
        b = body_of(node)
        if not (len(b) == 1 and isinstance(b[0], ast.Assign) and u(b[0].targets[0]) == "target_class" and len(b[0].targets) == 1
                and isinstance(b[0].value, ast.Name) and b[0].value.id in PY_CLASSES):
            raise TranslateError(f"{where}: class chain branch: {u(b[0]) if b else ''}")
        lines.append(f"      {'if' if first else 'else if'} dtype.kind == {KINDS[t.comparators[0].id]} then PyClass.{PY_CLASSES[b[0].value.id]}"
                     f"   -- {'if' if first else 'elif'} {u(t)}: {u(b[0])}")
        first = False
        if len(node.orelse) == 1 and isinstance(node.orelse[0], ast.If):
            node = node.orelse[0]
        elif not node.orelse:
            break
        else:
            raise TranslateError(f"{where}: class chain else branch")
    lines.append("      else target_class")
    quoted = "\n".join("    " + l for s in ([body[p] for p in pos[:4]] + [top] + [body[p] for p in pos[4:]]) for l in quote(s).splitlines())
    return ("/-- the classes `Vector.__new__` chooses between -/\ninductive PyClass where\n  | vector | string | int | float | date\n"
            "  deriving DecidableEq, Repr\n\n"
            f"/-- translated from `Vector.__new__`, the statements that settle the dtype and the class of the new object:\n{quoted}\n"
            "    for an `initial` that is a tuple of scalars / None (so `has_items` is `bool(initial)`: there are items, and the Table check\n"
            "    between them does not apply) and a `dtype` that is None or a DataType (so it is not converted).  `infer_dtype` is the\n"
            "    library's.  Result: the class of the instance and the `_dtype` stashed on it. -/\n"
            "def vectorNewT {ε : Type} (infer_dtype : List ε → DType) (cls : PyClass) (initial : List ε) (dtype : Option DType) :\n"
            "    PyClass × Option DType :=\n"
            "  -- has_items = … bool(initial)\n  let has_items := !initial.isEmpty\n"
            "  -- if dtype is None and has_items: dtype = infer_dtype(initial)\n"
            "  let dtype := if dtype.isNone && has_items then some (infer_dtype initial) else dtype\n"
            "  -- target_class = cls\n  let target_class := cls\n  -- if dtype is not None:\n"
            "  let target_class :=\n    match dtype with\n    | none => target_class\n    | some dtype =>\n" + "\n".join(lines) + "\n"
            "  -- instance = super(Vector, target_class).__new__(target_class); instance._dtype = dtype\n"
            "  (target_class, dtype)")


PRELUDE = """/-- the arguments of a constructor call `Vector(values, dtype=…)`; `dtype = none`: no `dtype=` argument, `Vector.__new__` infers it
    (see `vectorNewT`) -/
structure VectorCall (ε : Type) where
  values : List ε
  dtype : Option DType
  deriving DecidableEq, Repr

/-- `Vector(tuple(<generator>), dtype=…)`: an exception raised while the generator runs leaves the whole expression -/
def vectorT {ε : Type} (vals : Res (List ε)) (dtype : Option DType) : Res (VectorCall ε) :=
  match vals with
  | .error e => .error e
  | .ok vals => .ok { values := vals, dtype := dtype }

/-- `isinstance(other, Vector)` -/
def isVectorT {β : Type} : Operand β → Bool
  | .vec _ _ => true
  | _ => false

/-- `isinstance(other, Iterable) and not isinstance(other, (str, bytes, bytearray))` (a Vector is iterable too) -/
def isIterableT {β : Type} : Operand β → Bool
  | .scalar _ => false
  | _ => true

/-- the elements `len(other)` counts and iteration over `other` yields (only used under one of the two tests above) -/
def itemsT {β : Type} : Operand β → Col β
  | .vec ys _ => ys
  | .seq ys => ys
  | .scalar _ => []

/-- `other.schema()` (only used under `isinstance(other, Vector)`) -/
def schemaT {β : Type} : Operand β → Option DType
  | .vec _ dt => dt
  | _ => none

/-- `isinstance(other, C)` for a scalar class `C` (`p` is the test on a scalar): `other` as a value of that class -/
def asT {β : Type} (p : β → Bool) : Operand β → Option β
  | .scalar s => if p s then some s else none
  | _ => none

/-- `self._check_duplicate(other)`: `other` itself, or a deep copy when it is `self` — the same value (shape-checked) -/
def checkDuplicateT {β : Type} (other : Operand β) : Operand β := other

/-- `for i in items: <body>` with the loop state `s`; an exception in the body leaves the loop -/
def forT {σ ι : Type} : List ι → σ → (σ → ι → Res σ) → Res σ
  | [], s, _ => .ok s
  | i :: is, s, body =>
    match body s i with
    | .error e => .error e
    | .ok s => forT is s body"""


def translate_all(vsrc, tsrc):
    parts, errors = [PRELUDE], []
    vtree, ttree = ast.parse(vsrc), ast.parse(tsrc)

    def piece(what, fn):
        try:
            parts.append(fn())
        except Exception as ex:
            errors.append((what, f"{type(ex).__name__}: {ex}"))
            parts.append(f"-- {what}: not translated ({type(ex).__name__})")

    def compare():
        check_check_duplicate(vtree)
        return _dispatch_method(vtree, "_elementwise_compare", "dateCompareT", ["self", "other", "op"], "Bool", None,
                                _dataclass_nullable_default(ttree),
                                "`.error` = the exception raised; the result is the constructor call that builds the returned Vector")

    def add():
        return _dispatch_method(vtree, "__add__", "dateAddT", ["self", "other"], "Option γ", None, _dataclass_nullable_default(ttree),
                                "`.error` = the exception raised; the new Vector is built without `dtype=`")
    piece("_Date._elementwise_compare", compare)
    piece("_Date.__add__", add)
    piece("_Date wrappers", lambda: translate_wrappers(vtree, _dataclass_nullable_default(ttree)))
    piece("_Date.eomonth", lambda: translate_eomonth(vtree))
    piece("_Date class", lambda: translate_defines(vtree))
    piece("Vector.__new__", lambda: translate_new(vtree))
    return parts, errors


def generate(src_dir):
    try:
        vsrc = open(os.path.join(src_dir, "vector.py")).read()
        tsrc = open(os.path.join(src_dir, "typing.py")).read()
        parts, errors = translate_all(vsrc, tsrc)
    except Exception as ex:
        parts, errors = [f"-- dateops: not translated ({type(ex).__name__})"], [("dateops", f"{type(ex).__name__}: {ex}")]
    text = ("/- GENERATED by harness/tr/dateops.py from /repo's working tree — do not edit.\n"
            "   The date vector class `_Date` (src/serif/vector.py): _elementwise_compare, __add__, the (*args, **kwargs) wrappers, eomonth,\n"
            "   the arithmetic methods the class defines, and the class / dtype decision of Vector.__new__, translated statement by\n"
            "   statement; equivalence theorems in Serif/Tie/DateOps.lean. -/\n"
            "import Serif.Model.Vec\n\nset_option linter.unusedVariables false\n\nnamespace Serif.Gen.TDO\nopen Serif Serif.Vec\n\n"
            + "\n\n".join(parts) + "\n\nend Serif.Gen.TDO\n")
    return text, errors


if __name__ == "__main__":
    import sys
    t, e = generate(sys.argv[1] if len(sys.argv) > 1 else "/repo/src/serif")
    print(t)
    print(e, file=sys.stderr)
