"""Translator plug-in: `Table.__setitem__` and `Table._assign_cells` (src/serif/table.py) -> lean/Serif/Gen/TranslatedTableAssign.lean

The two methods are walked statement by statement; every statement becomes one `let` / `if` / `match` / fold step of a generated
Lean definition, in the order of the source, over the model's own data types (`TKey`, `ColSpec`, `ColItem`, `TValue`, `TState` of
Serif/Model/Assign.lean -- the `isinstance` classification of key and value is what those types record).  What the methods ask of
objects they do not own is a field of the generated `Ops` structure (a parameter of every generated definition):
`self._column_map.get`, `list(range(n)[slice])`, `list(value)`, `Vector.__setitem__` on one column, tuple indexing, and the
right-hand side object as a column assignment sees it.

Not translated, on purpose (they are about aliasing, C01/C15): `row_spec = row_spec.copy()`, the up-front `check_writable` loop, and
the `_ALIAS_TRACKER.unregister/register` calls of the restore loop.  Each is recognised by shape and skipped; anything else that
is not understood raises TranslateError (the definition is then missing from the generated file and Serif.Tie.TableAssign stops
building).  Comments, docstrings, blank lines and the wording of error messages play no role (only the exception class is read).

Every column loop of `_assign_cells` has the body `self._underlying[<col>][row_spec] = <v>` and is followed by `return`.  The
translation reifies it: `assignBodyT` returns the list of `(col, v)` the loop runs over, `columnLoopT` (with `writeCellT` for the
body statement) is the loop, `assignCellsT` runs one after the other.
"""
import ast, os

from py2lean import TranslateError, find_func, _ln

GEN_FILE = "TranslatedTableAssign.lean"
TIE = {"Serif.Tie.TableAssign": ["C08"]}

ERR = {"SerifKeyError": "key", "SerifTypeError": "type", "SerifValueError": "value", "SerifIndexError": "index",
       "AttributeError": "attr", "TypeError": "other", "ValueError": "other", "KeyError": "other", "IndexError": "other",
       "RuntimeError": "other", "Exception": "other"}

SUPPORT = '''/-- Python's truth value of an `int | None` (what `dict.get` returns): `None` and `0` are false -/
def truthy : Option Nat → Bool
  | none => false
  | some 0 => false
  | some _ => true

/-- `enumerate(xs)` -/
def enumerateFrom {α : Type} : Nat → List α → List (Nat × α)
  | _, [] => []
  | k, a :: as => (k, a) :: enumerateFrom (k + 1) as

def enumerate {α : Type} (xs : List α) : List (Nat × α) := enumerateFrom 0 xs

/-- what the two methods ask of objects they do not own -/
structure Ops where
  /-- `self._column_map.get(name)` after `self._fresh_column_map()` (names are interned: `Nat`) -/
  column_map_get : Nat → Option Nat
  /-- `list(range(n)[slice(a, b, c)])`; `.error`: the slice raises (zero step) -/
  range_slice : Nat → Option Int → Option Int → Option Int → Except Err (List Int)
  /-- `list(value)`: the items, or the exception raised while iterating -/
  list_of : TValue → Except Err (List Value)
  /-- the object `value` as the right-hand side of ONE column's `Vector.__setitem__` -/
  rhs : TValue → Value
  /-- `Vector.__setitem__(row_spec, v)` on one column: (exception or none, the column afterwards) -/
  vsetitem : Key → Value → VState → Option Err × VState
  /-- position addressed by tuple indexing `self._underlying[col_idx]` on `n` columns; `none`: IndexError -/
  tuple_index : Nat → Int → Option Nat

/-- `not isinstance(value, Iterable) or isinstance(value, (str, bytes, bytearray))` -/
def isScalarV : TValue → Bool
  | .scalar _ => true
  | .iter _ _ _ _ _ => false

/-- `isinstance(value, Table)` -/
def isTableV : TValue → Bool
  | .iter .table _ _ _ _ => true
  | _ => false

/-- `isinstance(value, (list, tuple))` -/
def isListOrTupleV : TValue → Bool
  | .iter .listOrTuple _ _ _ _ => true
  | _ => false

/-- the items of a sized value: `value[i]`, `value.cols()[i]`; `len(value)` is their number -/
def itemsV : TValue → List Value
  | .scalar _ => []
  | .iter _ _ items _ _ => items

/-- `isinstance(value[0], (list, tuple, Vector))` -/
def nestedFirstV : TValue → Bool
  | .scalar _ => false
  | .iter _ _ _ nested _ => nested

/-- `isinstance(row_spec, int)` -/
def keyIsInt : Key → Bool
  | .int _ => true
  | _ => false

/-- the writes of a loop `for i, col in enumerate(cols): self._underlying[col][row_spec] = item(i)`, in order
    (`item i = none`: the subscript raises IndexError) -/
def loopWrites (item : Nat → Option Value) : List (Nat × Int) → Except Err (List (Int × Value))
  | [] => .ok []
  | (i, col_idx) :: rest =>
    match item i with
    | none => .error Err.other
    | some v =>
      match loopWrites item rest with
      | .error e => .error e
      | .ok ws => .ok ((col_idx, v) :: ws)'''

LOOPS = '''/-- translated from the statement every column loop of `_assign_cells` consists of: `self._underlying[col_idx][row_spec] = v`
    (tuple indexing, then `Vector.__setitem__` mutating the column object where it sits) -/
def writeCellT (O : Ops) (row_spec : Key) (t : TState) (col_idx : Int) (v : Value) : Option Err × TState :=
  match O.tuple_index t.cols.length col_idx with
  | none => (some Err.other, t)
  | some j =>
    match t.cols[j]? with
    | none => (some Err.other, t)
    | some col =>
      let r := O.vsetitem row_spec v col
      (r.1, { cols := t.cols.set j r.2 })

/-- the column loop `for …: self._underlying[col_idx][row_spec] = v`: stops at the first column that raises -/
def columnLoopT (O : Ops) (row_spec : Key) : List (Int × Value) → TState → Option Err × TState
  | [], t => (none, t)
  | (col_idx, v) :: rest, t =>
    match writeCellT O row_spec t col_idx v with
    | (some e, t') => (some e, t')
    | (none, t') => columnLoopT O row_spec rest t\''''


def _u(n):
    return ast.unparse(n)


def _strip(stmts):
    """drop docstrings / bare string expressions and imports"""
    return [s for s in stmts if not (isinstance(s, ast.Expr) and isinstance(s.value, ast.Constant))
            and not isinstance(s, (ast.Import, ast.ImportFrom, ast.Pass))]


def _err(raise_stmt):
    exc = raise_stmt.exc
    if exc is None:
        raise TranslateError("bare raise outside the handler")
    name = exc.func.id if isinstance(exc, ast.Call) and isinstance(exc.func, ast.Name) else exc.id if isinstance(exc, ast.Name) else None
    if name not in ERR:
        raise TranslateError("raises " + _u(exc)[:40])
    return "Err." + ERR[name]


def _doc(title, stmts, limit=14):
    """docstring quoting the Python text (comments are not in the AST; messages are cut out)"""
    lines = []
    for s in stmts:
        lines += _u(_Msg().visit(ast.parse(_u(s)))).split("\n")
    if len(lines) > limit:
        lines = lines[:limit] + ["…"]
    body = "\n".join("      " + ln for ln in lines).replace("-/", "- /").replace("/-", "/ -")
    return "/-- " + title + "\n" + body + " -/\n"


class _Msg(ast.NodeTransformer):
    """error messages do not matter: `raise X('…')` -> `raise X(…)`"""
    def visit_Raise(self, node):
        if isinstance(node.exc, ast.Call):
            node.exc.args, node.exc.keywords = [ast.Constant(value=...)], []
        return node


def _always_returns(stmts):
    for s in stmts:
        if isinstance(s, (ast.Return, ast.Raise)):
            return True
        if isinstance(s, ast.If) and s.orelse and _always_returns(s.body) and _always_returns(s.orelse):
            return True
    return False


# ---------------------------------------------------------------------------------------------
# Table.__setitem__: snapshot, try, restore loop, re-raise
# ---------------------------------------------------------------------------------------------
FIELDS = {"_underlying": ("data", "List Cell"), "_dtype": ("dtype", "Option DType"), "_fp": ("fp", "Option (List Cell)"),
          "_name": ("name", "Option Nat"), "__class__": (None, "κ")}


def translate_wrapper(tree):
    f = find_func(tree, "__setitem__", "Table")
    args = [a.arg for a in f.args.args]
    if len(args) != 3:
        raise TranslateError("__setitem__: arguments")
    body = _strip(f.body)
    if len(body) != 2 or not isinstance(body[0], ast.Assign) or not isinstance(body[1], ast.Try):
        raise TranslateError("__setitem__: expected `<snapshot> = [...]` followed by try/except")
    snap, tr = body
    # ---- the snapshot
    if not (len(snap.targets) == 1 and isinstance(snap.targets[0], ast.Name) and isinstance(snap.value, ast.ListComp)):
        raise TranslateError("__setitem__: snapshot is not a list comprehension")
    before = snap.targets[0].id
    lc = snap.value
    if not (len(lc.generators) == 1 and not lc.generators[0].ifs and isinstance(lc.generators[0].target, ast.Name)
            and _u(lc.generators[0].iter) == f"{args[0]}._underlying" and isinstance(lc.elt, ast.Tuple)):
        raise TranslateError("__setitem__: snapshot comprehension is not over self._underlying")
    cv = lc.generators[0].target.id
    elts = lc.elt.elts
    if not (isinstance(elts[0], ast.Name) and elts[0].id == cv):
        raise TranslateError("__setitem__: first snapshot component is not the column object")
    snap_fields = []
    for e in elts[1:]:
        if not (isinstance(e, ast.Attribute) and isinstance(e.value, ast.Name) and e.value.id == cv and e.attr in FIELDS):
            raise TranslateError("__setitem__: snapshot component " + _u(e))
        snap_fields.append(e.attr)
    # ---- try / except
    if not (len(tr.body) == 1 and _u(tr.body[0]) == f"{args[0]}._assign_cells({args[1]}, {args[2]})" and not tr.orelse
            and not tr.finalbody and len(tr.handlers) == 1):
        raise TranslateError("__setitem__: try body is not the single call self._assign_cells(key, value)")
    h = tr.handlers[0]
    if h.type is not None and _u(h.type) not in ("Exception", "BaseException"):
        raise TranslateError("__setitem__: handler catches only " + _u(h.type))
    hb = _strip(h.body)
    if not (len(hb) == 2 and isinstance(hb[0], ast.For) and isinstance(hb[1], ast.Raise) and hb[1].exc is None and hb[1].cause is None):
        raise TranslateError("__setitem__: handler is not `for … in <snapshot>: …` followed by a bare `raise`")
    loop = hb[0]
    if not (_u(loop.iter) == before and isinstance(loop.target, ast.Tuple) and all(isinstance(x, ast.Name) for x in loop.target.elts)
            and len(loop.target.elts) == len(elts) and not loop.orelse):
        raise TranslateError("__setitem__: restore loop header")
    names = [x.id for x in loop.target.elts]
    col = names[0]
    bound = dict(zip(names[1:], snap_fields))          # loop variable -> attribute it was read from
    if len(set(names)) != len(names):
        raise TranslateError("__setitem__: restore loop variables")

    def tracker_call(s):
        return isinstance(s, ast.Expr) and isinstance(s.value, ast.Call) and _u(s.value.func) in ("_ALIAS_TRACKER.unregister", "_ALIAS_TRACKER.register")

    def attr_of(node):
        if isinstance(node, ast.Attribute) and isinstance(node.value, ast.Name) and node.value.id == col and node.attr in FIELDS:
            return node.attr
        raise TranslateError("__setitem__: restore loop touches " + _u(node))

    def read(attr):
        return f"clsOf {_ln(col)}" if attr == "__class__" else f"{_ln(col)}.{FIELDS[attr][0]}"

    def steps(stmts, ind):
        pad = " " * ind
        out = []
        for s in stmts:
            if tracker_call(s):
                continue                                       # registry bookkeeping: aliasing (C01/C15)
            if isinstance(s, ast.Assign) and len(s.targets) == 1 and isinstance(s.value, ast.Name) and s.value.id in bound:
                a = attr_of(s.targets[0])
                v = _ln(s.value.id)
                if bound[s.value.id] == a:
                    put_back.add(a)
                out.append(pad + (f"let {_ln(col)} := setCls {v} {_ln(col)}" if a == "__class__"
                                  else f"let {_ln(col)} := {{ {_ln(col)} with {FIELDS[a][0]} := {v} }}"))
            elif isinstance(s, ast.If) and not s.orelse and isinstance(s.test, ast.Compare) and len(s.test.ops) == 1 \
                    and isinstance(s.test.ops[0], (ast.IsNot, ast.NotEq)) and isinstance(s.test.comparators[0], ast.Name) \
                    and s.test.comparators[0].id in bound:
                a = attr_of(s.test.left)
                inner = steps(s.body, ind + 4)
                out.append(pad + f"let {_ln(col)} := if {read(a)} != {_ln(s.test.comparators[0].id)} then\n"
                           + "\n".join(inner + [" " * (ind + 4) + _ln(col)]) + "\n" + pad + f"  else {_ln(col)}")
            else:
                raise TranslateError("__setitem__: restore loop statement " + _u(s)[:60])
        return out

    put_back = set()
    body_lines = steps(loop.body, 2)
    # the model's column state has no class component, so no theorem can notice a class that is not put back: insist on it here
    if "__class__" not in snap_fields or "__class__" not in put_back:
        raise TranslateError("__setitem__: the class of a column (`__class__`) is not snapshotted and put back by the restore loop")
    params = " ".join(f"({_ln(n)} : {FIELDS[a][1]})" for n, a in bound.items())
    restore = (_doc("translated from the body of the restore loop of `Table.__setitem__` (one column record, put back field by field;\n"
                    "    `clsOf` / `setCls` read and assign `__class__`; `is not` on the storage tuple is `!=` on its contents; the\n"
                    "    `_ALIAS_TRACKER` bookkeeping is not translated; the name is not among the fields put back):", [loop], 20)
               + f"def restoreColT {{κ : Type}} [DecidableEq κ] (clsOf : VState → κ) (setCls : κ → VState → VState)\n"
               f"    ({_ln(col)} : VState) {params} : VState :=\n" + "\n".join(body_lines + ["  " + _ln(col)]))
    snap_tuple = ", ".join(f"clsOf {_ln(cv)}" if a == "__class__" else f"{_ln(cv)}.{FIELDS[a][0]}" for a in snap_fields)
    pat = ", ".join(_ln(n) for n in names[1:])
    wrapper = (_doc("translated from `Table.__setitem__` (`assign` is `self._assign_cells(key, value)` acting on the table: exception or\n"
                    "    none, and the table as it stands then; the snapshot holds the column objects in table order, so its k-th entry is\n"
                    "    put back on the k-th column; `(some e, …)` is the bare `raise`):", [snap, tr], 30)
               + f"def tableSetitemT {{κ : Type}} [DecidableEq κ] (clsOf : VState → κ) (setCls : κ → VState → VState)\n"
               f"    (assign : TState → Option Err × TState) (t : TState) : Option Err × TState :=\n"
               f"  let {_ln(before)} := t.cols.map (fun {_ln(cv)} => ({snap_tuple}))\n"
               f"  match assign t with\n"
               f"  | (none, t') => (none, t')\n"
               f"  | (some e, t') =>\n"
               f"    let cols := List.zipWith (fun {_ln(col)} ({pat}) => restoreColT clsOf setCls {_ln(col)} {' '.join(_ln(n) for n in names[1:])}) t'.cols {_ln(before)}\n"
               f"    (some e, {{ cols := cols }})")
    return [restore, wrapper]


# ---------------------------------------------------------------------------------------------
# Table._assign_cells
# ---------------------------------------------------------------------------------------------
class _Cells:
    def __init__(self, f):
        self.f = f
        a = [x.arg for x in f.args.args]
        if len(a) != 3:
            raise TranslateError("_assign_cells: arguments")
        self.self_, self.key, self.value = a
        self.saw_write = False

    # ---- step 1
    def key_step(self, s):
        S, K = self.self_, self.key
        if not (isinstance(s, ast.If) and _u(s.test) == f"isinstance({K}, tuple)"):
            raise TranslateError("_assign_cells: expected `if isinstance(key, tuple):`")
        b, o = _strip(s.body), _strip(s.orelse)
        if not (len(b) == 2 and isinstance(b[0], ast.If) and _u(b[0].test) == f"len({K}) != 2" and not b[0].orelse
                and len(_strip(b[0].body)) == 1 and isinstance(_strip(b[0].body)[0], ast.Raise)
                and isinstance(b[1], ast.Assign) and isinstance(b[1].targets[0], ast.Tuple) and len(b[1].targets[0].elts) == 2
                and all(isinstance(x, ast.Name) for x in b[1].targets[0].elts) and _u(b[1].value) == K):
            raise TranslateError("_assign_cells: tuple branch of the key normalisation")
        first, second = [x.id for x in b[1].targets[0].elts]
        e = _err(_strip(b[0].body)[0])
        got = {}
        for a in o:
            if not (isinstance(a, ast.Assign) and len(a.targets) == 1 and isinstance(a.targets[0], ast.Name)):
                raise TranslateError("_assign_cells: non-tuple branch of the key normalisation")
            got[a.targets[0].id] = a.value
        if set(got) != {first, second} or len(o) != 2:
            raise TranslateError("_assign_cells: non-tuple branch must assign the row and the column key")
        rows = [n for n, v in got.items() if _u(v) == K]
        if len(rows) != 1:
            raise TranslateError("_assign_cells: non-tuple branch does not use the key as row key")
        self.row = rows[0]
        self.col = second if self.row == first else first
        sl = got[self.col]
        if not (isinstance(sl, ast.Call) and _u(sl.func) == "slice" and not sl.keywords and 1 <= len(sl.args) <= 3):
            raise TranslateError("_assign_cells: default column key " + _u(sl))

        def c(n):
            if isinstance(n, ast.Constant) and n.value is None:
                return "none"
            if isinstance(n, ast.Constant) and type(n.value) is int:
                return f"(some ({n.value} : Int))"
            if isinstance(n, ast.UnaryOp) and isinstance(n.op, ast.USub) and isinstance(n.operand, ast.Constant) and type(n.operand.value) is int:
                return f"(some (-{n.operand.value} : Int))"
            raise TranslateError("_assign_cells: slice argument " + _u(n))
        sa = [c(x) for x in sl.args]
        sa = ["none", sa[0], "none"] if len(sa) == 1 else sa + ["none"] * (3 - len(sa))
        R, C = _ln(self.row), _ln(self.col)
        lines = []
        for a in o:                                      # in the order of the source
            n = a.targets[0].id
            lines.append(f"    let {_ln(n)} := " + (_ln(K) if n == self.row else f"ColSpec.slice {' '.join(sa)}"))
        pair = f"{_ln(first)} {_ln(second)}"
        return (_doc("translated from step 1 of `Table._assign_cells` (`TKey` records `isinstance(key, tuple)` and `len(key) == 2`):", [s])
                + f"def assignKeyT ({_ln(K)} : TKey) : Except Err (Key × ColSpec) :=\n"
                f"  match {_ln(K)} with\n"
                f"  | .badTuple => .error {e}\n"
                f"  | .pair {pair} => .ok ({R}, {C})\n"
                f"  | .single {_ln(K)} =>\n" + "\n".join(lines) + f"\n    .ok ({R}, {C})")

    # ---- step 2
    def get_expr(self, node, var):
        """`self._column_map.get(x)` / `… or self._column_map.get(x.lower())` on the str variable `var`"""
        S = self.self_

        def one(n):
            if isinstance(n, ast.Call) and _u(n.func) == f"{S}._column_map.get" and len(n.args) == 1 and not n.keywords:
                a = _u(n.args[0])
                if a == var:
                    return f"O.column_map_get {_ln(var)}"
                if a == f"{var}.lower()":
                    return f"O.column_map_get {_ln(var)}_lower"
            raise TranslateError("_assign_cells: column lookup " + _u(n)[:60])
        if isinstance(node, ast.BoolOp) and isinstance(node.op, ast.Or):
            ops = [one(v) for v in node.values]
            e = ops[-1]
            for x in reversed(ops[:-1]):               # Python `x or y`: x if x is truthy, else y
                e = f"(let a := {x}; if truthy a then a else {e})"
            return e
        return one(node)

    def rstmts(self, stmts, env, ind, strvar, allow_loop):
        """statements of one branch of step 2 -> term of type Except Err (List Int) (the final target list)"""
        pad = " " * ind
        TI = _ln(self.ti)
        stmts = _strip(stmts)
        if not stmts:
            return pad + f".ok {TI}"
        s, rest = stmts[0], stmts[1:]

        def cast(n):
            if not isinstance(n, ast.Name) or n.id not in env:
                raise TranslateError("_assign_cells: column index " + _u(n))
            if env[n.id] == "nat":
                return f"Int.ofNat {_ln(n.id)}"
            if env[n.id] == "int":
                return _ln(n.id)
            raise TranslateError(f"_assign_cells: {n.id} may be None where a column index is needed")
        if isinstance(s, ast.Raise):
            return pad + f".error {_err(s)}"
        if isinstance(s, ast.Assign) and len(s.targets) == 1 and isinstance(s.targets[0], ast.Name):
            n = s.targets[0].id
            if n == self.ti and _u(s.value) == f"list(range({self.nc})[{self.col}])" and env.get(self.col) == "slice":
                return (pad + f"match O.range_slice {_ln(self.nc)} a b c with\n" + pad + "| .error e => .error e\n" + pad + f"| .ok {TI} =>\n"
                        + self.rstmts(rest, env, ind + 2, strvar, allow_loop))
            if n == self.ti and isinstance(s.value, ast.List) and len(s.value.elts) == 1:
                return pad + f"let {TI} := [{cast(s.value.elts[0])}]\n" + self.rstmts(rest, env, ind, strvar, allow_loop)
            if n != self.ti and strvar is not None:
                e = self.get_expr(s.value, strvar)
                return pad + f"let {_ln(n)} := {e}\n" + self.rstmts(rest, dict(env, **{n: "optnat"}), ind, strvar, allow_loop)
            raise TranslateError("_assign_cells: assignment " + _u(s)[:60])
        if isinstance(s, ast.If) and not s.orelse and isinstance(s.test, ast.Compare) and len(s.test.ops) == 1 \
                and isinstance(s.test.ops[0], ast.Is) and isinstance(s.test.left, ast.Name) and env.get(s.test.left.id) == "optnat" \
                and _u(s.test.comparators[0]) == "None" and len(_strip(s.body)) == 1 and isinstance(_strip(s.body)[0], ast.Raise):
            v = s.test.left.id
            return (pad + f"match {_ln(v)} with\n" + pad + f"| none => .error {_err(_strip(s.body)[0])}\n" + pad + f"| some {_ln(v)} =>\n"
                    + self.rstmts(rest, dict(env, **{v: "nat"}), ind + 2, strvar, allow_loop))
        if isinstance(s, ast.Expr) and isinstance(s.value, ast.Call) and _u(s.value.func) == f"{self.ti}.append" and len(s.value.args) == 1:
            return pad + f"let {TI} := {TI} ++ [{cast(s.value.args[0])}]\n" + self.rstmts(rest, env, ind, strvar, allow_loop)
        if isinstance(s, ast.For) and allow_loop and _u(s.iter) == self.col and env.get(self.col) == "items" and isinstance(s.target, ast.Name) \
                and not s.orelse:
            self.item_def = self.item_loop(s)
            return (pad + f"match {_ln(self.col)}.foldlM (resolveItemT O) {TI} with\n" + pad + "| .error e => .error e\n" + pad + f"| .ok {TI} =>\n"
                    + self.rstmts(rest, env, ind + 2, strvar, False))
        raise TranslateError("_assign_cells: step 2 statement " + _u(s)[:60])

    def chain(self, s, var):
        """if/elif chain of isinstance tests on `var` -> [(class text, body)], else body (None = no else)"""
        out = []
        while True:
            t = s.test
            if not (isinstance(t, ast.Call) and _u(t.func) == "isinstance" and len(t.args) == 2 and _u(t.args[0]) == var):
                raise TranslateError(f"_assign_cells: test on {var}: " + _u(t)[:60])
            cls = t.args[1]
            out.append((frozenset(x.id for x in cls.elts) if isinstance(cls, ast.Tuple) and all(isinstance(x, ast.Name) for x in cls.elts)
                        else frozenset([_u(cls)]), s.body))
            if len(s.orelse) == 1 and isinstance(s.orelse[0], ast.If):
                s = s.orelse[0]
            else:
                return out, (s.orelse or None)

    def item_loop(self, loop):
        c = loop.target.id
        body = _strip(loop.body)
        if not (len(body) == 1 and isinstance(body[0], ast.If)):
            raise TranslateError("_assign_cells: body of the loop over the column list")
        branches, orelse = self.chain(body[0], c)
        TI = _ln(self.ti)
        arms, seen = [], set()
        for cls, b in branches:
            if cls == {"str"} and "str" not in seen:
                arms.append(f"  | .name {_ln(c)} {_ln(c)}_lower =>\n" + self.rstmts(b, {}, 4, c, False))
                seen.add("str")
            elif cls == {"int"} and "int" not in seen:
                arms.append(f"  | .int {_ln(c)} =>\n" + self.rstmts(b, {c: "int"}, 4, None, False))
                seen.add("int")
            else:
                raise TranslateError("_assign_cells: item class " + "/".join(sorted(cls)))
        arms.append("  | _ =>\n" + self.rstmts(orelse or [], {}, 4, None, False))
        return (_doc("translated from the body of the loop over a tuple / list column key in step 2 of `Table._assign_cells` (an item that\n"
                     "    is neither str nor int falls through the chain):", [loop])
                + f"def resolveItemT (O : Ops) ({TI} : List Int) ({_ln(c)} : ColItem) : Except Err (List Int) :=\n  match {_ln(c)} with\n" + "\n".join(arms))

    def resolve_step(self, stmts):
        S = self.self_
        if _u(stmts[0]) != f"{S}._fresh_column_map()":
            raise TranslateError("_assign_cells: step 2 does not start with self._fresh_column_map()")
        inits = {}
        k = 1
        while k < len(stmts) and isinstance(stmts[k], ast.Assign):
            a = stmts[k]
            if not (len(a.targets) == 1 and isinstance(a.targets[0], ast.Name)):
                raise TranslateError("_assign_cells: step 2 initialisation")
            inits[a.targets[0].id] = _u(a.value)
            k += 1
        ti = [n for n, v in inits.items() if v == "[]"]
        nc = [n for n, v in inits.items() if v == f"len({S}._underlying)"]
        if len(inits) != 2 or len(ti) != 1 or len(nc) != 1:
            raise TranslateError("_assign_cells: step 2 initialisation (target list and column count)")
        self.ti, self.nc = ti[0], nc[0]
        ch = stmts[k]
        if not isinstance(ch, ast.If):
            raise TranslateError("_assign_cells: dispatch on the column key")
        branches, orelse = self.chain(ch, self.col)
        C, TI = _ln(self.col), _ln(self.ti)
        self.item_def = None
        arms, seen = [], set()
        for cls, b in branches:
            tag = "list" if cls == {"tuple", "list"} else next(iter(cls)) if len(cls) == 1 else None
            if tag in seen or tag not in ("slice", "int", "str", "list"):
                raise TranslateError("_assign_cells: column key class " + "/".join(sorted(cls)))
            seen.add(tag)
            if tag == "slice":
                arms.append("  | .slice a b c =>\n" + self.rstmts(b, {self.col: "slice"}, 4, None, False))
            elif tag == "int":
                arms.append(f"  | .int {C} =>\n" + self.rstmts(b, {self.col: "int"}, 4, None, False))
            elif tag == "str":
                arms.append(f"  | .name {C} {C}_lower =>\n" + self.rstmts(b, {}, 4, self.col, False))
            else:
                arms.append(f"  | .list {C} =>\n" + self.rstmts(b, {self.col: "items"}, 4, None, True))
        arms.append("  | _ =>\n" + self.rstmts(orelse or [], {}, 4, None, False))
        d = (_doc("translated from step 2 of `Table._assign_cells` (`ColSpec` records the `isinstance` class of the column key; the column\n"
                  "    map is fresh: `self._fresh_column_map()`):", stmts[:k + 1], 40)
             + f"def resolveColsT (O : Ops) ({_ln(self.nc)} : Nat) ({C} : ColSpec) : Except Err (List Int) :=\n"
             f"  let {TI} : List Int := []\n  match {C} with\n" + "\n".join(arms))
        return ([self.item_def] if self.item_def else []) + [d], k + 1

    # ---- step 3
    def length(self, n):
        V, TI = self.value, self.ti
        if isinstance(n, ast.Constant) and type(n.value) is int and n.value >= 0:
            return str(n.value)
        if isinstance(n, ast.Call) and _u(n.func) == "len" and len(n.args) == 1:
            a = _u(n.args[0])
            if a == TI:
                return f"{_ln(TI)}.length"
            if a in self.lists:
                return f"{_ln(a)}.length"
            if a in (V, f"{V}.cols()"):
                return f"(itemsV {_ln(V)}).length"
        raise TranslateError("_assign_cells: length expression " + _u(n)[:50])

    def cond(self, n):
        V, TI = self.value, self.ti
        t = _u(n)
        atoms = {f"not {TI}": f"{_ln(TI)}.isEmpty",
                 f"not isinstance({V}, Iterable) or isinstance({V}, (str, bytes, bytearray))": f"isScalarV {_ln(V)}",
                 f"isinstance({self.row}, int)": f"keyIsInt {_ln(self.row)}",
                 f"isinstance({V}, Table)": f"isTableV {_ln(V)}",
                 f"isinstance({V}, (list, tuple))": f"isListOrTupleV {_ln(V)}",
                 f"isinstance({V}, (tuple, list))": f"isListOrTupleV {_ln(V)}",
                 f"not {V} or not isinstance({V}[0], (list, tuple, Vector))": f"(itemsV {_ln(V)}).isEmpty || !(nestedFirstV {_ln(V)})"}
        if t in atoms:
            return atoms[t]
        if isinstance(n, ast.Compare) and len(n.ops) == 1:
            l, r = self.length(n.left), self.length(n.comparators[0])
            op = {ast.NotEq: "!=", ast.Eq: "=="}.get(type(n.ops[0]))
            if op:
                return f"{l} {op} {r}"
            op = {ast.Lt: "<", ast.Gt: ">", ast.LtE: "≤", ast.GtE: "≥"}.get(type(n.ops[0]))
            if op:
                return f"decide ({l} {op} {r})"
        if isinstance(n, ast.UnaryOp) and isinstance(n.op, ast.Not):
            return f"!({self.cond(n.operand)})"
        if isinstance(n, ast.BoolOp):
            return "(" + (" && " if isinstance(n.op, ast.And) else " || ").join("(" + self.cond(v) + ")" for v in n.values) + ")"
        raise TranslateError("_assign_cells: condition " + t[:70])

    def write_target(self, tgt, col_expr_ok):
        """`self._underlying[<col>][row_spec]` -> the node <col>"""
        if isinstance(tgt, ast.Subscript) and _u(tgt.slice) == self.row and isinstance(tgt.value, ast.Subscript) \
                and _u(tgt.value.value) == f"{self.self_}._underlying":
            return tgt.value.slice
        raise TranslateError("_assign_cells: assignment target " + _u(tgt)[:60])

    def items_of(self, node, i):
        """`<seq>[i]` with <seq> one of `val_seq`, `value`, `value.cols()`"""
        V = self.value
        if isinstance(node, ast.Subscript) and _u(node.slice) == i:
            a = _u(node.value)
            if a in self.lists:
                return _ln(a)
            if a in (V, f"{V}.cols()") or a in getattr(self, "snaps", ()):
                return f"(itemsV {_ln(V)})"
        raise TranslateError("_assign_cells: written value " + _u(node)[:60])

    def is_alias_check(self, s):
        """for … in target_indices: … _ALIAS_TRACKER.check_writable(…) … — no other effect"""
        if not (isinstance(s, ast.For) and _u(s.iter) == self.ti and not s.orelse):
            return False
        calls = [n for n in ast.walk(s) if isinstance(n, ast.Call)]
        if not any(_u(c.func) == "_ALIAS_TRACKER.check_writable" for c in calls):
            return False
        for n in ast.walk(s):
            if isinstance(n, (ast.Return, ast.Raise, ast.Break, ast.AugAssign, ast.Delete)):
                return False
            if isinstance(n, ast.Assign) and not all(isinstance(t, ast.Name) and t.id not in (self.ti, self.row, self.col, self.nc, self.value, self.key)
                                                     for t in n.targets):
                return False
            if isinstance(n, ast.Call) and _u(n.func) not in ("_ALIAS_TRACKER.check_writable", "id", "len"):
                return False
        return True

    def body(self, stmts, ind):
        """statements of step 3 -> term of type Except Err (Key × List (Int × Value)): the row key and the writes, in order"""
        pad = " " * ind
        R, TI, V = _ln(self.row), _ln(self.ti), _ln(self.value)
        stmts = _strip(stmts)
        if not stmts:
            return pad + f".ok ({R}, [])"                  # falls off the end: nothing (more) is written
        s, rest = stmts[0], stmts[1:]
        if self.is_alias_check(s):
            return self.body(rest, ind)                    # aliasing pre-check (C01/C15): not translated
        if isinstance(s, ast.Return) and s.value is None:
            return pad + f".ok ({R}, [])"
        if isinstance(s, ast.Raise):
            return pad + f".error {_err(s)}"
        if isinstance(s, ast.If):
            c = self.cond(s.test)
            then = s.body if _always_returns(s.body) else s.body + rest
            els = rest if not s.orelse else s.orelse if _always_returns(s.orelse) else s.orelse + rest
            return pad + f"if {c} then\n" + self.body(then, ind + 2) + "\n" + pad + "else\n" + self.body(els, ind)
        if isinstance(s, ast.Assign) and len(s.targets) == 1 and isinstance(s.targets[0], ast.Name) and _u(s.value) == f"list({self.value})":
            n = s.targets[0].id
            self.lists.add(n)
            return (pad + f"match O.list_of {V} with\n" + pad + "| .error e => .error e\n" + pad + f"| .ok {_ln(n)} =>\n" + self.body(rest, ind))
        # a snapshot of the right-hand side taken before the first column is written (`sources = [col.copy() for col in value.cols()]`,
        # `sources = [item.copy() if isinstance(item, Vector) else item for item in value]`): on the value level — the model has no
        # object identity — the snapshot IS the sequence of items; why it is taken (the items may be live columns of this table) is
        # aliasing, owned by C01/C15
        if isinstance(s, ast.Assign) and len(s.targets) == 1 and isinstance(s.targets[0], ast.Name) and isinstance(s.value, ast.ListComp) \
                and len(s.value.generators) == 1 and not s.value.generators[0].ifs and isinstance(s.value.generators[0].target, ast.Name):
            g = s.value.generators[0]
            x = g.target.id
            if _u(g.iter) in (self.value, f"{self.value}.cols()") and _u(s.value.elt) in (f"{x}.copy()", f"{x}.copy() if isinstance({x}, Vector) else {x}"):
                if not hasattr(self, "snaps"):
                    self.snaps = set()
                self.snaps.add(s.targets[0].id)
                return self.body(rest, ind)
        # the column loops and the single write: each must be followed by `return`
        if isinstance(s, (ast.For, ast.Assign)) and not (rest and isinstance(rest[0], ast.Return) and rest[0].value is None):
            raise TranslateError("_assign_cells: a column write that is not followed by `return`: " + _u(s)[:50])
        if isinstance(s, ast.For) and not s.orelse and len(_strip(s.body)) == 1 and isinstance(_strip(s.body)[0], ast.Assign) \
                and len(_strip(s.body)[0].targets) == 1:
            w = _strip(s.body)[0]
            colnode = self.write_target(w.targets[0], None)
            self.saw_write = True
            if isinstance(s.target, ast.Name) and _u(s.iter) == self.ti and _u(colnode) == s.target.id:
                if _u(w.value) != self.value:
                    raise TranslateError("_assign_cells: written value " + _u(w.value)[:50])
                return pad + f".ok ({R}, {TI}.map (fun {_ln(s.target.id)} => ({_ln(s.target.id)}, O.rhs {V})))"
            if isinstance(s.target, ast.Tuple) and len(s.target.elts) == 2 and all(isinstance(x, ast.Name) for x in s.target.elts) \
                    and _u(s.iter) == f"enumerate({self.ti})" and _u(colnode) == s.target.elts[1].id and s.target.elts[0].id != s.target.elts[1].id:
                i = s.target.elts[0].id
                seq = self.items_of(w.value, i)
                return (pad + f"match loopWrites (fun {_ln(i)} => {seq}[{_ln(i)}]?) (enumerate {TI}) with\n" + pad + "| .error e => .error e\n"
                        + pad + f"| .ok writes => .ok ({R}, writes)")
            raise TranslateError("_assign_cells: column loop " + _u(s)[:60])
        if isinstance(s, ast.Assign) and len(s.targets) == 1 and isinstance(s.targets[0], ast.Subscript):
            colnode = self.write_target(s.targets[0], None)
            self.saw_write = True
            if not (isinstance(colnode, ast.Subscript) and _u(colnode.value) == self.ti and isinstance(colnode.slice, ast.Constant)
                    and type(colnode.slice.value) is int and colnode.slice.value >= 0 and _u(s.value) == self.value):
                raise TranslateError("_assign_cells: single write " + _u(s)[:60])
            return (pad + f"match {TI}[{colnode.slice.value}]? with\n" + pad + "| none => .error Err.other\n"
                    + pad + f"| some col_idx => .ok ({R}, [(col_idx, O.rhs {V})])")
        raise TranslateError("_assign_cells: step 3 statement " + _u(s)[:60])

    def translate(self):
        S = self.self_
        stmts = _strip(self.f.body)
        k = 0
        # optional initialisation `row_spec, col_spec = None, None`
        if isinstance(stmts[k], ast.Assign) and _u(stmts[k].value) == "(None, None)" and isinstance(stmts[k].targets[0], ast.Tuple):
            init_names = {_u(x) for x in stmts[k].targets[0].elts}
            k += 1
        else:
            init_names = None
        out = [self.key_step(stmts[k])]
        if init_names is not None and init_names != {self.row, self.col}:
            raise TranslateError("_assign_cells: initial assignment")
        k += 1
        # `if isinstance(row_spec, Vector): row_spec = row_spec.copy()` — snapshot of a live key vector: aliasing, not translated
        if isinstance(stmts[k], ast.If) and _u(stmts[k].test) == f"isinstance({self.row}, Vector)":
            if not (not stmts[k].orelse and len(stmts[k].body) == 1 and _u(stmts[k].body[0]) == f"{self.row} = {self.row}.copy()"):
                raise TranslateError("_assign_cells: treatment of a vector row key")
            k += 1
        defs, used = self.resolve_step(stmts[k:])
        out += defs
        k += used
        self.lists = set()
        R, TI, V = _ln(self.row), _ln(self.ti), _ln(self.value)
        body = self.body(stmts[k:], 2)
        if not self.saw_write:
            raise TranslateError("_assign_cells: no column write found")
        out.append(_doc("translated from step 3 of `Table._assign_cells` (everything after the column resolution; the aliasing pre-check\n"
                        "    loop is skipped).  Each column loop `for …: self._underlying[col][row_spec] = v` followed by `return` is given as\n"
                        "    the list of `(col, v)` it runs over, in order; `columnLoopT` is the loop:", [s for s in stmts[k:] if not self.is_alias_check(s)], 60)
                   + f"def assignBodyT (O : Ops) ({R} : Key) ({TI} : List Int) ({V} : TValue) : Except Err (Key × List (Int × Value)) :=\n" + body)
        K, C, NC = _ln(self.key), _ln(self.col), _ln(self.nc)
        out.append("/-- `Table._assign_cells` up to the column writes: step 1, step 2, step 3 -/\n"
                   f"def assignPlanT (O : Ops) ({NC} : Nat) ({K} : TKey) ({V} : TValue) : Except Err (Key × List (Int × Value)) :=\n"
                   f"  match assignKeyT {K} with\n  | .error e => .error e\n  | .ok ({R}, {C}) =>\n"
                   f"  match resolveColsT O {NC} {C} with\n  | .error e => .error e\n  | .ok {TI} => assignBodyT O {R} {TI} {V}")
        out.append(LOOPS)
        out.append(f"/-- `Table._assign_cells(key, value)` acting on the table (`{self.nc} = len(self._underlying)`): the exception raised before or\n"
                   "    inside the column loop (or none) and the table as it stands then -/\n"
                   f"def assignCellsT (O : Ops) ({K} : TKey) ({V} : TValue) (t : TState) : Option Err × TState :=\n"
                   f"  let {NC} := t.cols.length\n"
                   f"  match assignPlanT O {NC} {K} {V} with\n  | .error e => (some e, t)\n"
                   f"  | .ok ({R}, writes) => columnLoopT O {R} writes t")
        return out


def translate_assign_cells(tree):
    return _Cells(find_func(tree, "_assign_cells", "Table")).translate()


def generate(src_dir):
    parts, errors = [SUPPORT], []
    try:
        tree = ast.parse(open(os.path.join(src_dir, "table.py")).read())
    except Exception as ex:
        tree = None
        errors.append(("table.py", f"{type(ex).__name__}: {ex}"))
        parts.append(f"-- table.py: not parsed ({type(ex).__name__})")
    if tree is not None:
        for what, fn in (("Table._assign_cells", translate_assign_cells), ("Table.__setitem__", translate_wrapper)):
            try:
                parts += fn(tree)
            except Exception as ex:       # TranslateError or anything unexpected: the item is simply not available
                errors.append((what, f"{type(ex).__name__}: {ex}"))
                parts.append(f"-- {what}: not translated ({type(ex).__name__})")
    text = ("/- GENERATED by harness/tr/tableassign.py from /repo's working tree — do not edit.\n"
            "   Table.__setitem__ (snapshot / try / restore loop / re-raise) and Table._assign_cells (key normalisation, column\n"
            "   resolution, cases A–D, column loops) translated statement by statement; theorems in Serif/Tie/TableAssign.lean. -/\n"
            "import Serif.Model.Assign\n\nset_option linter.unusedVariables false\n\nnamespace Serif.Gen.TA\nopen Serif Serif.Assign\n\n"
            + "\n\n".join(parts) + "\n\nend Serif.Gen.TA\n")
    return text, errors


if __name__ == "__main__":
    import sys
    t, e = generate(sys.argv[1] if len(sys.argv) > 1 else "/repo/src/serif")
    print(t)
    print(e, file=sys.stderr)
