"""Translator plug-in: attribute access on tables (C17) -> lean/Serif/Gen/TranslatedTableAttr.lean

Reads src/serif/table.py with `ast` and translates, statement by statement,

    _parse_indexed_attr, Table._fresh_column_map, Table._swap_columns, Table.__getattr__, Table.__setattr__, Table.__dir__,
    Table.column_names, Row.__getattr__, and the `type(key) is str` branch of Row.__getitem__

over the data types of Serif/Model/Names.lean: strings are `Str = List Char`, the table is the naming state `TState` (`cols`: the
stored names, `wild`: the `_wild` flag of every column, `cache`: `self._column_map`), `s.lowers` are the stored names as
`_sanitize_user_name` sees them (after `.lower()`).  lean/Serif/Tie/TableAttr.lean proves the generated definitions equal to the
model's `parseIndexedAttr`, `fresh`, `resolveAttr` / `step · (.getattr ·)`, `resolveSetAttr` / `step · (.replace ·)`, `step · .dir`,
`resolveRow`, `resolveSetItem` for all inputs.

A small typed statement walker (class `_W`).  Every Python statement becomes one `let` / `if` / `match` step of the generated
definition, in the order of the source.  What it understands, and nothing else:

  statements   `N = E`; `A, B, C = X.rpartition('__')`; `A, B = _parse_indexed_attr(X)`; `self._column_map = self._build_column_map()`;
               `self._fresh_column_map()`; `if C: … [elif …] [else: …]` (a branch that does not end in return/raise continues with
               the statements after the `if`); `if N is [not] None:` on an `int | None` local (a `match`); `raise X(…)`;
               `return <column>` / `return (E1, E2)` / `return`; `try: return super().__getattribute__(attr) except AttributeError:
               raise AttributeError(…)`; the column replacement block of `__setattr__` (snapshot, length guard, `cols = list(…)`,
               `value._name = …`, `cols[i] = value`, `self._swap_columns(tuple(cols))`); imports and docstrings are dropped.
  expressions  locals, None, str and int literals, `X.lower()`, `X.isdigit()`, `X.startswith('…')`, `X.endswith('c')`, `X[a:-b]`,
               `int(X)`, `len(self._underlying)`, `self._column_map.get(E)`, `E1 or E2` on `int | None`, `_sanitize_user_name(E)`,
               `C._name`, `self._underlying[E]._name`, comparisons (also chained) of ints, `!=` of `str | None`, `and` / `or` / `not`,
               truthiness of a str (`sep`, `not base`) and of the column tuple (`self._underlying`).

What the functions ask of objects they do not own is a field of the generated `Ops` structure (parameters, not re-implementations):
`str.rpartition('__')`, `str.isdigit`, `int(str)`, `str.lower`, `_sanitize_user_name` (own tie: Serif/Tie/Sanitize.lean),
`Table._build_column_map` (own tie: Serif/Tie/ColumnMap.lean; here: the map it returns and the table after `col._mark_tame()`),
and for `__setattr__` the snapshot constructors `Vector(value)` / `value.copy()`.  Recognised by shape and skipped (aliasing and
fingerprints: C01/C15, C09): the `_ALIAS_TRACKER` calls and `self._invalidate_fp()` of `_swap_columns`.

Comments, docstrings, blank lines and the wording of error messages play no role (only the exception class is read).  Anything
else that is not understood raises TranslateError: the definition is then missing from the generated file and Serif.Tie.TableAttr
stops building.
"""
import ast, os

from py2lean import TranslateError, find_func, _ln

GEN_FILE = "TranslatedTableAttr.lean"
TIE = {"Serif.Tie.TableAttr": ["C17"]}

ERR = {"AttributeError": "Err.attr", "ValueError": "Err.value", "SerifValueError": "Err.value", "SerifKeyError": "Err.key",
       "KeyError": "Err.key", "IndexError": "Err.index", "SerifIndexError": "Err.index", "TypeError": "Err.type",
       "SerifTypeError": "Err.type"}
# functions of table.py that build an exception object: name -> class of the exception
ERR_HELPERS = {"_missing_col_error": "SerifKeyError"}

SUPPORT = '''/-- Python's truth value of an `int | None` (what `dict.get` returns): `None` and `0` are false -/
def truthy : Option Nat → Bool
  | none => false
  | some 0 => false
  | some _ => true

/-- `s[a:-b]` for literals `a ≥ 0`, `b ≥ 1` -/
def pySlice (s : Str) (a b : Nat) : Str := (s.take (s.length - b)).drop a

/-- what the translated functions ask of objects they do not own -/
structure Ops where
  /-- `s.rpartition('__')`: `(head, sep, tail)`; `('', '', s)` when `'__'` does not occur -/
  rpartition : Str → Str × Str × Str
  /-- `s.isdigit()` -/
  isdigit : Str → Bool
  /-- `int(s)` for a digit string -/
  int_of : Str → Nat
  /-- `s.lower()` -/
  lower : Str → Str
  /-- `_sanitize_user_name(x)` for `x` a str or None (`none` = returns None) -/
  sanitize : Option Str → Option Str
  /-- `self._build_column_map()`: the returned map, and the table after its `col._mark_tame()` calls -/
  build_column_map : TState → Dict Str Nat × TState

/-- what a lookup returns: the column object `self._underlying[i]` (for a `Row`: its cell `self._raw_cols[i][self._index]`), or
    whatever the ordinary attribute lookup of the parent class gives (`super().__getattribute__(attr)` / `super().__getattr__(attr)`) -/
inductive Got where
  | col (i : Nat)
  | super
  deriving DecidableEq, Repr

/-- what `Table.__setattr__` did: `object.__setattr__(self, attr, value)`, or the replacement of column `i` -/
inductive SetOut where
  | instance_attr
  | replaced (i : Nat)
  deriving DecidableEq, Repr

/-- a column object as the naming state sees it: `_name`, `_wild`, `len(·)` -/
structure Col where
  name : Option Name
  wild : Bool
  len : Nat
  deriving Repr'''


def _u(n):
    return ast.unparse(n)


def _strip(stmts):
    """drop docstrings / bare string expressions, imports and `pass`"""
    return [s for s in stmts if not (isinstance(s, ast.Expr) and isinstance(s.value, ast.Constant))
            and not isinstance(s, (ast.Import, ast.ImportFrom, ast.Pass))]


class _Msg(ast.NodeTransformer):
    """error messages do not matter: `raise X('…')` -> `raise X(…)`"""
    def visit_Raise(self, node):
        if isinstance(node.exc, ast.Call):
            node.exc.args, node.exc.keywords = [ast.Constant(value=...)], []
        return node


def _doc(title, stmts, limit=60):
    """docstring quoting the Python text (comments are not in the AST; docstrings and messages are cut out)"""
    lines = []
    for s in _strip(stmts):
        lines += _u(_Msg().visit(ast.parse(_u(s)))).split("\n")
    lines = [ln for ln in lines if not ln.strip().startswith(('"""', "'''"))]
    if len(lines) > limit:
        lines = lines[:limit] + ["…"]
    body = "\n".join("      " + ln for ln in lines).replace("-/", "- /").replace("/-", "/ -")
    return "/-- " + title + "\n" + body + " -/\n"


def _err(raise_stmt):
    exc = raise_stmt.exc
    if exc is None:
        raise TranslateError("bare raise")
    name = exc.func.id if isinstance(exc, ast.Call) and isinstance(exc.func, ast.Name) else exc.id if isinstance(exc, ast.Name) else None
    name = ERR_HELPERS.get(name, name)
    if name not in ERR:
        raise TranslateError("raises " + _u(exc)[:40])
    return ".error " + ERR[name]


def _always_returns(stmts):
    for s in stmts:
        if isinstance(s, (ast.Return, ast.Raise)):
            return True
        if isinstance(s, ast.If) and s.orelse and _always_returns(s.body) and _always_returns(s.orelse):
            return True
        if isinstance(s, ast.Try) and _always_returns(s.body) and all(_always_returns(h.body) for h in s.handlers):
            return True
    return False


def _lit(s):
    if not all(32 <= ord(c) < 127 and c not in '"\\' for c in s):
        raise TranslateError("string literal " + repr(s))
    return f'"{s}".toList'


class _W:
    """typed walker.  env: python local -> (lean term, type); types: str, optstr, nat, optnat, col (a column object: lean term is
    its index, env[name + '._name'] its stored name), snap (the snapshot column of `__setattr__`), cols (the column list)"""

    def __init__(self, where, self_name, stateful, cmap="s.cache", available=()):
        self.where, self.S, self.stateful, self.cmap = where, self_name, stateful, cmap
        self.available = set(available)
        self.replaced = None          # lean index of `cols[i] = value`
        self.done = None              # what a bare `return` reports
        self.instance_attrs = None    # the tuple of `if attr in (…)`
        self.depth = 0

    def fail(self, node, why=""):
        raise TranslateError(f"{self.where}: {why + ': ' if why else ''}{_u(node)[:70]}")

    def need(self, helper, node):
        if helper not in self.available:
            self.fail(node, f"uses {helper}, which was not translated")

    def leaf(self, x):
        return f"(s, {x})" if self.stateful else x

    # ---- expressions --------------------------------------------------------------------------------------------------
    def expr(self, n, env):
        S = self.S
        if isinstance(n, ast.Name):
            if n.id in env:
                return env[n.id]
            self.fail(n, "unknown name")
        if isinstance(n, ast.Constant):
            if n.value is None:
                return "none", "none"
            if type(n.value) is str:
                return _lit(n.value), "str"
            if type(n.value) is int and n.value >= 0:
                return str(n.value), "nat"
            self.fail(n, "literal")
        if _u(n) == f"{S}._length" and self.where == "Table.__setattr__":
            return "length", "nat"
        if isinstance(n, ast.Attribute) and n.attr == "_name" and isinstance(n.value, ast.Name) and env.get(n.value.id, (0, 0))[1] == "col":
            return env[n.value.id + "._name"]
        if isinstance(n, ast.Call) and not n.keywords:
            f = _u(n.func)
            if isinstance(n.func, ast.Attribute) and len(n.args) == 0 and n.func.attr in ("lower", "isdigit"):
                e, t = self.expr(n.func.value, env)
                if t != "str":
                    self.fail(n, f"method of a {t}")
                return (f"(P.lower {e})", "str") if n.func.attr == "lower" else (f"P.isdigit {e}", "bool")
            if isinstance(n.func, ast.Attribute) and len(n.args) == 1 and n.func.attr in ("startswith", "endswith") \
                    and isinstance(n.args[0], ast.Constant) and type(n.args[0].value) is str and n.args[0].value:
                e, t = self.expr(n.func.value, env)
                if t != "str":
                    self.fail(n, f"method of a {t}")
                lit = n.args[0].value
                if n.func.attr == "startswith":
                    return f"({_lit(lit)}).isPrefixOf {e}", "bool"
                if len(lit) != 1 or lit in "'\\" or not (32 <= ord(lit) < 127):
                    self.fail(n, "endswith with a literal of more than one character")
                return f"({e}.getLast? == some '{lit}')", "bool"
            if f == "int" and len(n.args) == 1:
                e, t = self.expr(n.args[0], env)
                if t != "str":
                    self.fail(n, "int() of a " + t)
                return f"(P.int_of {e})", "nat"
            if f == "len" and len(n.args) == 1 and _u(n.args[0]) == f"{S}._underlying" and self.stateful:
                return "s.cols.length", "nat"
            if f == "len" and len(n.args) == 1 and isinstance(n.args[0], ast.Name) and env.get(n.args[0].id, (0, 0))[1] == "snap":
                return f"{env[n.args[0].id][0]}.len", "nat"
            if f == f"{S}._column_map.get" and len(n.args) == 1:
                e, t = self.expr(n.args[0], env)
                if t != "str":
                    self.fail(n, "key of type " + t)
                return f"(Dict.get? {self.cmap} {e})", "optnat"
            if f == "_sanitize_user_name" and len(n.args) == 1:
                a = n.args[0]
                if isinstance(a, ast.Attribute) and a.attr == "_name":
                    e, t = self.expr(a, env)
                else:
                    e, t = self.expr(a, env)
                if t == "str":
                    return f"(P.sanitize (some {e}))", "optstr"
                if t == "optstr":
                    return f"(P.sanitize {e})", "optstr"
                self.fail(n, "argument of type " + t)
        if isinstance(n, ast.Subscript) and isinstance(n.slice, ast.Slice) and n.slice.step is None \
                and isinstance(n.slice.lower, ast.Constant) and type(n.slice.lower.value) is int and n.slice.lower.value >= 0 \
                and isinstance(n.slice.upper, ast.UnaryOp) and isinstance(n.slice.upper.op, ast.USub) \
                and isinstance(n.slice.upper.operand, ast.Constant) and type(n.slice.upper.operand.value) is int \
                and n.slice.upper.operand.value >= 1:
            e, t = self.expr(n.value, env)
            if t != "str":
                self.fail(n, "slice of a " + t)
            return f"(pySlice {e} {n.slice.lower.value} {n.slice.upper.operand.value})", "str"
        if isinstance(n, ast.BoolOp) and isinstance(n.op, ast.Or):
            ops = [self.expr(v, env) for v in n.values]
            if all(t == "optnat" for _, t in ops):
                e = ops[-1][0]
                for x, _ in reversed(ops[:-1]):            # Python `x or y`: x if x is truthy, else y
                    e = f"(let a := {x}; if truthy a then a else {e})"
                return e, "optnat"
        if isinstance(n, (ast.BoolOp, ast.Compare, ast.UnaryOp)):
            return self.cond(n, env), "bool"
        self.fail(n, "expression")

    def cond(self, n, env):
        S = self.S
        t = _u(n)
        if self.stateful:
            fixed = {f"'_underlying' not in {S}.__dict__": "!has_underlying",
                     f"{S}._column_map is not None": "column_map_set",
                     f"{S}._underlying": "!s.cols.isEmpty"}
            if t in fixed:
                return fixed[t]
            # any(col._wild for col in self._underlying or [])
            if isinstance(n, ast.Call) and _u(n.func) == "any" and len(n.args) == 1 and isinstance(n.args[0], ast.GeneratorExp):
                g = n.args[0]
                if len(g.generators) == 1 and not g.generators[0].ifs and isinstance(g.generators[0].target, ast.Name) \
                        and _u(g.elt) == g.generators[0].target.id + "._wild":
                    it = _u(g.generators[0].iter)
                    if it == f"{S}._underlying or []":
                        return "(if s.wild.isEmpty then [] else s.wild).any (fun col_wild => col_wild)"
                    if it == f"{S}._underlying":
                        return "s.wild.any (fun col_wild => col_wild)"
                self.fail(n, "any(…)")
            if isinstance(n, ast.Compare) and len(n.ops) == 1 and isinstance(n.ops[0], ast.In) and isinstance(n.left, ast.Name) \
                    and env.get(n.left.id, (0, 0))[1] == "str" and isinstance(n.comparators[0], (ast.Tuple, ast.List, ast.Set)) \
                    and all(isinstance(x, ast.Constant) and type(x.value) is str for x in n.comparators[0].elts):
                if self.instance_attrs is not None:
                    self.fail(n, "second membership test")
                self.instance_attrs = [x.value for x in n.comparators[0].elts]
                return f"instanceAttrsT.contains {env[n.left.id][0]}"
            if isinstance(n, ast.UnaryOp) and isinstance(n.op, ast.Not) and isinstance(n.operand, ast.Call) \
                    and _u(n.operand.func) == "isinstance" and len(n.operand.args) == 2 and _u(n.operand.args[1]) == "Vector" \
                    and isinstance(n.operand.args[0], ast.Name) and env.get(n.operand.args[0].id, (0, 0))[1] == "value":
                return f"!(is_vector {env[n.operand.args[0].id][0]})"
        if isinstance(n, ast.Name):
            e, ty = self.expr(n, env)
            if ty == "str":
                return f"!{e}.isEmpty"
            if ty == "bool":
                return e
            self.fail(n, "truth value of a " + ty)
        if isinstance(n, ast.UnaryOp) and isinstance(n.op, ast.Not):
            return f"!({self.cond(n.operand, env)})"
        if isinstance(n, ast.BoolOp):
            return "(" + (" && " if isinstance(n.op, ast.And) else " || ").join(self.cond(v, env) for v in n.values) + ")"
        if isinstance(n, ast.Compare):
            items = [n.left] + list(n.comparators)
            vals = [self.expr(x, env) for x in items]
            parts = []
            for k, op in enumerate(n.ops):
                (a, ta), (b, tb) = vals[k], vals[k + 1]
                if ta == "nat" and tb == "nat":
                    sym = {ast.Lt: "<", ast.LtE: "≤", ast.Gt: ">", ast.GtE: "≥", ast.Eq: "=", ast.NotEq: "≠"}.get(type(op))
                    if sym is None:
                        self.fail(n, "comparison")
                    parts.append(f"decide ({a} {sym} {b})")
                elif {ta, tb} <= {"optstr", "str"} and isinstance(op, (ast.NotEq, ast.Eq)):
                    a = f"some {a}" if ta == "str" else a
                    b = f"some {b}" if tb == "str" else b
                    parts.append(f"({a} {'!=' if isinstance(op, ast.NotEq) else '=='} {b})")
                else:
                    self.fail(n, f"comparison of {ta} and {tb}")
            return parts[0] if len(parts) == 1 else "(" + " && ".join(parts) + ")"
        if isinstance(n, ast.Call):
            e, ty = self.expr(n, env)
            if ty == "bool":
                return e
        self.fail(n, "condition")

    # ---- statements ---------------------------------------------------------------------------------------------------
    def block(self, stmts, env, ind, pre=()):
        """a nested block, parenthesised (a nested `match` must not swallow the arms that follow)"""
        pad = " " * ind
        return pad + "(\n" + "".join(pad + "  " + ln + "\n" for ln in pre) + self.stmts(stmts, env, ind + 2) + "\n" + pad + ")"

    def none_lower(self, n, env):
        """a `.lower()` call on a `str | None` local inside `n` -> the local's name (None.lower() raises AttributeError)"""
        for x in ast.walk(n):
            if isinstance(x, ast.Call) and isinstance(x.func, ast.Attribute) and x.func.attr == "lower" and isinstance(x.func.value, ast.Name) \
                    and env.get(x.func.value.id, (0, 0))[1] == "optstr":
                return x.func.value.id
        return None

    def stmts(self, stmts, env, ind):
        pad = " " * ind
        S = self.S
        stmts = _strip(stmts)
        if not stmts:
            self.fail(ast.Pass(), "control falls off the end of the function")
        s, rest = stmts[0], stmts[1:]
        txt = _u(s)
        # ---- raise / return
        if isinstance(s, ast.Raise):
            return pad + self.leaf(_err(s))
        if isinstance(s, ast.Return):
            v = s.value
            if v is None:
                if self.done is None:
                    self.fail(s, "bare return with nothing done")
                d, self.done = self.done, None
                return pad + self.leaf(f".ok ({d})")
            if isinstance(v, ast.Name) and env.get(v.id, (0, 0))[1] == "col":
                return pad + self.leaf(f".ok (Got.col {env[v.id][0]})")
            if isinstance(v, ast.Subscript) and _u(v.value) == f"{S}._underlying" and self.stateful:
                e, t = self.expr(v.slice, env)
                if t != "nat":
                    self.fail(s, "column index of type " + t)
                return pad + self.leaf(f".ok (Got.col {e})")
            if isinstance(v, ast.Subscript) and isinstance(v.value, ast.Subscript) and _u(v.value.value) == f"{S}._raw_cols" \
                    and _u(v.slice) == f"{S}._index":
                e, t = self.expr(v.value.slice, env)
                if t != "nat":
                    self.fail(s, "column index of type " + t)
                return pad + self.leaf(f".ok (Got.col {e})")
            if txt in ("return super().__getattr__(attr)", "return super().__getattribute__(attr)") and "attr" in env:
                return pad + self.leaf(".ok Got.super")
            if isinstance(v, ast.Tuple) and len(v.elts) == 2 and not self.stateful:
                (a, ta), (b, tb) = self.expr(v.elts[0], env), self.expr(v.elts[1], env)
                a = f"some {a}" if ta == "str" else a if ta == "optstr" else self.fail(s, "first component")
                b = f"some {b}" if tb == "nat" else b if tb in ("none", "optnat") else self.fail(s, "second component")
                return pad + f".ok ({a}, {b})"
            if self.where == "Table.column_names" and isinstance(v, ast.ListComp) and len(v.generators) == 1 and not v.generators[0].ifs \
                    and isinstance(v.generators[0].target, ast.Name) and _u(v.generators[0].iter) == f"{S}._underlying" \
                    and _u(v.elt) == v.generators[0].target.id + "._name":
                return pad + f"s.cols.map (fun {_ln(v.generators[0].target.id)}_name => {_ln(v.generators[0].target.id)}_name)"
            if self.where == "Table._fresh_column_map" and txt == f"return {S}._column_map":
                return pad + "(s.cache, s)"
            if self.where == "Table.__dir__" and isinstance(v, ast.Call) and _u(v.func) == "set" and len(v.args) == 1 \
                    and isinstance(v.args[0], ast.BinOp) and isinstance(v.args[0].op, ast.Add):
                l, r = v.args[0].left, v.args[0].right
                if _u(l) == f"list({S}._column_map.keys())" and isinstance(r, ast.Name) and env.get(r.id, (0, 0))[1] == "strs":
                    return pad + f"(s, Dict.keys s.cache ++ {env[r.id][0]})"
            self.fail(s, "return")
        # ---- try: return super().__getattribute__(attr) except AttributeError: raise AttributeError(…)
        if isinstance(s, ast.Try):
            if len(s.body) == 1 and _u(s.body[0]) == "return super().__getattribute__(attr)" and "attr" in env and not s.orelse \
                    and not s.finalbody and len(s.handlers) == 1 and _u(s.handlers[0].type) == "AttributeError" \
                    and len(_strip(s.handlers[0].body)) == 1 and isinstance(_strip(s.handlers[0].body)[0], ast.Raise) \
                    and _err(_strip(s.handlers[0].body)[0]) == ".error Err.attr":
                return pad + self.leaf(".ok Got.super")
            self.fail(s, "try")
        # ---- effects on the table
        if txt == f"{S}._column_map = {S}._build_column_map()" and self.stateful:
            return (pad + "let r := P.build_column_map s\n" + pad + "let s := { r.2 with cache := r.1 }\n" + self.stmts(rest, env, ind))
        if txt == f"{S}._fresh_column_map()" and self.stateful:
            self.need("freshColumnMapT", s)
            return pad + "let s := (freshColumnMapT P s).2\n" + self.stmts(rest, env, ind)
        if txt == f"object.__setattr__({S}, attr, value)" and env.get("attr", (0, 0))[1] == "str" and "value" in env:
            self.done = "SetOut.instance_attr"
            return self.stmts(rest, env, ind)
        if self.where == "Table.__dir__" and isinstance(s, ast.Assign) and _u(s.value) == f"object.__dir__({S})" \
                and isinstance(s.targets[0], ast.Name):
            return self.stmts(rest, dict(env, **{s.targets[0].id: ("base_attrs", "strs")}), ind)
        # ---- the replacement block of __setattr__
        if isinstance(s, ast.If) and s.orelse and "value" in env and env["value"][1] == "value" \
                and _u(s.test) == "not isinstance(value, Vector)" and len(s.body) == 1 and len(s.orelse) == 1 \
                and _u(s.body[0]) == "value = Vector(value)" and _u(s.orelse[0]) == "value = value.copy()":
            c = self.cond(s.test, env)
            return (pad + f"let value : Col := if {c} then vector_of value else copy value\n"
                    + self.stmts(rest, dict(env, value=("value", "snap")), ind))
        if isinstance(s, ast.Assign) and len(s.targets) == 1 and isinstance(s.targets[0], ast.Name) and _u(s.value) == f"list({S}._underlying)" \
                and self.stateful:
            n = s.targets[0].id
            return pad + f"let {_ln(n)} := (s.cols, s.wild)\n" + self.stmts(rest, dict(env, **{n: (_ln(n), "cols")}), ind)
        if isinstance(s, ast.Assign) and len(s.targets) == 1 and _u(s.targets[0]) == "value._name" and env.get("value", (0, 0))[1] == "snap":
            v = s.value
            if isinstance(v, ast.Attribute) and v.attr == "_name" and isinstance(v.value, ast.Subscript) and _u(v.value.value) == f"{S}._underlying":
                e, t = self.expr(v.value.slice, env)
                if t != "nat":
                    self.fail(s, "column index of type " + t)
                return pad + f"let value := {{ value with name := s.cols.getD {e} none }}\n" + self.stmts(rest, env, ind)
            self.fail(s, "name given to the new column")
        if isinstance(s, ast.Assign) and len(s.targets) == 1 and isinstance(s.targets[0], ast.Subscript) \
                and isinstance(s.targets[0].value, ast.Name) and env.get(s.targets[0].value.id, (0, 0))[1] == "cols" \
                and isinstance(s.value, ast.Name) and env.get(s.value.id, (0, 0))[1] == "snap":
            e, t = self.expr(s.targets[0].slice, env)
            if t != "nat":
                self.fail(s, "column index of type " + t)
            c = env[s.targets[0].value.id][0]
            self.replaced = e
            return pad + f"let {c} := ({c}.1.set {e} value.name, {c}.2.set {e} value.wild)\n" + self.stmts(rest, env, ind)
        if isinstance(s, ast.Expr) and isinstance(s.value, ast.Call) and _u(s.value.func) == f"{S}._swap_columns" and len(s.value.args) == 1 \
                and isinstance(s.value.args[0], ast.Call) and _u(s.value.args[0].func) == "tuple" and len(s.value.args[0].args) == 1 \
                and isinstance(s.value.args[0].args[0], ast.Name) and env.get(s.value.args[0].args[0].id, (0, 0))[1] == "cols":
            self.need("swapColumnsT", s)
            if self.replaced is None:
                self.fail(s, "no column was replaced")
            self.done, self.replaced = f"SetOut.replaced {self.replaced}", None
            return pad + f"let s := swapColumnsT P s {env[s.value.args[0].args[0].id][0]}\n" + self.stmts(rest, env, ind)
        # ---- assignments
        if isinstance(s, ast.Assign) and len(s.targets) == 1 and isinstance(s.targets[0], ast.Tuple) \
                and all(isinstance(x, ast.Name) for x in s.targets[0].elts):
            names = [x.id for x in s.targets[0].elts]
            v = s.value
            if len(set(names)) != len(names):
                self.fail(s, "targets")
            if len(names) == 3 and isinstance(v, ast.Call) and isinstance(v.func, ast.Attribute) and v.func.attr == "rpartition" \
                    and len(v.args) == 1 and isinstance(v.args[0], ast.Constant) and v.args[0].value == "__" and not v.keywords:
                e, t = self.expr(v.func.value, env)
                if t != "str":
                    self.fail(s, "rpartition of a " + t)
                a, b, c = map(_ln, names)
                return (pad + f"let r := P.rpartition {e}\n" + pad + f"let {a} := r.1\n" + pad + f"let {b} := r.2.1\n" + pad + f"let {c} := r.2.2\n"
                        + self.stmts(rest, dict(env, **{names[0]: (a, "str"), names[1]: (b, "str"), names[2]: (c, "str")}), ind))
            if len(names) == 2 and isinstance(v, ast.Call) and _u(v.func) == "_parse_indexed_attr" and len(v.args) == 1 and not v.keywords:
                self.need("parseIndexedAttrT", s)
                e, t = self.expr(v.args[0], env)
                if t != "str":
                    self.fail(s, "argument of type " + t)
                a, b = map(_ln, names)
                return (pad + f"match parseIndexedAttrT P {e} with\n" + pad + "| .error e => " + self.leaf(".error e") + "\n"
                        + pad + f"| .ok ({a}, {b}) =>\n"
                        + self.block(rest, dict(env, **{names[0]: (a, "optstr"), names[1]: (b, "optnat")}), ind + 2))
            self.fail(s, "tuple assignment")
        if isinstance(s, ast.Assign) and len(s.targets) == 1 and isinstance(s.targets[0], ast.Name):
            n = s.targets[0].id
            v = s.value
            # col = self._underlying[i]
            if isinstance(v, ast.Subscript) and _u(v.value) == f"{S}._underlying" and self.stateful:
                e, t = self.expr(v.slice, env)
                if t != "nat":
                    self.fail(s, "column index of type " + t)
                nm = _ln(n) + "_name"
                return (pad + f"match s.lowers[{e}]? with\n" + pad + "| none => " + self.leaf(".error Err.index") + "\n"
                        + pad + f"| some {nm} =>\n" + self.block(rest, dict(env, **{n: (e, "col"), n + "._name": (nm, "optstr")}), ind + 2))
            # x = _sanitize_user_name(self._underlying[i]._name)
            if isinstance(v, ast.Call) and _u(v.func) == "_sanitize_user_name" and len(v.args) == 1 and isinstance(v.args[0], ast.Attribute) \
                    and v.args[0].attr == "_name" and isinstance(v.args[0].value, ast.Subscript) \
                    and _u(v.args[0].value.value) == f"{S}._underlying" and self.stateful:
                e, t = self.expr(v.args[0].value.slice, env)
                if t != "nat":
                    self.fail(s, "column index of type " + t)
                return (pad + f"match s.lowers[{e}]? with\n" + pad + "| none => " + self.leaf(".error Err.index") + "\n"
                        + pad + f"| some col_name =>\n"
                        + self.block(rest, dict(env, **{n: (_ln(n), "optstr")}), ind + 2, pre=[f"let {_ln(n)} := (P.sanitize col_name)"]))
            e, t = self.expr(v, env)
            if t not in ("str", "optstr", "nat", "optnat", "bool"):
                self.fail(s, "assignment of a " + t)
            return pad + f"let {_ln(n)} := {e}\n" + self.stmts(rest, dict(env, **{n: (_ln(n), t)}), ind)
        # ---- if
        if isinstance(s, ast.If):
            then = s.body if _always_returns(s.body) else s.body + rest
            els = rest if not s.orelse else s.orelse if _always_returns(s.orelse) else s.orelse + rest
            t = s.test
            # `if C: self._column_map = self._build_column_map()`: only the table changes
            if not s.orelse and self.stateful and [_u(x) for x in _strip(s.body)] == [f"{S}._column_map = {S}._build_column_map()"]:
                c = self.cond(t, env)
                return (pad + f"let s := if {c} then\n" + pad + "    (\n" + pad + "      let r := P.build_column_map s\n"
                        + pad + "      let s := { r.2 with cache := r.1 }\n" + pad + "      s\n" + pad + "    )\n" + pad + "  else s\n"
                        + self.stmts(rest, env, ind))
            # `N is None` / `N is not None` on an int | None local
            if isinstance(t, ast.Compare) and len(t.ops) == 1 and isinstance(t.ops[0], (ast.Is, ast.IsNot)) and isinstance(t.left, ast.Name) \
                    and _u(t.comparators[0]) == "None" and env.get(t.left.id, (0, 0))[1] in ("nat", "none"):
                # the local is already known (not) to be None on this path: the test is decided
                is_none = env[t.left.id][1] == "none"
                return self.stmts(then if is_none == isinstance(t.ops[0], ast.Is) else els, env, ind)
            if isinstance(t, ast.Compare) and len(t.ops) == 1 and isinstance(t.ops[0], (ast.Is, ast.IsNot)) and isinstance(t.left, ast.Name) \
                    and _u(t.comparators[0]) == "None" and env.get(t.left.id, (0, 0))[1] == "optnat":
                n = t.left.id
                some_b, none_b = (then, els) if isinstance(t.ops[0], ast.IsNot) else (els, then)
                return (pad + f"match {env[n][0]} with\n" + pad + f"| some {_ln(n)} =>\n"
                        + self.block(some_b, dict(env, **{n: (_ln(n), "nat")}), ind + 2) + "\n"
                        + pad + "| none =>\n" + self.block(none_b, dict(env, **{n: ("none", "none")}), ind + 2))
            # a test that calls `.lower()` on a str | None local: None.lower() raises AttributeError
            nl = self.none_lower(t, env)
            if nl is not None:
                env2 = dict(env, **{nl: (_ln(nl), "str")})
                c = self.cond(t, env2)
                return (pad + f"match {env[nl][0]} with\n" + pad + "| none => " + self.leaf(".error Err.attr") + "\n"
                        + pad + f"| some {_ln(nl)} =>\n" + pad + f"  if {c} then\n" + self.block(then, env2, ind + 4) + "\n"
                        + pad + "  else\n" + self.block(els, env2, ind + 2))
            c = self.cond(t, env)
            return pad + f"if {c} then\n" + self.block(then, env, ind + 2) + "\n" + pad + "else\n" + self.stmts(els, env, ind)
        self.fail(s, "statement")


# ---------------------------------------------------------------------------------------------
# the functions
# ---------------------------------------------------------------------------------------------
def _args(f, n):
    a = [x.arg for x in f.args.args]
    if len(a) != n or f.args.vararg or f.args.kwarg or f.args.kwonlyargs or f.args.defaults:
        raise TranslateError(f"{f.name}: arguments")
    return a


def tr_parse(tree, av):
    f = find_func(tree, "_parse_indexed_attr")
    (attr,) = _args(f, 1)
    w = _W("_parse_indexed_attr", "self", False)
    body = w.stmts(f.body, {attr: (_ln(attr), "str")}, 2)
    av.add("parseIndexedAttrT")
    return [_doc("translated from `_parse_indexed_attr` (`.error`: the AttributeError; first component `none`: `_sanitize_user_name`\n"
                 "    returned None):", f.body)
            + f"def parseIndexedAttrT (P : Ops) ({_ln(attr)} : Str) : Except Err (Option Str × Option Nat) :=\n" + body]


def tr_fresh(tree, av):
    f = find_func(tree, "_fresh_column_map", "Table")
    (S,) = _args(f, 1)
    w = _W("Table._fresh_column_map", S, True)
    w.leaf = lambda x: x
    # `if <wild>: self._column_map = self._build_column_map()` then `return self._column_map`
    body = _strip(f.body)
    if not (len(body) == 2 and isinstance(body[0], ast.If) and not body[0].orelse and len(_strip(body[0].body)) == 1):
        raise TranslateError("Table._fresh_column_map: expected `if …: self._column_map = self._build_column_map()` and a return")
    text = w.stmts(body, {}, 2)
    av.add("freshColumnMapT")
    return [_doc("translated from `Table._fresh_column_map` (returns `self._column_map` and the table afterwards):", f.body)
            + "def freshColumnMapT (P : Ops) (s : TState) : Dict Str Nat × TState :=\n" + text]


def tr_swap(tree, av):
    """_swap_columns: the two object.__setattr__ calls, in order; tracker / fingerprint bookkeeping recognised and skipped"""
    f = find_func(tree, "_swap_columns", "Table")
    S, new = _args(f, 2)
    lines, seen = [], []
    for s in _strip(f.body):
        t = _u(s)
        if t in (f"_ALIAS_TRACKER.unregister({S}, id({S}._underlying))", f"_ALIAS_TRACKER.register({S}, id({new}))", f"{S}._invalidate_fp()"):
            continue                               # aliasing / fingerprint bookkeeping (C01/C15, C09): not translated
        if t == f"object.__setattr__({S}, '_underlying', {new})" and seen == []:
            lines.append(f"  let s := {{ s with cols := {_ln(new)}.1, wild := {_ln(new)}.2 }}")
            seen.append("u")
        elif t == f"object.__setattr__({S}, '_column_map', {S}._build_column_map())" and seen == ["u"]:
            lines += ["  let r := P.build_column_map s", "  let s := { r.2 with cache := r.1 }"]
            seen.append("m")
        else:
            raise TranslateError("Table._swap_columns: statement " + t[:60])
    if seen != ["u", "m"]:
        raise TranslateError("Table._swap_columns: expected the assignment of _underlying followed by that of _column_map")
    av.add("swapColumnsT")
    return [_doc("translated from `Table._swap_columns` (`new_cols`: the stored name and the `_wild` flag of every new column; the\n"
                 "    `_ALIAS_TRACKER` calls and `_invalidate_fp()` are not translated):", f.body)
            + f"def swapColumnsT (P : Ops) (s : TState) ({_ln(new)} : List (Option Name) × List Bool) : TState :=\n" + "\n".join(lines + ["  s"])]


def tr_getattr(tree, av):
    f = find_func(tree, "__getattr__", "Table")
    S, attr = _args(f, 2)
    if attr != "attr":
        raise TranslateError("Table.__getattr__: the attribute argument is not called attr")
    w = _W("Table.__getattr__", S, True, available=av)
    body = w.stmts(f.body, {attr: ("attr", "str")}, 2)
    av.add("tableGetattrT")
    return [_doc("translated from `Table.__getattr__` (`has_underlying`: `'_underlying' in self.__dict__`; `s.lowers[i]?` is\n"
                 "    `self._underlying[i]._name` as `_sanitize_user_name` sees it; the result is the table afterwards and what is\n"
                 "    returned or raised; `None.lower()` raises AttributeError):", f.body, 80)
            + "def tableGetattrT (P : Ops) (has_underlying : Bool) (s : TState) (attr : Str) : TState × Except Err Got :=\n" + body]


def tr_setattr(tree, av):
    f = find_func(tree, "__setattr__", "Table")
    S, attr, value = _args(f, 3)
    if attr != "attr" or value != "value":
        raise TranslateError("Table.__setattr__: the arguments are not called attr, value")
    w = _W("Table.__setattr__", S, True, available=av)
    body = w.stmts(f.body, {"attr": ("attr", "str"), "value": ("value", "value")}, 2)
    if w.instance_attrs is None:
        raise TranslateError("Table.__setattr__: no test for instance attributes")
    av.add("tableSetattrT")
    inst = ("/-- the names `Table.__setattr__` hands to `object.__setattr__` (the tuple of its first test) -/\n"
            "def instanceAttrsT : List Str := [" + ", ".join(_lit(x) for x in w.instance_attrs) + "]")
    return [inst,
            _doc("translated from `Table.__setattr__` (`column_map_set`: `self._column_map is not None`; `is_vector value`:\n"
                 "    `isinstance(value, Vector)`; `vector_of` / `copy`: the snapshots `Vector(value)` / `value.copy()`; `length`:\n"
                 "    `self._length`; `cols` is the pair (stored names, `_wild` flags) of `list(self._underlying)`):", f.body, 120)
            + "def tableSetattrT {V : Type} (P : Ops) (is_vector : V → Bool) (vector_of copy : V → Col) (column_map_set : Bool)\n"
              "    (length : Nat) (s : TState) (attr : Str) (value : V) : TState × Except Err SetOut :=\n" + body]


def tr_dir(tree, av):
    f = find_func(tree, "__dir__", "Table")
    (S,) = _args(f, 1)
    w = _W("Table.__dir__", S, True)
    body = w.stmts(f.body, {}, 2)
    av.add("tableDirT")
    return [_doc("translated from `Table.__dir__` (`base_attrs`: `object.__dir__(self)`; the elements of the returned set, the\n"
                 "    accessors first):", f.body)
            + "def tableDirT (P : Ops) (base_attrs : List Str) (s : TState) : TState × List Str :=\n" + body]


def tr_column_names(tree, av):
    f = find_func(tree, "column_names", "Table")
    (S,) = _args(f, 1)
    w = _W("Table.column_names", S, True)
    body = w.stmts(f.body, {}, 2)
    return [_doc("translated from `Table.column_names` (the stored names, untouched):", f.body)
            + "def columnNamesT (s : TState) : List (Option Name) :=\n" + body]


def tr_row_getattr(tree, av):
    f = find_func(tree, "__getattr__", "Row")
    S, attr = _args(f, 2)
    if attr != "attr":
        raise TranslateError("Row.__getattr__: the attribute argument is not called attr")
    w = _W("Row.__getattr__", S, False, cmap="column_map")
    body = w.stmts(f.body, {"attr": ("attr", "str")}, 2)
    return [_doc("translated from `Row.__getattr__` (`column_map`: the row's `_column_map`, the table's fresh map when the row was made):", f.body)
            + "def rowGetattrT (P : Ops) (column_map : Dict Str Nat) (attr : Str) : Except Err Got :=\n" + body]


def tr_row_getitem(tree, av):
    f = find_func(tree, "__getitem__", "Row")
    S, key = _args(f, 2)
    br = [s for s in _strip(f.body) if isinstance(s, ast.If) and _u(s.test) == f"type({key}) is str"]
    if len(br) != 1 or br[0].orelse:
        raise TranslateError("Row.__getitem__: no single `if type(key) is str:` branch")
    # nothing before it may act on a str key
    for s in _strip(f.body):
        if s is br[0]:
            break
        if not (isinstance(s, ast.If) and _u(s.test) == f"type({key}) is int" and not s.orelse):
            raise TranslateError("Row.__getitem__: statement before the str branch: " + _u(s)[:50])
    if not _always_returns(br[0].body):
        raise TranslateError("Row.__getitem__: the str branch falls through")
    w = _W("Row.__getitem__", S, False, cmap="column_map")
    body = w.stmts(br[0].body, {key: (_ln(key), "str")}, 2)
    return [_doc("translated from the `type(key) is str` branch of `Row.__getitem__`:", br[0].body)
            + f"def rowGetitemStrT (P : Ops) (column_map : Dict Str Nat) ({_ln(key)} : Str) : Except Err Got :=\n" + body]


ITEMS = (("_parse_indexed_attr", tr_parse), ("Table._fresh_column_map", tr_fresh), ("Table._swap_columns", tr_swap),
         ("Table.__getattr__", tr_getattr), ("Table.__setattr__", tr_setattr), ("Table.__dir__", tr_dir),
         ("Table.column_names", tr_column_names), ("Row.__getattr__", tr_row_getattr), ("Row.__getitem__", tr_row_getitem))


def generate(src_dir):
    parts, errors = [SUPPORT], []
    try:
        tree = ast.parse(open(os.path.join(src_dir, "table.py")).read())
    except Exception as ex:
        tree = None
        errors.append(("table.py", f"{type(ex).__name__}: {ex}"))
        parts.append(f"-- table.py: not parsed ({type(ex).__name__})")
    if tree is not None:
        av = set()
        for what, fn in ITEMS:
            try:
                parts += fn(tree, av)
            except Exception as ex:       # TranslateError or anything unexpected: the item is simply not available
                errors.append((what, f"{type(ex).__name__}: {ex}"))
                parts.append(f"-- {what}: not translated ({type(ex).__name__})")
    text = ("/- GENERATED by harness/tr/tableattr.py from /repo's working tree — do not edit.\n"
            "   Attribute access on tables: _parse_indexed_attr, Table._fresh_column_map / _swap_columns / __getattr__ / __setattr__ /\n"
            "   __dir__ / column_names, Row.__getattr__ / __getitem__ (str key), translated statement by statement;\n"
            "   theorems in Serif/Tie/TableAttr.lean. -/\n"
            "import Serif.Model.Names\n\nset_option linter.unusedVariables false\n\nnamespace Serif.Gen.TAt\nopen Serif Serif.Names\n\n"
            + "\n\n".join(parts) + "\n\nend Serif.Gen.TAt\n")
    return text, errors


if __name__ == "__main__":
    import sys
    t, e = generate(sys.argv[1] if len(sys.argv) > 1 else "/repo/src/serif")
    print(t)
    print(e, file=sys.stderr)
