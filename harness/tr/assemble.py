"""Translator plug-in: what happens AROUND the hash loops of the joins and of group-by (src/serif/table.py).

Joins (`inner_join`, `join`, `full_join`) — the existing tie (py2lean._JoinMethod / Serif/Tie/Join.lean) translates the decisions of
the build / probe / sweep loops and abstracts a group of cell appends as one output pair `(left row?, right row?)`.  Here the rest is
translated, statement by statement:
  * `left_keys = [lk for lk, _ in pairs]`, `right_keys = [rk for _, rk in pairs]`
  * `key = tuple(col[row] for col in <keys>)` of the build loop and of the probe loop
  * `result_data = [[] for _ in range(...)]`
  * every group of loops that appends one cell per column (`append_cols[c_idx](col[left_idx])`, `append_cols[base + offset](None)`, ...):
    one definition `emitRowT<Tag><k>` per group, each `for` one fold over `result_data`; the group is RECOGNISED with
    `_JoinMethod.cell_group` (the very function the existing tie uses), and `emitPairT<Tag>` dispatches an output pair to the group
    that `_JoinMethod` abstracts to that pair
  * everything after the last loop: the "empty result" test, `result_cols = []`, the two wrapping loops
    `result_cols.append(Vector(result_data[i], name=orig_col._name))`, `return Table(result_cols)`.
Parameters of the generated definitions (not re-implemented): `getitem` (`Vector.__getitem__` with an int), `nameOf` (`col._name`),
`Vector` (the constructor `Vector(data, name=...)`), `pyNone` (None as a cell), `left_nrows` / `right_nrows` (`len(self)`, `len(other)`).

Group-by (`window`, `aggregate`): `row_keys` (pre-allocated, filled by index), the key tuple of a row, `compute_group_values`,
`expand_to_rows`, the key columns of `window` (copied) and of `aggregate` (component `idx` of every group key), `aggregate_col`.
Parameters: `underlying` (`col._underlying`), `nameOf`, `listOf` (`list(col)`), `Vector`, `uniquify` (stateful: threaded through as
`used -> name -> (name', used')`), `make_agg_name` / `sanitize`, the reducer `fn` / `func`, `pyNone`.

Nothing is emitted for source that is not recognised (TranslateError -> a `-- <what>: not translated` comment, reported in `errors`).
"""
import ast, os
import py2lean
from py2lean import TranslateError, find_func, _JoinMethod, _u, _ln

GEN_FILE = "TranslatedAssemble.lean"
TIE = {"Serif.Tie.Assemble": ["C09", "C10", "C13"]}


def _strip(stmts):
    """drop docstrings / bare string expressions"""
    return [s for s in stmts if not (isinstance(s, ast.Expr) and isinstance(s.value, ast.Constant))]


def _name(node, what):
    if not isinstance(node, ast.Name):
        raise TranslateError(f"{what}: a plain name expected, got {_u(node)[:40]}")
    return node.id


def _assigned_names(f):
    """every local name assigned anywhere in `f` (Assign / AugAssign / AnnAssign / for targets / with / walrus) with its count"""
    count = {}

    def add(t):
        for n in ast.walk(t):
            if isinstance(n, ast.Name):
                count[n.id] = count.get(n.id, 0) + 1
    for s in ast.walk(f):
        if isinstance(s, ast.Assign):
            for t in s.targets:
                if isinstance(t, (ast.Name, ast.Tuple, ast.List)):
                    add(t)
        elif isinstance(s, (ast.AugAssign, ast.AnnAssign)):
            if isinstance(s.target, ast.Name):
                add(s.target)
        elif isinstance(s, (ast.For, ast.comprehension)):
            add(s.target)
        elif isinstance(s, ast.NamedExpr):
            add(s.target)
        elif isinstance(s, ast.FunctionDef) and s is not f:
            count[s.name] = count.get(s.name, 0) + 1
    return count


# =====================================================================================================================
# joins
# =====================================================================================================================
class _Asm(_JoinMethod):
    """the parts of one join method around its hash loops (see the module docstring)"""

    NAT_PRE = {"n_left_cols": "len(left_cols)", "n_right_cols": "len(right_cols)"}
    PRE = {"left_nrows": "len(self)", "right_nrows": "len(other)", "left_cols": "self._underlying", "right_cols": "other._underlying",
           "pairs": "self._validate_join_keys(other, left_on, right_on)"}

    def __init__(self, f, tag):
        super().__init__(f, tag)
        self.body = _strip(f.body)
        self.top = {}
        for s in self.body:
            if isinstance(s, ast.Assign) and len(s.targets) == 1 and isinstance(s.targets[0], ast.Name):
                self.top.setdefault(s.targets[0].id, []).append(s)
        counts = _assigned_names(f)
        for n, v in {**self.NAT_PRE, **self.PRE}.items():
            if counts.get(n, 0) != 1 or n not in self.top or _u(self.top[n][0].value) != v:
                raise TranslateError(f"{f.name}: `{n} = {v}` expected, assigned exactly once")
        for n in ("left_keys", "right_keys", "result_data", "result_cols", "total_cols"):
            if counts.get(n, 0) > 1:
                raise TranslateError(f"{f.name}: {n} is assigned more than once")
        self.nat_lets = ["let n_left_cols := left_cols.length", "let n_right_cols := right_cols.length"]
        self.nats = {"n_left_cols", "n_right_cols"}
        if "total_cols" in self.top:
            self.nat_lets.append(f"let total_cols := {self.nat(self.top['total_cols'][0].value, self.nats)}")
            self.nats = self.nats | {"total_cols"}
        # every `base = ...` of the method binds the number of left columns
        for s in ast.walk(f):
            if isinstance(s, ast.Assign) and any(isinstance(t, ast.Name) and t.id == "base" for t in s.targets) and _u(s) != "base = n_left_cols":
                raise TranslateError(f"{f.name}: {_u(s)}")
        self.cells = sorted(k for k, v in self.alias.items() if v == ("cells",))
        if len(self.cells) != 1 or counts.get(self.cells[0], 0) != 1:
            raise TranslateError(f"{f.name}: the list of bound `append`s of result_data")

    # ---- expressions ---------------------------------------------------------------------------------------------
    def nat(self, node, scope):
        """an index / count expression over the names in `scope`"""
        if isinstance(node, ast.Name) and node.id in scope:
            return _ln(node.id)
        if isinstance(node, ast.Constant) and type(node.value) is int and node.value >= 0:
            return str(node.value)
        if isinstance(node, ast.BinOp) and isinstance(node.op, ast.Add):
            return f"({self.nat(node.left, scope)} + {self.nat(node.right, scope)})"
        raise TranslateError(f"{self.f.name}: index expression {_u(node)[:40]}")

    # ---- key columns and key tuples --------------------------------------------------------------------------------
    def key_lists(self):
        out = []
        for var, pos, nm in (("left_keys", 0, "leftKeys"), ("right_keys", 1, "rightKeys")):
            ss = self.top.get(var, [])
            if len(ss) != 1:
                raise TranslateError(f"{self.f.name}: {var}")
            v = ss[0].value
            if not (isinstance(v, ast.ListComp) and len(v.generators) == 1 and not v.generators[0].ifs and not v.generators[0].is_async
                    and _u(v.generators[0].iter) == "pairs" and isinstance(v.generators[0].target, ast.Tuple)
                    and len(v.generators[0].target.elts) == 2 and all(isinstance(e, ast.Name) for e in v.generators[0].target.elts)
                    and isinstance(v.elt, ast.Name)):
                raise TranslateError(f"{self.f.name}: {_u(ss[0])[:60]}")
            a, b = (e.id for e in v.generators[0].target.elts)
            if a == b or v.elt.id != (a, b)[pos]:
                raise TranslateError(f"{self.f.name}: {_u(ss[0])[:60]} does not select component {pos} of each pair")
            out.append(f"/-- `{_u(ss[0])}` of `Table.{self.f.name}` (`pairs` = what `_validate_join_keys` returned) -/\n"
                       f"def {nm}T{self.tag} {{C : Type}} (pairs : List (C × C)) : List C :=\n"
                       f"  pairs.map (fun ({_ln(a)}, {_ln(b)}) => {_ln(v.elt.id)})")
        return out

    def key_tuple(self, loop, cols, nm, nrows):
        """`key = tuple(col[<loop var>] for col in <cols>)`, the first statement of the loop"""
        var = _name(loop.target, f"{self.f.name}: loop variable")
        body = _strip(loop.body)
        s = body[0] if body else None
        ok = (isinstance(s, ast.Assign) and _u(s.targets[0]) == "key" and isinstance(s.value, ast.Call) and _u(s.value.func) == "tuple"
              and len(s.value.args) == 1 and not s.value.keywords and isinstance(s.value.args[0], (ast.GeneratorExp, ast.ListComp)))
        if ok:
            g = s.value.args[0]
            ok = (len(g.generators) == 1 and not g.generators[0].ifs and isinstance(g.generators[0].target, ast.Name)
                  and _u(g.generators[0].iter) == cols and isinstance(g.elt, ast.Subscript) and isinstance(g.elt.value, ast.Name)
                  and g.elt.value.id == g.generators[0].target.id and isinstance(g.elt.slice, ast.Name) and g.elt.slice.id == var
                  and g.generators[0].target.id != var)
        if not ok:
            raise TranslateError(f"{self.f.name}: the key tuple of `for {var} in {_u(loop.iter)}`: {_u(s)[:70] if s is not None else 'empty loop'}")
        # `key` must not be rebound later in the loop
        for t in body[1:]:
            for n in ast.walk(t):
                if isinstance(n, (ast.Assign, ast.AugAssign, ast.For, ast.comprehension, ast.NamedExpr)):
                    tg = n.targets if isinstance(n, ast.Assign) else [n.target]
                    if any(isinstance(x, ast.Name) and x.id in ("key", var) and isinstance(x.ctx, ast.Store) for y in tg for x in ast.walk(y)):
                        raise TranslateError(f"{self.f.name}: `key` / `{var}` rebound inside the loop")
        c = g.generators[0].target.id
        return [f"/-- `{_u(s)}` in `for {var} in {_u(loop.iter)}` of `Table.{self.f.name}` -/\n"
                f"def {nm}KeyT{self.tag} {{α C : Type}} (getitem : C → Nat → α) ({cols} : List C) ({_ln(var)} : Nat) : List α :=\n"
                f"  {cols}.map (fun {_ln(c)} => getitem {_ln(c)} {_ln(var)})",
                f"/-- the keys the loop `for {var} in {_u(loop.iter)}` of `Table.{self.f.name}` computes, in loop order -/\n"
                f"def {nm}KeysT{self.tag} {{α C : Type}} (getitem : C → Nat → α) ({cols} : List C) ({nrows} : Nat) : List (List α) :=\n"
                f"  (List.range {nrows}).map (fun {_ln(var)} => {nm}KeyT{self.tag} getitem {cols} {_ln(var)})"]

    # ---- result_data -------------------------------------------------------------------------------------------------
    def init_data(self):
        ss = self.top.get("result_data", [])
        if len(ss) != 1:
            raise TranslateError(f"{self.f.name}: result_data")
        v = ss[0].value
        if not (isinstance(v, ast.ListComp) and isinstance(v.elt, ast.List) and not v.elt.elts and len(v.generators) == 1
                and not v.generators[0].ifs and isinstance(v.generators[0].target, ast.Name) and isinstance(v.generators[0].iter, ast.Call)
                and _u(v.generators[0].iter.func) == "range" and len(v.generators[0].iter.args) == 1 and not v.generators[0].iter.keywords):
            raise TranslateError(f"{self.f.name}: {_u(ss[0])[:70]}")
        n = self.nat(v.generators[0].iter.args[0], self.nats)
        lets = "".join(f"  {l}\n" for l in self.nat_lets)
        return (f"/-- `{_u(ss[0])}` of `Table.{self.f.name}`"
                + (f" (with `{_u(self.top['total_cols'][0])}`)" if "total_cols" in self.top else "") + " -/\n"
                f"def resultDataInitT{self.tag} {{α C : Type}} (left_cols right_cols : List C) : List (List α) :=\n{lets}"
                f"  (List.range {n}).map (fun _ => [])")

    def find_groups(self):
        """all groups of appends (as `_JoinMethod.cell_group` recognises them), in source order: [(statements, pair text, where)]"""
        groups = []

        def scan(stmts, where):
            i = 0
            while i < len(stmts):
                g = self.cell_group(stmts[i:])
                if g:
                    groups.append((stmts[i:i + g[1]], g[0], where))
                    i += g[1]
                    continue
                s = stmts[i]
                if isinstance(s, ast.For):
                    scan(s.body, f"for {_u(s.target)} in {_u(s.iter)}")
                    scan(s.orelse, where)
                elif isinstance(s, ast.If):
                    scan(s.body, where + f" / if {_u(s.test)[:40]}")
                    scan(s.orelse, where + f" / else of if {_u(s.test)[:40]}")
                elif isinstance(s, (ast.While, ast.With, ast.Try, ast.FunctionDef)):
                    if any(isinstance(n, ast.Name) and n.id in (self.cells[0], "result_data") for n in ast.walk(s)):
                        raise TranslateError(f"{self.f.name}: result_data used inside `{_u(s)[:30]}`")
                i += 1
        scan(self.body, "top level")
        return groups

    def group_def(self, k, stmts, pair, where):
        cells = self.cells[0]
        lines, used_idx = [], []

        def cell(arg, scope_cols):
            if isinstance(arg, ast.Constant) and arg.value is None:
                return "pyNone"
            if isinstance(arg, ast.Subscript) and isinstance(arg.value, ast.Name) and arg.value.id in scope_cols and isinstance(arg.slice, ast.Name):
                if arg.slice.id not in used_idx:
                    used_idx.append(arg.slice.id)
                return f"(getitem {_ln(arg.value.id)} {_ln(arg.slice.id)})"
            raise TranslateError(f"{self.f.name}: appended value {_u(arg)[:40]}")

        nats = set(self.nats)
        for s in stmts:
            if isinstance(s, ast.Assign):                      # base = n_left_cols (checked by cell_group)
                lines.append(f"let base := {self.nat(s.value, nats)}")
                nats.add("base")
                continue
            call = s.body[0].value
            if not (isinstance(call.func, ast.Subscript) and _u(call.func.value) == cells):
                raise TranslateError(f"{self.f.name}: {_u(s.body[0])[:50]}")
            it = s.iter
            if isinstance(it, ast.Call) and _u(it.func) == "enumerate" and len(it.args) == 1 and _u(it.args[0]) in ("left_cols", "right_cols") \
                    and isinstance(s.target, ast.Tuple) and len(s.target.elts) == 2 and all(isinstance(e, ast.Name) for e in s.target.elts):
                iv, cv = s.target.elts[0].id, s.target.elts[1].id
                slot = self.nat(call.func.slice, nats | {iv})
                lines.append(f"let result_data := {_u(it.args[0])}.zipIdx.foldl (fun result_data ({_ln(cv)}, {_ln(iv)}) =>\n"
                             f"      pyAppendAt result_data {slot} {cell(call.args[0], {cv})}) result_data")
            elif isinstance(it, ast.Call) and _u(it.func) == "range" and len(it.args) == 1 and isinstance(s.target, ast.Name):
                iv = s.target.id
                slot = self.nat(call.func.slice, nats | {iv})
                lines.append(f"let result_data := (List.range {self.nat(it.args[0], nats)}).foldl (fun result_data {_ln(iv)} =>\n"
                             f"      pyAppendAt result_data {slot} {cell(call.args[0], set())}) result_data")
            else:
                raise TranslateError(f"{self.f.name}: loop {_u(s)[:50]}")
        src = "\n".join("      " + l for s in stmts for l in _u(s).split("\n"))
        params = "".join(f" ({_ln(v)} : Nat)" for v in used_idx)
        name = f"emitRowT{self.tag}{k}"
        text = (f"/-- translated from the group of appends in `{where}` of `Table.{self.f.name}` (one output row; `_JoinMethod` abstracts it\n"
                f"    to the pair `{pair}`):\n{src} -/\n"
                f"def {name} {{α C : Type}} (pyNone : α) (getitem : C → Nat → α) (left_cols right_cols : List C)\n"
                f"    (result_data : List (List α)){params} : List (List α) :=\n"
                + "".join(f"  {l}\n" for l in self.nat_lets + lines) + "  result_data")
        return name, used_idx, text

    def emit(self):
        groups = self.find_groups()
        if not groups:
            raise TranslateError(f"{self.f.name}: no group of appends found")
        # every mention of result_data / the bound appends is the initialisation, the alias, a group, or in the tail
        covered = set()
        for stmts, _, _ in groups:
            for s in stmts:
                covered |= {id(n) for n in ast.walk(s)}
        for s in self.top.get("result_data", []) + self.top.get(self.cells[0], []) + self.tail():
            covered |= {id(n) for n in ast.walk(s)}
        for n in ast.walk(self.f):
            if isinstance(n, ast.Name) and n.id in ("result_data", self.cells[0]) and id(n) not in covered:
                raise TranslateError(f"{self.f.name}: `{n.id}` is used outside the recognised places (line {n.lineno})")
        out, arms, seen = [], [], set()
        for k, (stmts, pair, where) in enumerate(groups):
            name, idx, text = self.group_def(k, stmts, pair, where)
            out.append(text)
            if pair in seen:
                raise TranslateError(f"{self.f.name}: two groups of appends for rows of the shape {pair}")
            seen.add(pair)
            # the pair text is `(some X | none, some Y | none)`; the group must read exactly the row variables the pair names
            want = [w.split()[1] for w in pair.strip("()").split(", ") if w.startswith("some ")]
            if sorted(want) != sorted(idx):
                raise TranslateError(f"{self.f.name}: group {k} reads rows {idx}, abstracted as {pair}")
            lean_pair = "(" + ", ".join(("some " + _ln(w.split()[1])) if w.startswith("some ") else "none" for w in pair.strip("()").split(", ")) + ")"
            arms.append(f"  | {lean_pair} => {name} pyNone getitem left_cols right_cols result_data" + "".join(" " + _ln(v) for v in idx))
        if len(arms) < 4:
            arms.append("  | _ => result_data")
        out.append(f"/-- one output pair of `Table.{self.f.name}` sent to the group of appends that produces rows of that shape (the inverse of\n"
                   f"    the abstraction of `_JoinMethod.cell_group`); no group of this method has any other shape -/\n"
                   f"def emitPairT{self.tag} {{α C : Type}} (pyNone : α) (getitem : C → Nat → α) (left_cols right_cols : List C)\n"
                   f"    (result_data : List (List α)) : Pair → List (List α)\n" + "\n".join(arms))
        return out, [g[1] for g in groups]

    # ---- after the loops -------------------------------------------------------------------------------------------------
    def tail(self):
        last = max(i for i, s in enumerate(self.body) if isinstance(s, ast.For) and _u(s.iter) in ("range(right_nrows)", "range(left_nrows)"))
        return self.body[last + 1:]

    def cond(self, node):
        if isinstance(node, ast.BoolOp):
            op = " && " if isinstance(node.op, ast.And) else " || "
            return "(" + op.join(self.cond(v) for v in node.values) + ")"
        if isinstance(node, ast.Compare) and len(node.ops) == 1 and isinstance(node.ops[0], ast.Eq) and isinstance(node.left, ast.Name) \
                and node.left.id in ("left_nrows", "right_nrows") and isinstance(node.comparators[0], ast.Constant) \
                and type(node.comparators[0].value) is int and node.comparators[0].value >= 0:
            return f"({node.left.id} == {node.comparators[0].value})"
        if isinstance(node, ast.Call) and _u(node.func) == "all" and len(node.args) == 1 and not node.keywords \
                and isinstance(node.args[0], (ast.GeneratorExp, ast.ListComp)):
            g = node.args[0]
            if len(g.generators) == 1 and not g.generators[0].ifs and isinstance(g.generators[0].target, ast.Name) \
                    and _u(g.generators[0].iter) == "result_data":
                c = g.generators[0].target.id
                if _u(g.elt) == f"len({c}) == 0":
                    return f"(result_data.all (fun {_ln(c)} => {_ln(c)}.length == 0))"
        raise TranslateError(f"{self.f.name}: condition after the loops: {_u(node)[:60]}")

    def finish(self):
        stmts = self.tail()
        nats = set(self.nats)

        def vec_append(s, scope, bufs, orig):
            """`result_cols.append(Vector(<buffer>, name=<orig>._name))`"""
            if not (isinstance(s, ast.Expr) and isinstance(s.value, ast.Call) and _u(s.value.func) == "result_cols.append"
                    and len(s.value.args) == 1 and not s.value.keywords):
                return None
            v = s.value.args[0]
            if not (isinstance(v, ast.Call) and _u(v.func) == "Vector" and len(v.args) == 1 and len(v.keywords) == 1
                    and v.keywords[0].arg == "name" and _u(v.keywords[0].value) == f"{orig}._name"):
                raise TranslateError(f"{self.f.name}: {_u(s)[:70]}")
            return f"result_cols ++ [Vector {buf(v.args[0], scope, bufs)} (nameOf {_ln(orig)})]"

        def buf(node, scope, bufs):
            if isinstance(node, ast.Name) and node.id in bufs:
                return _ln(node.id)
            if isinstance(node, ast.Subscript) and _u(node.value) == "result_data":
                return f"(pyBuf result_data {self.nat(node.slice, scope)})"
            raise TranslateError(f"{self.f.name}: column data {_u(node)[:40]}")

        def inner(body, scope, orig, ind):
            pad = " " * ind
            bufs, lines = set(), []
            for j, s in enumerate(body):
                if isinstance(s, ast.Assign) and len(s.targets) == 1 and isinstance(s.targets[0], ast.Name) and j < len(body) - 1:
                    n = s.targets[0].id
                    if n in scope or n in ("result_data", "result_cols", orig):
                        raise TranslateError(f"{self.f.name}: {_u(s)[:50]}")
                    lines.append(pad + f"let {_ln(n)} := {buf(s.value, scope, bufs)}")
                    bufs.add(n)
                    continue
                a = vec_append(s, scope, bufs, orig)
                if a is None or j != len(body) - 1:
                    raise TranslateError(f"{self.f.name}: wrapping loop: {_u(s)[:60]}")
                lines.append(pad + a)
            if not lines:
                raise TranslateError(f"{self.f.name}: empty wrapping loop")
            return "\n".join(lines)

        def block(ss, ind, have_cols):
            pad = " " * ind
            if not ss:
                raise TranslateError(f"{self.f.name}: path without return after the loops")
            s, rest = ss[0], ss[1:]
            if isinstance(s, ast.Return):
                if rest:
                    raise TranslateError(f"{self.f.name}: statements after return")
                if _u(s.value) == "Table(())":
                    return pad + "[]"
                if _u(s.value) == "Table(result_cols)" and have_cols:
                    return pad + "result_cols"
                raise TranslateError(f"{self.f.name}: {_u(s)[:50]}")
            if isinstance(s, ast.If):
                if s.orelse or not py2lean.always_returns(s.body):
                    raise TranslateError(f"{self.f.name}: {_u(s)[:50]}")
                return pad + f"if {self.cond(s.test)} then\n" + block(_strip(s.body), ind + 2, have_cols) + "\n" + pad + "else\n" + block(rest, ind, have_cols)
            if isinstance(s, ast.Assign) and _u(s) == "result_cols = []":
                return pad + "let result_cols : List V := []\n" + block(rest, ind, True)
            if isinstance(s, ast.Assign) and _u(s.targets[0]) == "base" and len(s.targets) == 1:
                nats.add("base")
                return pad + f"let base := {self.nat(s.value, nats - {'base'})}\n" + block(rest, ind, have_cols)
            if isinstance(s, ast.For) and not s.orelse and have_cols:
                it = s.iter
                if isinstance(it, ast.Call) and _u(it.func) == "enumerate" and len(it.args) == 1 and _u(it.args[0]) in ("left_cols", "right_cols") \
                        and isinstance(s.target, ast.Tuple) and len(s.target.elts) == 2 and all(isinstance(e, ast.Name) for e in s.target.elts):
                    iv, ov = s.target.elts[0].id, s.target.elts[1].id
                    if iv in nats or ov in nats or iv == ov:
                        raise TranslateError(f"{self.f.name}: loop variables {iv}, {ov}")
                    return (pad + f"let result_cols := {_u(it.args[0])}.zipIdx.foldl (fun result_cols ({_ln(ov)}, {_ln(iv)}) =>\n"
                            + inner(_strip(s.body), nats | {iv}, ov, ind + 6) + ") result_cols\n" + block(rest, ind, have_cols))
            raise TranslateError(f"{self.f.name}: after the loops: {_u(s)[:60]}")

        body = block(stmts, 2, False)
        src = "\n".join("      " + l for s in stmts for l in _u(_Quiet().visit(ast.parse(_u(s)))).split("\n"))
        return (f"/-- translated from the end of `Table.{self.f.name}` (everything after the last loop; the result is the list handed to `Table(...)`,\n"
                f"    `[]` for `Table(())`):\n{src} -/\n"
                f"def finishT{self.tag} {{α C V : Type}} (nameOf : C → Option String) (Vector : List α → Option String → V)\n"
                f"    (left_cols right_cols : List C) (left_nrows right_nrows : Nat) (result_data : List (List α)) : List V :=\n"
                + "".join(f"  {l}\n" for l in self.nat_lets) + body)

    # ---- the method ------------------------------------------------------------------------------------------------------
    def translate_all(self):
        loops = [s for s in self.body if isinstance(s, ast.For) and _u(s.iter) in ("range(right_nrows)", "range(left_nrows)")]
        want = ["range(right_nrows)", "range(left_nrows)"] + (["range(right_nrows)"] if self.tag == "Full" else [])
        if [_u(s.iter) for s in loops] != want:
            raise TranslateError(f"{self.f.name}: loops {[_u(s.iter) for s in loops]}")
        out = self.key_lists()
        out += self.key_tuple(loops[0], "right_keys", "build", "right_nrows")
        out += self.key_tuple(loops[1], "left_keys", "probe", "left_nrows")
        out.append(self.init_data())
        g, shapes = self.emit()
        out += g
        out.append(self.finish())
        t = self.tag
        out.append(f"/-- `Table.{self.f.name}` from the initialisation of `result_data` on, replayed on the output pairs `ps` that the loops\n"
                   f"    produce (`joinCoreT{t}` of Serif/Gen/TranslatedRel.lean): every pair runs its group of appends, then the end of the method -/\n"
                   f"def assembleT{t} {{α C V : Type}} (pyNone : α) (getitem : C → Nat → α) (nameOf : C → Option String)\n"
                   f"    (Vector : List α → Option String → V) (left_cols right_cols : List C) (left_nrows right_nrows : Nat) (ps : List Pair) : List V :=\n"
                   f"  let result_data := ps.foldl (emitPairT{t} pyNone getitem left_cols right_cols) (resultDataInitT{t} left_cols right_cols)\n"
                   f"  finishT{t} nameOf Vector left_cols right_cols left_nrows right_nrows result_data")
        out.append(f"/-- the row shapes for which `Table.{self.f.name}` has a group of appends, in source order -/\n"
                   f"def shapesT{t} : List (Bool × Bool) := [" + ", ".join(
                       "(" + ", ".join("true" if w.startswith("some ") else "false" for w in p.strip("()").split(", ")) + ")" for p in shapes) + "]")
        return out


class _Quiet(ast.NodeTransformer):
    """for quoting source in docstrings: the text of error messages and f-strings is dropped"""

    def visit_JoinedStr(self, node):
        return ast.Constant(value="…")

    def visit_Raise(self, node):
        if isinstance(node.exc, ast.Call):
            return ast.Raise(exc=ast.Call(func=node.exc.func, args=[ast.Constant(value="…")], keywords=[]), cause=None)
        return node


JOIN_PRELUDE = [
    "/-- `append_cols[i](v)` where `append_cols = [col.append for col in result_data]`: `result_data[i].append(v)` -/\n"
    "def pyAppendAt {α : Type} (result_data : List (List α)) (i : Nat) (v : α) : List (List α) :=\n  result_data.modify i (· ++ [v])",
    "/-- `result_data[i]` (a buffer; `i` is in range wherever the code reaches it) -/\n"
    "def pyBuf {α : Type} (result_data : List (List α)) (i : Nat) : List α := result_data[i]?.getD []",
]


def translate_joins(src):
    tree = ast.parse(src)
    out, errors = list(JOIN_PRELUDE), []
    for meth, tag in (("inner_join", "Inner"), ("join", "Left"), ("full_join", "Full")):
        try:
            out += _Asm(find_func(tree, meth, "Table"), tag).translate_all()
        except Exception as ex:
            errors.append((f"assemble/{meth}", f"{type(ex).__name__}: {ex}"))
            out.append(f"-- assemble/{meth}: not translated ({type(ex).__name__})")
    return out, errors


# =====================================================================================================================
# group-by: Table.window / Table.aggregate — shape-checked transcriptions
# =====================================================================================================================
GROUP_PRELUDE = [
    "/-- `l[i]` of a Python list / tuple for `0 ≤ i < len(l)` (the only case the callers reach; `d` elsewhere) -/\n"
    "def pyListGet {α : Type} (d : α) (l : List α) (i : Nat) : α := l[i]?.getD d",
    "/-- `l[i]`, IndexError out of range -/\n"
    "def pyListItem {α : Type} (l : List α) (i : Nat) : Res α := match l[i]? with | some x => .ok x | none => .error Err.index",
    "/-- `d[k]` of a dict, KeyError for a missing key -/\n"
    "def pyDictItem {K β : Type} [DecidableEq K] (d : Dict K β) (k : K) : Res β :=\n"
    "  match Dict.get? d k with | some v => .ok v | none => .error Err.key",
    "/-- `x or \"lit\"` for an optional string `x` (None and the empty string are falsy) -/\n"
    "def pyOrStr (x : Option String) (d : String) : String := match x with | none => d | some s => if s = \"\" then d else s",
]


def _body(fn):
    return [_u(_Quiet().visit(ast.parse(_u(s)))) for s in _strip(fn.body)]


def _expect(got, want, what):
    if got != want:
        for i, (g, w) in enumerate(zip(got + ["<nothing>"] * len(want), want + ["<nothing>"] * len(got))):
            if g != w:
                raise TranslateError(f"{what}: statement {i} is `{g[:80]}`, understood is `{w[:80]}`")
        raise TranslateError(f"{what}: shape")


def _nested(f, name):
    fs = [s for s in _strip(f.body) if isinstance(s, ast.FunctionDef) and s.name == name]
    if len(fs) != 1:
        raise TranslateError(f"{f.name}: nested function {name}")
    return fs[0]


def _once(f, names):
    counts = _assigned_names(f)
    for n in names:
        if counts.get(n, 0) != 1:
            raise TranslateError(f"{f.name}: `{n}` must be bound exactly once (it is captured by the helpers), found {counts.get(n, 0)}")


def _top_assign(f, target, value):
    ss = [s for s in _strip(f.body) if isinstance(s, ast.Assign) and _u(s.targets[0]) == target]
    if len(ss) != 1 or _u(ss[0].value) != value:
        raise TranslateError(f"{f.name}: `{target} = {value}` expected")


def _args(fn, want):
    a = fn.args
    if [x.arg for x in a.args] != want or a.vararg or a.kwarg or a.kwonlyargs or a.defaults or a.posonlyargs:
        raise TranslateError(f"{fn.name}: parameters {[x.arg for x in a.args]}")


def _only_store(f, name, allowed):
    """every statement that writes to `name` (binding it, or storing into / mutating it by subscript) is one of `allowed` (unparsed)"""
    for s in ast.walk(f):
        if isinstance(s, (ast.Assign, ast.AugAssign, ast.Delete)):
            tg = s.targets if isinstance(s, (ast.Assign, ast.Delete)) else [s.target]
            if any(isinstance(n, ast.Name) and n.id == name for t in tg for n in ast.walk(t)) and _u(s) not in allowed:
                raise TranslateError(f"{f.name}: `{_u(s)[:60]}` writes {name}")
        if isinstance(s, ast.Call) and isinstance(s.func, ast.Attribute) and _u(s.func.value) == name \
                and s.func.attr in ("append", "extend", "insert", "pop", "remove", "clear", "sort", "reverse", "update", "setdefault", "popitem"):
            raise TranslateError(f"{f.name}: `{_u(s)[:60]}` mutates {name}")


def translate_window(tree):
    f = find_func(tree, "window", "Table")
    out = []
    _once(f, ["nrows", "group_items", "row_keys", "over_data", "pk_len", "partition_index"])
    _top_assign(f, "nrows", "len(self)")
    _top_assign(f, "over_data", "[c._underlying for c in over]")
    _top_assign(f, "pk_len", "len(over)")
    _top_assign(f, "row_keys", "[None] * nrows")
    _top_assign(f, "group_items", "list(partition_index.items())")
    loops = [s for s in _strip(f.body) if isinstance(s, ast.For) and _u(s.iter) == "range(nrows)"]
    if len(loops) != 1 or _u(loops[0].target) != "i":
        raise TranslateError("window: the loop `for i in range(nrows)`")
    lb = [_u(s) for s in _strip(loops[0].body)]
    _expect(lb[:2], ["key = tuple((over_data[k][i] for k in range(pk_len)))", "row_keys[i] = key"], "window: partition loop")
    if any("row_keys" in x or x.startswith("key =") for x in lb[2:]):
        raise TranslateError("window: row_keys / key written later in the partition loop")
    _only_store(f, "row_keys", ["row_keys = [None] * nrows", "row_keys[i] = key"])
    _only_store(f, "group_items", ["group_items = list(partition_index.items())"])
    # the statements between the loop and the helpers must not touch row_keys / group_items: checked by _only_store
    out.append("/-- `over_data = [c._underlying for c in over]` of `Table.window` -/\n"
               "def overDataTWin {C κ : Type} (underlying : C → List κ) (over : List C) : List (List κ) :=\n"
               "  over.map (fun c => underlying c)")
    out.append("/-- `key = tuple(over_data[k][i] for k in range(pk_len))` in `for i in range(nrows)` of `Table.window` -/\n"
               "def rowKeyTWin {κ : Type} (pyNone : κ) (over_data : List (List κ)) (pk_len : Nat) (i : Nat) : List κ :=\n"
               "  (List.range pk_len).map (fun k => pyListGet pyNone (pyListGet [] over_data k) i)")
    out.append("/-- `row_keys = [None] * nrows`, then in `for i in range(nrows)`: `key = tuple(...)`, `row_keys[i] = key` of `Table.window`\n"
               "    (`noneKey` is the placeholder None; the rest of the loop body builds `partition_index`: `partitionStepTWin` of\n"
               "    Serif/Gen/TranslatedGroup.lean) -/\n"
               "def rowKeysTWin {κ : Type} (pyNone : κ) (noneKey : List κ) (over_data : List (List κ)) (pk_len nrows : Nat) : List (List κ) :=\n"
               "  let row_keys := List.replicate nrows noneKey\n"
               "  let row_keys := (List.range nrows).foldl (fun row_keys i =>\n"
               "      let key := rowKeyTWin pyNone over_data pk_len i\n"
               "      let row_keys := row_keys.set i key\n"
               "      row_keys) row_keys\n"
               "  row_keys")
    # key columns
    body = _strip(f.body)
    k = [i for i, s in enumerate(body) if _u(s) == "result_cols = []"]
    if len(k) != 1 or k[0] + 1 >= len(body):
        raise TranslateError("window: result_cols = []")
    _expect([_u(body[k[0] + 1])], ["for col in over:\n    result_cols.append(Vector(list(col), name=uniquify(col._name or 'key')))"], "window: key columns")
    out.append("/-- `result_cols = []`, `for col in over: result_cols.append(Vector(list(col), name=uniquify(col._name or 'key')))` of `Table.window`\n"
               "    (`uniquify` reads and updates the set `used`: threaded through) -/\n"
               "def keyColsTWin {C ρ V U : Type} (nameOf : C → Option String) (listOf : C → List ρ) (Vector : List ρ → String → V)\n"
               "    (uniquify : U → String → String × U) (over : List C) (used : U) : List V × U :=\n"
               "  let result_cols : List V := []\n"
               "  over.foldl (fun (result_cols, used) col =>\n"
               "      let (name, used) := uniquify used (pyOrStr (nameOf col) \"key\")\n"
               "      let result_cols := result_cols ++ [Vector (listOf col) name]\n"
               "      (result_cols, used)) (result_cols, used)")
    # helpers
    cgv = _nested(f, "compute_group_values")
    _args(cgv, ["col", "fn"])
    _expect(_body(cgv), ["data = col._underlying", "out = {}", "for key, rows in group_items:\n    vals = [data[i] for i in rows]\n    out[key] = fn(vals)",
                         "return out"], "window.compute_group_values")
    out.append("/-- translated from `compute_group_values(col, fn)` of `Table.window`:\n"
               "      data = col._underlying\n      out = {}\n      for key, rows in group_items:\n          vals = [data[i] for i in rows]\n"
               "          out[key] = fn(vals)\n      return out -/\n"
               "def computeGroupValuesTWin {K α β C : Type} [DecidableEq K] (pyNone : α) (underlying : C → List α)\n"
               "    (group_items : List (K × List Nat)) (col : C) (fn : List α → β) : Dict K β :=\n"
               "  let data := underlying col\n"
               "  let out : Dict K β := []\n"
               "  let out := group_items.foldl (fun out (key, rows) =>\n"
               "      let vals := rows.map (fun i => pyListGet pyNone data i)\n"
               "      let out := Dict.upsert out key (fun _ => fn vals)\n"
               "      out) out\n"
               "  out")
    etr = _nested(f, "expand_to_rows")
    _args(etr, ["group_map"])
    _expect(_body(etr), ["return [group_map[row_keys[i]] for i in range(nrows)]"], "window.expand_to_rows")
    out.append("/-- translated from `expand_to_rows(group_map)` of `Table.window`: `return [group_map[row_keys[i]] for i in range(nrows)]`\n"
               "    (IndexError / KeyError are the `.error`s) -/\n"
               "def expandToRowsTWin {K β : Type} [DecidableEq K] (row_keys : List K) (nrows : Nat) (group_map : Dict K β) : Res (List β) :=\n"
               "  (List.range nrows).mapM (fun i => (pyListItem row_keys i).bind (fun k => pyDictItem group_map k))")
    # the six built-in blocks use the two helpers in the same way
    for name in ("sum", "mean", "min", "max", "count", "stdev"):
        ls = [s for s in ast.walk(f) if isinstance(s, ast.For) and _u(s.iter) == f"{name}_over"]
        if len(ls) != 1 or _u(ls[0].target) != "col":
            raise TranslateError(f"window: loop over {name}_over")
        b = [s for s in _strip(ls[0].body) if not isinstance(s, (ast.FunctionDef, ast.If))]
        _expect([_u(s) for s in b], ["gm = compute_group_values(col, fn)",
                                     f"result_cols.append(Vector(expand_to_rows(gm), name=uniquify(sanitize(col, '{name}'))))"],
                f"window: block of {name}_over")
        for s in _strip(ls[0].body):
            if isinstance(s, ast.If) and not (py2lean.always_returns(s.body) and not s.orelse and "len(col) != nrows" == _u(s.test)):
                raise TranslateError(f"window: block of {name}_over: {_u(s)[:50]}")
            if isinstance(s, ast.FunctionDef) and s.name != "fn":
                raise TranslateError(f"window: block of {name}_over defines {s.name}")
    out.append("/-- one built-in column of `Table.window` (the same two statements in each of the six blocks):\n"
               "      gm = compute_group_values(col, fn)\n"
               "      result_cols.append(Vector(expand_to_rows(gm), name=uniquify(sanitize(col, '<fn>'))))\n"
               "    (`sanitize`: the name logic, a parameter; the result is the new `result_cols` and `used`, or the KeyError / IndexError) -/\n"
               "def windowColTWin {K α β C V U : Type} [DecidableEq K] (pyNone : α) (underlying : C → List α) (sanitize : C → String → String)\n"
               "    (Vector : List β → String → V) (uniquify : U → String → String × U) (group_items : List (K × List Nat)) (row_keys : List K)\n"
               "    (nrows : Nat) (col : C) (fn : List α → β) (suffix : String) (st : List V × U) : Res (List V × U) :=\n"
               "  let (result_cols, used) := st\n"
               "  let gm := computeGroupValuesTWin pyNone underlying group_items col fn\n"
               "  match expandToRowsTWin row_keys nrows gm with\n"
               "  | .error e => .error e\n"
               "  | .ok rows =>\n"
               "    let (name, used) := uniquify used (sanitize col suffix)\n"
               "    let result_cols := result_cols ++ [Vector rows name]\n"
               "    .ok (result_cols, used)")
    return out


def translate_aggregate(tree):
    f = find_func(tree, "aggregate", "Table")
    out = []
    _once(f, ["nrows", "group_items", "over_data", "pk_len", "partition_index", "result_cols"])
    _top_assign(f, "group_items", "list(partition_index.items())")
    _top_assign(f, "over_data", "[c._underlying for c in over]")
    _top_assign(f, "pk_len", "len(over)")
    _only_store(f, "group_items", ["group_items = list(partition_index.items())"])
    loops = [s for s in _strip(f.body) if isinstance(s, ast.For) and _u(s.iter) == "range(nrows)"]
    if len(loops) != 1 or _u(loops[0].target) != "row_idx":
        raise TranslateError("aggregate: the loop `for row_idx in range(nrows)`")
    lb = [_u(s) for s in _strip(loops[0].body)]
    _expect(lb[:1], ["key = tuple((over_data[i][row_idx] for i in range(pk_len)))"], "aggregate: partition loop")
    if any(x.startswith("key =") for x in lb[1:]):
        raise TranslateError("aggregate: key rebound in the partition loop")
    out.append("/-- `key = tuple(over_data[i][row_idx] for i in range(pk_len))` in `for row_idx in range(nrows)` of `Table.aggregate` -/\n"
               "def rowKeyTAgg {κ : Type} (pyNone : κ) (over_data : List (List κ)) (pk_len : Nat) (row_idx : Nat) : List κ :=\n"
               "  (List.range pk_len).map (fun i => pyListGet pyNone (pyListGet [] over_data i) row_idx)")
    body = _strip(f.body)
    k = [i for i, s in enumerate(body) if _u(s) == "result_cols = []"]
    if len(k) != 1 or k[0] + 1 >= len(body):
        raise TranslateError("aggregate: result_cols = []")
    _expect([_u(body[k[0] + 1])], ["for idx, col in enumerate(over):\n    values = [key[idx] for key, _ in group_items]\n"
                                   "    result_cols.append(Vector(values, name=uniquify(col._name or 'key')))"], "aggregate: key columns")
    out.append("/-- translated from the key columns of `Table.aggregate`:\n"
               "      result_cols = []\n      for idx, col in enumerate(over):\n          values = [key[idx] for key, _ in group_items]\n"
               "          result_cols.append(Vector(values, name=uniquify(col._name or 'key'))) -/\n"
               "def keyColsTAgg {C κ V U : Type} (pyNone : κ) (nameOf : C → Option String) (Vector : List κ → String → V)\n"
               "    (uniquify : U → String → String × U) (group_items : List (List κ × List Nat)) (over : List C) (used : U) : List V × U :=\n"
               "  let result_cols : List V := []\n"
               "  over.zipIdx.foldl (fun (result_cols, used) (col, idx) =>\n"
               "      let values := group_items.map (fun (key, _) => pyListGet pyNone key idx)\n"
               "      let (name, used) := uniquify used (pyOrStr (nameOf col) \"key\")\n"
               "      let result_cols := result_cols ++ [Vector values name]\n"
               "      (result_cols, used)) (result_cols, used)")
    ac = _nested(f, "aggregate_col")
    _args(ac, ["col", "func", "suffix"])
    _expect(_body(ac), ["data = col._underlying", "out = []",
                        "for key, row_indices in group_items:\n    vals = [data[i] for i in row_indices]\n    res = func(vals)\n    out.append(res)",
                        "name = uniquify(make_agg_name(col, suffix))", "result_cols.append(Vector(out, name=name))"], "aggregate.aggregate_col")
    out.append("/-- translated from `aggregate_col(col, func, suffix)` of `Table.aggregate`:\n"
               "      data = col._underlying\n      out = []\n      for key, row_indices in group_items:\n          vals = [data[i] for i in row_indices]\n"
               "          res = func(vals)\n          out.append(res)\n      name = uniquify(make_agg_name(col, suffix))\n"
               "      result_cols.append(Vector(out, name=name)) -/\n"
               "def aggregateColTAgg {K α β C V U : Type} (pyNone : α) (underlying : C → List α) (make_agg_name : C → String → String)\n"
               "    (Vector : List β → String → V) (uniquify : U → String → String × U) (group_items : List (K × List Nat))\n"
               "    (col : C) (func : List α → β) (suffix : String) (st : List V × U) : List V × U :=\n"
               "  let (result_cols, used) := st\n"
               "  let data := underlying col\n"
               "  let out : List β := []\n"
               "  let out := group_items.foldl (fun out (key, row_indices) =>\n"
               "      let vals := row_indices.map (fun i => pyListGet pyNone data i)\n"
               "      let res := func vals\n"
               "      let out := out ++ [res]\n"
               "      out) out\n"
               "  let (name, used) := uniquify used (make_agg_name col suffix)\n"
               "  let result_cols := result_cols ++ [Vector out name]\n"
               "  (result_cols, used)")
    return out


def translate_groupby(src):
    tree = ast.parse(src)
    out, errors = list(GROUP_PRELUDE), []
    for what, fn in (("assemble/window", translate_window), ("assemble/aggregate", translate_aggregate)):
        try:
            out += fn(tree)
        except Exception as ex:
            errors.append((what, f"{type(ex).__name__}: {ex}"))
            out.append(f"-- {what}: not translated ({type(ex).__name__})")
    return out, errors


def generate(src_dir):
    parts, errors = [], []
    try:
        src = open(os.path.join(src_dir, "table.py")).read()
        for fn in (translate_joins, translate_groupby):
            p, e = fn(src)
            parts += p
            errors += e
    except Exception as ex:
        errors.append(("assemble", f"{type(ex).__name__}: {ex}"))
        parts.append(f"-- assemble: not translated ({type(ex).__name__})")
    text = ("/- GENERATED by harness/tr/assemble.py from /repo's working tree — do not edit.\n"
            "   Around the hash loops of Table.inner_join / join / full_join (key tuples, result_data, the groups of cell appends, the\n"
            "   wrapping of the buffers into named Vectors) and of Table.window / aggregate (row keys, compute_group_values,\n"
            "   expand_to_rows, key columns, aggregate_col), translated statement by statement; theorems in Serif/Tie/Assemble.lean. -/\n"
            "import Serif.Model.Join\n\nset_option linter.unusedVariables false\n\nnamespace Serif.Gen.TA\nopen Serif Serif.Join\n\n"
            + "\n\n".join(parts) + "\n\nend Serif.Gen.TA\n")
    return text, errors


if __name__ == "__main__":
    import sys
    t, e = generate(sys.argv[1] if len(sys.argv) > 1 else "/repo/src/serif")
    print(t)
    print(e, file=sys.stderr)
