"""Translator plug-in: key validation of the joins (src/serif/table.py) -> lean/Serif/Gen/TranslatedJoinKeys.lean

Translated, statement by statement (every Python statement is one `let` / `if` / `match` / fold step, in the order of the source,
the Python text quoted in the docstring of the generated definition):

  * `_missing_col_error`                         -> `missingColErrorT`        (the exception class it returns)
  * `Table._resolve_column`                      -> `resolveColumnT`
  * `Table._validate_join_keys`                  -> `validateJoinKeysT`, with its inner functions
        `get_column`                             -> `getColumnT`              (try / except (…) / raise)
        `validate_key_dtype`                     -> `validateKeyDtypeT`
        the body of its `for i, (…) in enumerate(zip(left_on, right_on))`  -> `pairStepT`
  * `Table._validate_key_tuple_hashable`         -> `validateKeyTupleHashableT`, `hashComponentStepT` (try / except TypeError, twice)
  * the head of `inner_join` / `join` / `full_join` (everything that is not a loop, the test after the build loop or the result
    assembly: `if expect not in (…): raise`, `pairs = self._validate_join_keys(…)`, `left_keys`, `right_keys`,
    `validate_hashable`, `check_right_unique`, `check_left_unique`)   -> `joinHeadTInner`, `joinHeadTLeft`, `joinHeadTFull`

over the model's own data types (`OnArg`, `KeySpec`, `Tab Cell` of Serif/Model/Join.lean — `OnArg` / `KeySpec` record exactly the
`isinstance` classification the code performs).  What the functions ask of objects they do not own is a field of the generated
`Ops` structure (`table[name]`, `col.schema()`, `len(table)`) or a function parameter (`hash(x)` succeeds or raises TypeError).

The translator works on typed environments (which local is a key argument, a column, an optional schema, …) and refuses
(TranslateError) every statement or expression it has no rule for; the definition is then missing from the generated file and
Serif.Tie.JoinKeys stops building.  Comments, docstrings, blank lines and the wording of error messages play no role: only the
exception class of a `raise` is read, and parameters / locals that occur only inside `raise` statements (`side_name`, `idx`,
`col_name`) are dropped after checking that they occur nowhere else.
"""
import ast, os

from py2lean import TranslateError, find_func, _ln, KINDS

GEN_FILE = "TranslatedJoinKeys.lean"
TIE = {"Serif.Tie.JoinKeys": ["C09", "C10", "C11"]}

ERR = {"SerifKeyError": "key", "SerifTypeError": "type", "SerifValueError": "value", "SerifIndexError": "index",
       "AttributeError": "attr", "TypeError": "other", "ValueError": "other", "KeyError": "other", "IndexError": "other",
       "RuntimeError": "other", "Exception": "other"}

# which model errors an `except <class>` clause catches (the library's classes derive from the built-in ones; a *plain* built-in
# exception is `Err.other` in the model, which does not say which class it was: taken as not caught, see the generated docstring)
CATCHES = {"SerifKeyError": ["key"], "KeyError": ["key"], "SerifValueError": ["value"], "ValueError": ["value"],
           "SerifTypeError": ["type"], "TypeError": ["type"], "SerifIndexError": ["index"], "IndexError": ["index"],
           "LookupError": ["key", "index"], "SerifError": ["key", "value", "type", "index"]}

PAIRS = "List (List Cell × List Cell)"

SUPPORT = '''/-- what the translated functions ask of objects they do not own -/
structure Ops where
  /-- `table[name]` for a `str`: the column, or the exception raised -/
  getitem : Tab Cell → String → Except Err (List Cell)
  /-- `col.schema()`: `None` or a DataType -/
  schema : List Cell → Option DType
  /-- `len(table)` -/
  tlen : Tab Cell → Nat

/-- `enumerate(xs)` -/
def enumerateFrom {α : Type} : Nat → List α → List (Nat × α)
  | _, [] => []
  | k, a :: as => (k, a) :: enumerateFrom (k + 1) as

def enumerate {α : Type} (xs : List α) : List (Nat × α) := enumerateFrom 0 xs

/-- what the head of a join method hands to its loops -/
structure Head where
  pairs : List (List Cell × List Cell)
  left_keys : List (List Cell)
  right_keys : List (List Cell)
  validate_hashable : Bool
  check_right_unique : Bool
  check_left_unique : Bool
  deriving DecidableEq, Repr'''


def _u(n):
    return ast.unparse(n)


def _strip(stmts):
    """drop docstrings / bare string expressions and `pass`"""
    return [s for s in stmts if not (isinstance(s, ast.Expr) and isinstance(s.value, ast.Constant)) and not isinstance(s, ast.Pass)]


class _Msg(ast.NodeTransformer):
    """error messages do not matter: `raise X('…')` -> `raise X(…)`"""
    def visit_Raise(self, node):
        if isinstance(node.exc, ast.Call):
            node.exc.args, node.exc.keywords = [ast.Constant(value=...)], []
        return node


def _doc(title, stmts, limit=40):
    lines = []
    for s in stmts:
        lines += _u(_Msg().visit(ast.parse(_u(s)))).split("\n")
    if len(lines) > limit:
        lines = lines[:limit] + ["…"]
    body = "\n".join("      " + ln for ln in lines).replace("-/", "- /").replace("/-", "/ -")
    return "/-- " + title + "\n" + body + " -/\n"


def _always_exits(stmts):
    for s in stmts:
        if isinstance(s, (ast.Return, ast.Raise)):
            return True
        if isinstance(s, ast.If) and s.orelse and _always_exits(s.body) and _always_exits(s.orelse):
            return True
    return False


def _only_in_raises(f, names, what, allowed=()):
    """the given parameters / locals are read only inside `raise` statements (they feed messages) or inside the `allowed` nodes
    (arguments of local calls that were themselves shown to feed messages only; values of locals that feed messages only)"""
    inside = set()
    for r in list(ast.walk(f)) + list(allowed):
        if isinstance(r, ast.Raise) or any(r is x for x in allowed):
            for n in ast.walk(r):
                inside.add(id(n))
    for n in ast.walk(f):
        if isinstance(n, ast.Name) and n.id in names and isinstance(n.ctx, ast.Load) and id(n) not in inside:
            raise TranslateError(f"{what}: `{n.id}` is used outside an error message")


def _stores(f):
    """{name: number of binding occurrences} in a function body (assignments, loop / comprehension / with / except targets)"""
    out = {}
    for n in ast.walk(f):
        if isinstance(n, ast.Name) and isinstance(n.ctx, (ast.Store, ast.Del)):
            out[n.id] = out.get(n.id, 0) + 1
        elif isinstance(n, ast.ExceptHandler) and n.name:
            out[n.name] = out.get(n.name, 0) + 1
        elif isinstance(n, (ast.Global, ast.Nonlocal)):
            for x in n.names:
                out[x] = out.get(x, 0) + 99
        elif isinstance(n, (ast.FunctionDef, ast.ClassDef)) and n is not f:
            out[n.name] = out.get(n.name, 0) + 1
    return out


class _Tr:
    """statements over a typed environment -> Lean term text.

    types: onarg (a `left_on` / `right_on` argument), specs (the same, known to be a list), spec (one key spec), tab, col,
           cols (list of columns), optdtype (`schema()`), dtype, kind, kinds (tuple of classes), nat, pairs"""

    def __init__(self, what, exc_of, funcs=None, dt_names=()):
        self.what = what
        self.exc_of = exc_of            # raise statement -> "Err.x"
        self.funcs = funcs or {}        # python local function -> (lean name, [positions of the arguments kept], result type)
        self.dt_names = set(dt_names)   # names bound by `from datetime import …`

    def fail(self, msg, node=None):
        raise TranslateError(f"{self.what}: {msg}" + (": " + _u(node)[:70] if node is not None else ""))

    # ---- expressions -----------------------------------------------------------------------------
    def klass(self, node, env):
        if isinstance(node, ast.Name) and node.id not in env and node.id in KINDS:
            if node.id in ("date", "datetime") and node.id not in self.dt_names:
                self.fail(f"`{node.id}` is not imported from the datetime module")
            return KINDS[node.id]
        return None

    def expr(self, node, env):
        """-> (lean, type)"""
        if isinstance(node, ast.Name):
            if node.id in env:
                return _ln(node.id), env[node.id]
            k = self.klass(node, env)
            if k:
                return k, "kind"
            self.fail("unknown name", node)
        if isinstance(node, ast.Tuple) and node.elts and all(self.klass(e, env) for e in node.elts):
            return "[" + ", ".join(self.klass(e, env) for e in node.elts) + "]", "kinds"
        if isinstance(node, ast.Constant) and type(node.value) is int and node.value >= 0:
            return str(node.value), "nat"
        if isinstance(node, ast.Call) and not node.keywords:
            fn = _u(node.func)
            if fn == "len" and len(node.args) == 1:
                a, t = self.expr(node.args[0], env)
                if t in ("specs", "col", "cols", "pairs"):
                    return f"{a}.length", "nat"
                if t == "tab":
                    return f"O.tlen {a}", "nat"
                self.fail(f"len of a value of type {t}", node)
            if isinstance(node.func, ast.Attribute) and node.func.attr == "schema" and not node.args:
                a, t = self.expr(node.func.value, env)
                if t == "col":
                    return f"O.schema {a}", "optdtype"
        if isinstance(node, ast.Attribute) and node.attr == "kind":
            a, t = self.expr(node.value, env)
            if t == "dtype":
                return f"{a}.kind", "kind"
            self.fail(f".kind of a value of type {t} (may be None)", node)
        if isinstance(node, ast.BinOp) and isinstance(node.op, ast.Add):
            a, ta = self.expr(node.left, env)
            b, tb = self.expr(node.right, env)
            if ta == tb == "cols":
                return f"({a} ++ {b})", "cols"
        self.fail("expression", node)

    def subst(self, node, text, name):
        """replace every subtree that reads `text` by the name `name`"""
        class R(ast.NodeTransformer):
            def generic_visit(s, n):
                if isinstance(n, ast.expr) and _u(n) == text:
                    return ast.Name(id=name, ctx=ast.Load())
                return ast.NodeTransformer.generic_visit(s, n)
        return R().visit(ast.parse(_u(node), mode="eval").body)

    def cond(self, node, env):
        """-> lean Bool"""
        if isinstance(node, ast.UnaryOp) and isinstance(node.op, ast.Not):
            if isinstance(node.operand, ast.Name) and env.get(node.operand.id) == "specs":
                return f"{_ln(node.operand.id)}.isEmpty"                      # `not <list>`
            return f"!({self.cond(node.operand, env)})"
        if isinstance(node, ast.BoolOp):
            if isinstance(node.op, ast.Or) and self.is_none_test(node.values[0], env):
                # `X is None or … X.kind …`: the right operand is evaluated only when X is a DataType
                x = node.values[0].left
                a, _ = self.expr(x, env)
                rest = node.values[1:]
                rest = rest[0] if len(rest) == 1 else ast.BoolOp(op=ast.Or(), values=rest)
                fresh = "d_"
                while fresh in env:
                    fresh += "_"
                inner = self.cond(self.subst(rest, _u(x), fresh), dict(env, **{fresh: "dtype"}))
                return f"(match {a} with | none => true | some {fresh} => {inner})"
            op = " && " if isinstance(node.op, ast.And) else " || "
            return "(" + op.join(self.cond(v, env) for v in node.values) + ")"
        if isinstance(node, ast.Name) and env.get(node.id) == "specs":
            return f"!{_ln(node.id)}.isEmpty"
        if isinstance(node, ast.Call) and _u(node.func) == "isinstance" and len(node.args) == 2 and isinstance(node.args[0], ast.Name):
            v = node.args[0].id
            cls = node.args[1]
            names = frozenset(_u(x) for x in cls.elts) if isinstance(cls, ast.Tuple) else frozenset([_u(cls)])
            if env.get(v) == "onarg":
                if names == {"str", "Vector"}:
                    return f"(match {_ln(v)} with | .single _ => true | _ => false)"
                if names == {"list"}:
                    return f"(match {_ln(v)} with | .list _ => true | _ => false)"
            self.fail("isinstance test", node)
        if isinstance(node, ast.Compare) and len(node.ops) == 1:
            op, l, r = node.ops[0], node.left, node.comparators[0]
            if isinstance(r, ast.Constant) and r.value is None and isinstance(op, (ast.Is, ast.IsNot)):
                a, t = self.expr(l, env)
                if t != "optdtype":
                    self.fail("None test on a value that is never None", node)
                return f"{a}.isNone" if isinstance(op, ast.Is) else f"{a}.isSome"
            a, ta = self.expr(l, env)
            b, tb = self.expr(r, env)
            if ta == tb == "kind" and isinstance(op, (ast.Is, ast.Eq)):
                return f"({a} == {b})"
            if ta == tb == "kind" and isinstance(op, (ast.IsNot, ast.NotEq)):
                return f"({a} != {b})"
            if ta == "kind" and tb == "kinds" and isinstance(op, ast.In):
                return f"({b}.contains {a})"
            if ta == "kind" and tb == "kinds" and isinstance(op, ast.NotIn):
                return f"(!{b}.contains {a})"
            if ta == tb == "nat" and isinstance(op, ast.NotEq):
                return f"({a} != {b})"
            if ta == tb == "nat" and isinstance(op, ast.Eq):
                return f"({a} == {b})"
        self.fail("condition", node)

    def is_none_test(self, node, env):
        return (isinstance(node, ast.Compare) and len(node.ops) == 1 and isinstance(node.ops[0], ast.Is)
                and isinstance(node.comparators[0], ast.Constant) and node.comparators[0].value is None)

    # ---- statements ------------------------------------------------------------------------------
    def local_call(self, node, env):
        """a call of a translated local function -> (lean term, result type) or None"""
        if isinstance(node, ast.Call) and isinstance(node.func, ast.Name) and node.func.id in self.funcs and not node.keywords:
            lean, keep, nargs, rt = self.funcs[node.func.id]
            if len(node.args) != nargs:
                self.fail("arity of a local call", node)
            args = []
            for k in keep:
                a, t = self.expr(node.args[k[0]], env)
                if t != k[1]:
                    self.fail(f"argument {k[0]} of a local call has type {t}, expected {k[1]}", node)
                args.append(a)
            return f"{lean} O " + " ".join(args), rt
        return None

    def block(self, stmts, env, end, ind, state=None):
        """`end(env)`: the term for falling off the end.  `state`: the loop's accumulator name (may be appended to)."""
        pad = " " * ind
        stmts = _strip(stmts)
        if not stmts:
            return pad + end(env)
        s, rest = stmts[0], stmts[1:]
        cont = lambda e=env, i=ind: self.block(rest, e, end, i, state)
        if isinstance(s, ast.Raise):
            return pad + f".error {self.exc_of(s)}"
        if isinstance(s, ast.Return):
            if s.value is None:
                if self.ret != "unit":
                    self.fail("bare return")
                return pad + ".ok ()"
            a, t = self.expr(s.value, env)
            if t != self.ret:
                self.fail(f"returns a value of type {t}", s)
            return pad + f".ok {a}"
        if isinstance(s, ast.Expr):
            c = self.local_call(s.value, env)
            if c and c[1] == "unit":
                return pad + f"match {c[0]} with\n{pad}| .error e => .error e\n{pad}| .ok _ =>\n" + cont()
            # <acc>.append((a, b))
            v = s.value
            if isinstance(v, ast.Call) and isinstance(v.func, ast.Attribute) and v.func.attr == "append" and isinstance(v.func.value, ast.Name) \
                    and env.get(v.func.value.id) == "pairs" and len(v.args) == 1 and isinstance(v.args[0], ast.Tuple) and len(v.args[0].elts) == 2:
                n = v.func.value.id
                (a, ta), (b, tb) = (self.expr(x, env) for x in v.args[0].elts)
                if ta == tb == "col":
                    return pad + f"let {_ln(n)} := {_ln(n)} ++ [({a}, {b})]\n" + cont()
            self.fail("expression statement", s)
        if isinstance(s, ast.Assign) and len(s.targets) == 1 and isinstance(s.targets[0], ast.Name):
            n, v = s.targets[0].id, s.value
            if state is not None and n == state:
                self.fail("the accumulator of the loop is reassigned", s)
            c = self.local_call(v, env)
            if c and c[1] != "unit":
                return (pad + f"match {c[0]} with\n{pad}| .error e => .error e\n{pad}| .ok {_ln(n)} =>\n"
                        + self.block(rest, dict(env, **{n: c[1]}), end, ind, state))
            if isinstance(v, ast.List) and not v.elts:
                return pad + f"let {_ln(n)} : {PAIRS} := []\n" + self.block(rest, dict(env, **{n: "pairs"}), end, ind, state)
            if isinstance(v, ast.List) and len(v.elts) == 1 and isinstance(v.elts[0], ast.Name) and v.elts[0].id == n and env.get(n) == "onarg":
                self.fail("`x = [x]` outside its isinstance test", s)
            a, t = self.expr(v, env)
            return pad + f"let {_ln(n)} := {a}\n" + self.block(rest, dict(env, **{n: t}), end, ind, state)
        if isinstance(s, ast.If):
            return self.if_stmt(s, rest, env, end, ind, state)
        if isinstance(s, ast.For):
            return self.for_stmt(s, rest, env, end, ind, state)
        self.fail("statement", s)

    def if_stmt(self, s, rest, env, end, ind, state):
        pad = " " * ind
        t = s.test
        body, orelse = _strip(s.body), _strip(s.orelse)
        # `if isinstance(x, (str, Vector)): x = [x]`
        if isinstance(t, ast.Call) and _u(t.func) == "isinstance" and isinstance(t.args[0], ast.Name) and env.get(t.args[0].id) == "onarg" \
                and not orelse and len(body) == 1 and _u(body[0]) == f"{t.args[0].id} = [{t.args[0].id}]":
            cls = t.args[1]
            names = frozenset(_u(x) for x in cls.elts) if isinstance(cls, ast.Tuple) else frozenset([_u(cls)])
            if names != {"str", "Vector"}:
                self.fail("classes wrapped into a list", t)
            x = _ln(t.args[0].id)
            return (pad + f"let {x} := match {x} with\n{pad}  | .single {x} => OnArg.list [{x}]\n{pad}  | {x} => {x}\n"
                    + self.block(rest, env, end, ind, state))
        # `if not (isinstance(a, list) and isinstance(b, list)): raise …`: from here on both are lists
        if isinstance(t, ast.UnaryOp) and isinstance(t.op, ast.Not) and isinstance(t.operand, ast.BoolOp) and isinstance(t.operand.op, ast.And) \
                and not orelse and len(body) == 1 and isinstance(body[0], ast.Raise):
            names = []
            for v in t.operand.values:
                if isinstance(v, ast.Call) and _u(v.func) == "isinstance" and len(v.args) == 2 and isinstance(v.args[0], ast.Name) \
                        and env.get(v.args[0].id) == "onarg" and _u(v.args[1]) == "list":
                    names.append(v.args[0].id)
                else:
                    names = None
                    break
            if names and len(set(names)) == len(names):
                env2 = dict(env, **{n: "specs" for n in names})
                scrut = ", ".join(_ln(n) for n in names)
                pat = ", ".join(f".list {_ln(n)}" for n in names)
                wild = ", ".join("_" for _ in names)
                return (pad + f"match {scrut} with\n{pad}| {pat} =>\n{pad}  (\n" + self.block(rest, env2, end, ind + 4, state)
                        + f"\n{pad}  )\n{pad}| {wild} => .error {self.exc_of(body[0])}")
        # `if x is None: <exit>` / `if a is not None and b is not None: …` on optional schemas
        if self.is_none_test(t, env) and isinstance(t.left, ast.Name) and env.get(t.left.id) == "optdtype" and not orelse and _always_exits(body):
            n = t.left.id
            return (pad + f"match {_ln(n)} with\n{pad}| none =>\n{pad}  (\n" + self.block(body, env, end, ind + 4, state) + f"\n{pad}  )\n{pad}| some {_ln(n)} =>\n"
                    + self.block(rest, dict(env, **{n: "dtype"}), end, ind, state))
        vals = t.values if isinstance(t, ast.BoolOp) and isinstance(t.op, ast.And) else [t]
        if all(isinstance(v, ast.Compare) and len(v.ops) == 1 and isinstance(v.ops[0], ast.IsNot) and isinstance(v.comparators[0], ast.Constant)
               and v.comparators[0].value is None and isinstance(v.left, ast.Name) and env.get(v.left.id) == "optdtype" for v in vals):
            names = [v.left.id for v in vals]
            if len(set(names)) != len(names):
                self.fail("None tests", t)
            env2 = dict(env, **{n: "dtype" for n in names})
            scrut = ", ".join(_ln(n) for n in names)
            pat = ", ".join(f"some {_ln(n)}" for n in names)
            wild = ", ".join("_" for _ in names)
            then = body if _always_exits(body) else body + rest
            els = rest if not orelse else orelse if _always_exits(orelse) else orelse + rest
            return (pad + f"match {scrut} with\n{pad}| {pat} =>\n{pad}  (\n" + self.block(then, env2, end, ind + 4, state) + f"\n{pad}  )\n{pad}| {wild} =>\n"
                    + self.block(els, env, end, ind + 2, state))
        c = self.cond(t, env)
        then = body if _always_exits(body) else body + rest
        els = rest if not orelse else orelse if _always_exits(orelse) else orelse + rest
        return pad + f"if {c} then\n" + self.block(then, env, end, ind + 2, state) + f"\n{pad}else\n" + self.block(els, env, end, ind, state)

    def for_stmt(self, s, rest, env, end, ind, state):
        self.fail("loop", s)


# ---------------------------------------------------------------------------------------------
# helpers at module / class level
# ---------------------------------------------------------------------------------------------
def _exc_class(node, helpers, what):
    """the model error of the exception object built by `node` (`X(…)`, `X`, or a call of a translated helper)"""
    name = node.func.id if isinstance(node, ast.Call) and isinstance(node.func, ast.Name) else node.id if isinstance(node, ast.Name) else None
    if name in helpers:
        return helpers[name]
    if name in ERR:
        return "Err." + ERR[name]
    raise TranslateError(f"{what}: raises " + _u(node)[:50])


def translate_missing_col_error(tree):
    f = find_func(tree, "_missing_col_error")
    body = _strip(f.body)
    if not (len(body) == 1 and isinstance(body[0], ast.Return) and isinstance(body[0].value, ast.Call)):
        raise TranslateError("_missing_col_error: body is not a single `return <Exception>(…)`")
    e = _exc_class(body[0].value, {}, "_missing_col_error")
    return [_doc("translated from `_missing_col_error` (the class of the exception object it returns):", [_Msg_ret().visit(ast.parse(_u(body[0])))])
            + f"def missingColErrorT : Err := {e}"]


class _Msg_ret(ast.NodeTransformer):
    def visit_Return(self, node):
        if isinstance(node.value, ast.Call):
            node.value.args, node.value.keywords = [ast.Constant(value=...)], []
        return node


def _spec_chain(f, var, what):
    """if / elif chain of `isinstance(var, C)` tests -> {class: body}, else-body"""
    body = _strip(f.body)
    if not (len(body) == 1 and isinstance(body[0], ast.If)):
        raise TranslateError(f"{what}: body is not one if / elif chain")
    s, arms = body[0], []
    while True:
        t = s.test
        if not (isinstance(t, ast.Call) and _u(t.func) == "isinstance" and len(t.args) == 2 and _u(t.args[0]) == var and isinstance(t.args[1], ast.Name)):
            raise TranslateError(f"{what}: test " + _u(t)[:60])
        arms.append((t.args[1].id, _strip(s.body)))
        if len(s.orelse) == 1 and isinstance(s.orelse[0], ast.If):
            s = s.orelse[0]
        else:
            return arms, _strip(s.orelse)


def translate_resolve_column(tree):
    f = find_func(tree, "_resolve_column", "Table")
    a = [x.arg for x in f.args.args]
    if len(a) != 2:
        raise TranslateError("_resolve_column: arguments")
    S, V = a
    arms, orelse = _spec_chain(f, V, "_resolve_column")
    out, seen = [], set()
    for cls, body in arms:
        if cls in seen or cls not in ("str", "Vector"):
            raise TranslateError("_resolve_column: class " + cls)
        seen.add(cls)
        if len(body) != 1:
            raise TranslateError("_resolve_column: branch for " + cls)
        b = body[0]
        if cls == "str":
            if isinstance(b, ast.Return) and _u(b.value) == f"{S}[{V}]":
                out.append(f"  | .name {_ln(V)} => O.getitem {_ln(S)} {_ln(V)}")
            elif isinstance(b, ast.Raise):
                out.append(f"  | .name {_ln(V)} => .error {_exc_class(b.exc, {}, '_resolve_column')}")
            else:
                raise TranslateError("_resolve_column: str branch " + _u(b)[:60])
        else:
            if isinstance(b, ast.Return) and _u(b.value) == V:
                out.append(f"  | .vec {_ln(V)} => .ok {_ln(V)}")
            elif isinstance(b, ast.Raise):
                out.append(f"  | .vec {_ln(V)} => .error {_exc_class(b.exc, {}, '_resolve_column')}")
            else:
                raise TranslateError("_resolve_column: Vector branch " + _u(b)[:60])
    if not (len(orelse) == 1 and isinstance(orelse[0], ast.Raise)):
        raise TranslateError("_resolve_column: the else branch does not raise")
    out.append(f"  | _ => .error {_exc_class(orelse[0].exc, {}, '_resolve_column')}")
    return [_doc("translated from `Table._resolve_column` (`KeySpec` records the `isinstance` class of `spec`: `.name` a str, `.vec` a\n"
                 "    Vector, `.bad` anything else, which falls through the chain):", _strip(f.body))
            + f"def resolveColumnT (O : Ops) ({_ln(S)} : Tab Cell) ({_ln(V)} : KeySpec) : Except Err (List Cell) :=\n  match {_ln(V)} with\n" + "\n".join(out)]


# ---------------------------------------------------------------------------------------------
# Table._validate_join_keys
# ---------------------------------------------------------------------------------------------
def _datetime_names(tree, f):
    names = set()
    for s in list(tree.body) + list(f.body):
        if isinstance(s, ast.ImportFrom) and s.module == "datetime" and s.level == 0:
            for a in s.names:
                if a.asname in (None, a.name):
                    names.add(a.name)
    return names


def translate_get_column(g, helpers):
    a = [x.arg for x in g.args.args]
    if len(a) != 3 or g.args.defaults or g.args.kwonlyargs or g.args.vararg or g.args.kwarg:
        raise TranslateError("get_column: arguments")
    T, C, side = a
    _only_in_raises(g, {side}, "get_column")
    body = _strip(g.body)
    if not (len(body) == 1 and isinstance(body[0], ast.Try)):
        raise TranslateError("get_column: body is not one try statement")
    tr = body[0]
    if tr.orelse or tr.finalbody or len(tr.handlers) != 1 or len(tr.body) != 1:
        raise TranslateError("get_column: shape of the try statement")
    if not (isinstance(tr.body[0], ast.Return) and _u(tr.body[0].value) == f"{T}._resolve_column({C})"):
        raise TranslateError("get_column: try body is not `return table._resolve_column(col_spec)`")
    h = tr.handlers[0]
    if h.type is None:
        raise TranslateError("get_column: bare except")
    classes = [_u(x) for x in h.type.elts] if isinstance(h.type, ast.Tuple) else [_u(h.type)]
    caught = []
    for c in classes:
        if c not in CATCHES:
            raise TranslateError("get_column: handler class " + c)
        caught += [x for x in CATCHES[c] if x not in caught]
    hb = _strip(h.body)
    if not (len(hb) == 1 and isinstance(hb[0], ast.Raise) and hb[0].exc is not None):
        raise TranslateError("get_column: handler is not a single `raise <exception>`")
    e = _exc_class(hb[0].exc, helpers, "get_column")
    test = " || ".join(f"e == Err.{x}" for x in caught)
    return (_doc("translated from `get_column` (inner function of `Table._validate_join_keys`; `side_name` only feeds the message).  The\n"
                 f"    handler `except {_u(h.type)}` catches the model errors {', '.join('Err.' + x for x in caught)} (the library's classes derive from the\n"
                 "    built-in ones; a plain built-in exception is `Err.other`, which `table[name]` of the model never raises):", body)
            + f"def getColumnT (O : Ops) ({_ln(T)} : Tab Cell) ({_ln(C)} : KeySpec) : Except Err (List Cell) :=\n"
            f"  match resolveColumnT O {_ln(T)} {_ln(C)} with\n  | .ok v => .ok v\n  | .error e => if {test} then .error {e} else .error e")


def translate_validate_key_dtype(g, dt_names):
    a = [x.arg for x in g.args.args]
    if len(a) != 3 or g.args.defaults or g.args.kwonlyargs or g.args.vararg or g.args.kwarg:
        raise TranslateError("validate_key_dtype: arguments")
    C, side, idx = a
    _only_in_raises(g, {side, idx}, "validate_key_dtype")
    st = _stores(g)
    if any(v > 1 for v in st.values()):
        raise TranslateError("validate_key_dtype: a local is bound twice")
    t = _Tr("validate_key_dtype", lambda r: _exc_class(r.exc, {}, "validate_key_dtype"), dt_names=dt_names)
    t.ret = "unit"
    body = t.block(g.body, {C: "col"}, lambda env: ".ok ()", 2)
    return (_doc("translated from `validate_key_dtype` (inner function of `Table._validate_join_keys`; `side_name` and `idx` only feed the\n"
                 "    messages; a class is a `Kind`, `is` / `in` on classes is `==` / `contains`):", _strip(g.body))
            + f"def validateKeyDtypeT (O : Ops) ({_ln(C)} : List Cell) : Except Err Unit :=\n" + body)


class _MainTr(_Tr):
    """the body of `_validate_join_keys`: adds the one loop it has"""
    def for_stmt(self, s, rest, env, end, ind, state):
        pad = " " * ind
        if s.orelse or state is not None:
            self.fail("loop", s)
        tg = s.target
        if not (isinstance(tg, ast.Tuple) and len(tg.elts) == 2 and isinstance(tg.elts[0], ast.Name) and isinstance(tg.elts[1], ast.Tuple)
                and len(tg.elts[1].elts) == 2 and all(isinstance(x, ast.Name) for x in tg.elts[1].elts)):
            self.fail("loop target", tg)
        i, l, r = tg.elts[0].id, tg.elts[1].elts[0].id, tg.elts[1].elts[1].id
        it = s.iter
        if not (isinstance(it, ast.Call) and _u(it.func) == "enumerate" and len(it.args) == 1 and not it.keywords and isinstance(it.args[0], ast.Call)
                and _u(it.args[0].func) == "zip" and len(it.args[0].args) == 2 and not it.args[0].keywords
                and all(isinstance(x, ast.Name) and env.get(x.id) == "specs" for x in it.args[0].args)):
            self.fail("loop iterable", it)
        za, zb = (x.id for x in it.args[0].args)
        accs = [n for n, t in env.items() if t == "pairs"]
        if len(accs) != 1 or len({i, l, r, accs[0]}) != 4 or any(x in env for x in (i, l, r)):
            self.fail("loop variables", s)
        acc = accs[0]
        # the index feeds messages and the message-only arguments of the local functions, nothing else
        dropped = []
        for n in ast.walk(s):
            if isinstance(n, ast.Call) and isinstance(n.func, ast.Name) and n.func.id in self.funcs:
                keep = {k[0] for k in self.funcs[n.func.id][1]}
                dropped += [x for j, x in enumerate(n.args) if j not in keep]
        _only_in_raises(s, {i}, self.what + " loop", dropped)
        # the body may bind fresh locals only, each once
        st = _stores(ast.Module(body=s.body, type_ignores=[]))
        for n, k in st.items():
            if n in env or n in (i, l, r) or k != 1:
                self.fail(f"the loop body rebinds `{n}`")
        tabs = [n for n, t in env.items() if t == "tab"]
        env2 = {n: "tab" for n in tabs}
        env2.update({acc: "pairs", l: "spec", r: "spec"})
        body = self.block(s.body, env2, lambda e: f".ok {_ln(acc)}", 2, state=acc)
        params = " ".join(f"({_ln(n)} : Tab Cell)" for n in tabs)
        self.loop_def = (
            _doc(f"translated from the body of `for {_u(tg)} in {_u(it)}` of `Table._validate_join_keys` (state: `{acc}`; `{i}` only\n"
                 "    feeds messages):", _strip(s.body), 60)
            + f"def pairStepT (O : Ops) {params} ({_ln(acc)} : {PAIRS}) ({_ln(i)} : Nat) ({_ln(l)} {_ln(r)} : KeySpec) :\n"
            f"    Except Err ({PAIRS}) :=\n" + body)
        call = f"pairStepT O {' '.join(_ln(n) for n in tabs)} {_ln(acc)} p.1 p.2.1 p.2.2"
        return (pad + f"match (enumerate (List.zip {_ln(za)} {_ln(zb)})).foldlM (fun {_ln(acc)} p => {call}) {_ln(acc)} with\n"
                + pad + "| .error e => .error e\n" + pad + f"| .ok {_ln(acc)} =>\n" + self.block(rest, env, end, ind, state))


def translate_validate_join_keys(tree, helpers):
    f = find_func(tree, "_validate_join_keys", "Table")
    a = [x.arg for x in f.args.args]
    if len(a) != 4 or f.args.defaults or f.args.kwonlyargs or f.args.vararg or f.args.kwarg:
        raise TranslateError("_validate_join_keys: arguments")
    S, Oth, LO, RO = a
    dt = _datetime_names(tree, f)
    inner = {g.name: g for g in f.body if isinstance(g, ast.FunctionDef)}
    main = [s for s in _strip(f.body) if not isinstance(s, (ast.FunctionDef, ast.Import, ast.ImportFrom))]
    for s in f.body:
        if isinstance(s, (ast.Import, ast.ImportFrom)) and not (isinstance(s, ast.ImportFrom) and s.module == "datetime" and s.level == 0):
            raise TranslateError("_validate_join_keys: import " + _u(s))
    if set(inner) != {"get_column", "validate_key_dtype"}:
        raise TranslateError("_validate_join_keys: inner functions " + ", ".join(sorted(inner)))
    # the inner functions are defined once, before the first statement that runs, and never rebound
    first = min(f.body.index(s) for s in main)
    if any(f.body.index(g) > first for g in inner.values()):
        raise TranslateError("_validate_join_keys: an inner function is defined after the first statement")
    st = _stores(ast.Module(body=main, type_ignores=[]))
    for n in (S, Oth, "get_column", "validate_key_dtype"):
        if n in st:
            raise TranslateError(f"_validate_join_keys: `{n}` is rebound")
    out = [translate_get_column(inner["get_column"], helpers), translate_validate_key_dtype(inner["validate_key_dtype"], dt)]
    t = _MainTr("_validate_join_keys", lambda r: _exc_class(r.exc, helpers, "_validate_join_keys"),
                funcs={"get_column": ("getColumnT", [(0, "tab"), (1, "spec")], 3, "col"),
                       "validate_key_dtype": ("validateKeyDtypeT", [(0, "col")], 3, "unit")}, dt_names=dt)
    t.ret = "pairs"
    t.loop_def = None

    def end(env):
        raise TranslateError("_validate_join_keys: falls off the end without `return`")
    body = t.block(main, {S: "tab", Oth: "tab", LO: "onarg", RO: "onarg"}, end, 2)
    if t.loop_def is None:
        raise TranslateError("_validate_join_keys: no loop over the key pairs")
    out.append(t.loop_def)
    out.append(_doc("translated from `Table._validate_join_keys` (`OnArg` records the `isinstance` class of `left_on` / `right_on`: `.single`\n"
                    "    a str or Vector, `.list` a list, `.other` anything else; after the `isinstance(…, list)` test both are lists):", main, 60)
               + f"def validateJoinKeysT (O : Ops) ({_ln(S)} {_ln(Oth)} : Tab Cell) ({_ln(LO)} {_ln(RO)} : OnArg) : Except Err ({PAIRS}) :=\n" + body)
    return out


# ---------------------------------------------------------------------------------------------
# Table._validate_key_tuple_hashable
# ---------------------------------------------------------------------------------------------
def _hash_try(s, what):
    """`try: hash(X)  except TypeError [as e]: H` -> (X, H)"""
    if not (isinstance(s, ast.Try) and not s.orelse and not s.finalbody and len(s.handlers) == 1 and len(s.body) == 1
            and isinstance(s.body[0], ast.Expr) and isinstance(s.body[0].value, ast.Call) and _u(s.body[0].value.func) == "hash"
            and len(s.body[0].value.args) == 1 and isinstance(s.body[0].value.args[0], ast.Name) and not s.body[0].value.keywords):
        raise TranslateError(f"{what}: expected `try: hash(<name>)` with one handler")
    h = s.handlers[0]
    if h.type is None or _u(h.type) != "TypeError":
        raise TranslateError(f"{what}: the handler does not catch exactly TypeError")
    return s.body[0].value.args[0].id, _strip(h.body)


def translate_hashable(tree):
    what = "_validate_key_tuple_hashable"
    f = find_func(tree, what, "Table")
    a = [x.arg for x in f.args.args]
    if len(a) != 3 or f.args.defaults or f.args.kwonlyargs or f.args.vararg or f.args.kwarg:
        raise TranslateError(what + ": arguments")
    if not any(_u(d) == "staticmethod" for d in f.decorator_list):
        raise TranslateError(what + ": not a staticmethod")
    KT, KC, RI = a
    _only_in_raises(f, {RI}, what)
    body = _strip(f.body)
    if len(body) != 1:
        raise TranslateError(what + ": body is not one try statement")
    x, hb = _hash_try(body[0], what)
    if x != KT:
        raise TranslateError(what + ": the outer try does not hash the key tuple")
    if not (len(hb) == 2 and isinstance(hb[0], ast.For) and isinstance(hb[1], ast.Raise) and not hb[0].orelse):
        raise TranslateError(what + ": handler is not `for …: …` followed by `raise`")
    loop, last = hb
    tg = loop.target
    if not (isinstance(tg, ast.Tuple) and len(tg.elts) == 2 and isinstance(tg.elts[0], ast.Name) and isinstance(tg.elts[1], ast.Tuple)
            and len(tg.elts[1].elts) == 2 and all(isinstance(z, ast.Name) for z in tg.elts[1].elts)
            and _u(loop.iter) == f"enumerate(zip({KT}, {KC}))"):
        raise TranslateError(what + ": loop header " + _u(loop.target) + " in " + _u(loop.iter))
    i, comp, col = tg.elts[0].id, tg.elts[1].elts[0].id, tg.elts[1].elts[1].id
    if len({i, comp, col, KT, KC, RI}) != 6:
        raise TranslateError(what + ": loop variables")
    lb = _strip(loop.body)
    if len(lb) != 1:
        raise TranslateError(what + ": loop body is not one try statement")
    y, ib = _hash_try(lb[0], what)
    if y != comp:
        raise TranslateError(what + ": the inner try does not hash the component")
    # the inner handler: locals that only feed the message, then raise
    msg_locals, msg_values = set(), []
    for s in ib[:-1]:
        if not (isinstance(s, ast.Assign) and len(s.targets) == 1 and isinstance(s.targets[0], ast.Name)
                and not any(isinstance(n, ast.Call) for n in ast.walk(s.value))):
            raise TranslateError(what + ": inner handler statement " + _u(s)[:60])
        msg_locals.add(s.targets[0].id)
        msg_values.append(s.value)
    if not ib or not isinstance(ib[-1], ast.Raise) or ib[-1].exc is None:
        raise TranslateError(what + ": inner handler does not end with raise")
    _only_in_raises(f, msg_locals | {i, col}, what, msg_values)
    e_in = _exc_class(ib[-1].exc, {}, what)
    e_out = _exc_class(last.exc, {}, what)
    step = (_doc(f"translated from the body of `for {_u(tg)} in {_u(loop.iter)}` in the handler of `Table._validate_key_tuple_hashable`\n"
                 f"    (`hash_ok x`: `hash(x)` returns; `false`: it raises TypeError; `{i}`, `{col}` and the locals of the inner handler only feed\n"
                 "    the message):", lb)
            + f"def hashComponentStepT {{α β : Type}} (hash_ok : α → Bool) ({_ln(i)} : Nat) ({_ln(comp)} : α) ({_ln(col)} : β) : Except Err Unit :=\n"
            f"  if hash_ok {_ln(comp)} then .ok ()\n  else .error {e_in}")
    main = (_doc("translated from `Table._validate_key_tuple_hashable` (`hash_tuple_ok t`: `hash(t)` of the key tuple returns; `false`: it\n"
                 f"    raises TypeError; `{RI}` only feeds the messages):", body)
            + f"def validateKeyTupleHashableT {{α β : Type}} (hash_tuple_ok : List α → Bool) (hash_ok : α → Bool)\n"
            f"    ({_ln(KT)} : List α) ({_ln(KC)} : List β) : Except Err Unit :=\n"
            f"  if hash_tuple_ok {_ln(KT)} then .ok ()\n  else\n"
            f"    match (enumerate (List.zip {_ln(KT)} {_ln(KC)})).foldlM (fun (_ : Unit) p => hashComponentStepT hash_ok p.1 p.2.1 p.2.2) () with\n"
            f"    | .error e => .error e\n    | .ok _ => .error {e_out}")
    return [step, main]


# ---------------------------------------------------------------------------------------------
# heads of inner_join / join / full_join
# ---------------------------------------------------------------------------------------------
def _str_tuple(node, what):
    if not (isinstance(node, (ast.Tuple, ast.List)) and all(isinstance(e, ast.Constant) and isinstance(e.value, str) for e in node.elts)):
        raise TranslateError(f"{what}: membership test against " + _u(node)[:60])
    return "[" + ", ".join('"' + e.value.replace("\\", "\\\\").replace('"', '\\"') + '"' for e in node.elts) + "]"


PURE_CALLS = ("len", "set", "range")


def _harmless(s, protected):
    """a statement of the head that is not translated: binds other locals from pure expressions, cannot exit"""
    for n in ast.walk(s):
        if isinstance(n, (ast.Raise, ast.Return, ast.Try, ast.With, ast.While, ast.For, ast.Yield, ast.Await, ast.Delete, ast.Global, ast.Nonlocal)):
            return False
        if isinstance(n, ast.Name) and isinstance(n.ctx, ast.Store) and n.id in protected:
            return False
        if isinstance(n, ast.Call) and not (_u(n.func) in PURE_CALLS):
            return False
        if isinstance(n, ast.Subscript) and isinstance(n.ctx, ast.Store):
            return False
    return isinstance(s, (ast.Assign, ast.If))


def translate_head(tree, meth, tag):
    f = find_func(tree, meth, "Table")
    a = [x.arg for x in f.args.args]
    if len(a) != 5 or f.args.kwonlyargs or f.args.vararg or f.args.kwarg:
        raise TranslateError(f"{meth}: arguments")
    S, Oth, LO, RO, EX = a
    st = _stores(f)
    for n in a:
        if n in st:
            raise TranslateError(f"{meth}: the parameter `{n}` is rebound")
    body = _strip(f.body)
    # 1. the expect test comes first
    s0 = body[0]
    if not (isinstance(s0, ast.If) and not s0.orelse and isinstance(s0.test, ast.Compare) and len(s0.test.ops) == 1
            and isinstance(s0.test.ops[0], ast.NotIn) and _u(s0.test.left) == EX and len(_strip(s0.body)) == 1
            and isinstance(_strip(s0.body)[0], ast.Raise)):
        raise TranslateError(f"{meth}: the first statement is not `if expect not in (…): raise …`")
    valid = _str_tuple(s0.test.comparators[0], meth)
    e0 = _exc_class(_strip(s0.body)[0].exc, {}, meth)
    # 2. then the key validation
    s1 = body[1]
    if not (isinstance(s1, ast.Assign) and len(s1.targets) == 1 and isinstance(s1.targets[0], ast.Name)
            and _u(s1.value) == f"{S}._validate_join_keys({Oth}, {LO}, {RO})"):
        raise TranslateError(f"{meth}: the second statement is not `pairs = self._validate_join_keys(other, left_on, right_on)`")
    P = s1.targets[0].id
    lines = [f"  if !({valid}.contains {_ln(EX)}) then .error {e0}", "  else",
             f"  match validateJoinKeysT O {_ln(S)} {_ln(Oth)} {_ln(LO)} {_ln(RO)} with", "  | .error e => .error e", f"  | .ok {_ln(P)} =>"]
    quoted = [s0, s1]
    got = {}            # field -> local name
    env = {P: "pairs"}
    tr = _Tr(meth, None)
    first_loop = next((k for k, s in enumerate(body) if isinstance(s, ast.For)), None)
    if first_loop is None:
        raise TranslateError(f"{meth}: no loop")
    protected = set(a) | {P}
    top = body[2:]
    for k, s in enumerate(top):
        idx = k + 2
        if isinstance(s, ast.Assign) and len(s.targets) == 1 and isinstance(s.targets[0], ast.Name):
            n, v = s.targets[0].id, s.value
            # [lk for lk, _ in pairs] / [rk for _, rk in pairs]
            if isinstance(v, ast.ListComp) and len(v.generators) == 1 and _u(v.generators[0].iter) == P and not v.generators[0].ifs \
                    and not v.generators[0].is_async and isinstance(v.generators[0].target, ast.Tuple) and len(v.generators[0].target.elts) == 2 \
                    and all(isinstance(z, ast.Name) for z in v.generators[0].target.elts) and isinstance(v.elt, ast.Name):
                x, y = (z.id for z in v.generators[0].target.elts)
                if x == y or v.elt.id not in (x, y):
                    raise TranslateError(f"{meth}: comprehension " + _u(v))
                side = "left_keys" if v.elt.id == x else "right_keys"
                if side in got or idx > first_loop or st.get(n) != 1:
                    raise TranslateError(f"{meth}: `{n}` (the {side} of the pairs) is bound twice or after the first loop")
                got[side] = n
                env[n] = "cols"
                protected.add(n)
                lines.append(f"  let {_ln(n)} := {_ln(P)}.map (fun ({_ln(x)}, {_ln(y)}) => {_ln(v.elt.id)})")
                quoted.append(s)
                continue
            # any(<cond> for col in left_keys + right_keys)
            if isinstance(v, ast.Call) and _u(v.func) == "any" and len(v.args) == 1 and isinstance(v.args[0], ast.GeneratorExp) and not v.keywords:
                g = v.args[0]
                if not (len(g.generators) == 1 and not g.generators[0].ifs and isinstance(g.generators[0].target, ast.Name) and not g.generators[0].is_async):
                    raise TranslateError(f"{meth}: generator " + _u(g)[:60])
                it, t = tr.expr(g.generators[0].iter, env)
                if t != "cols":
                    raise TranslateError(f"{meth}: `any` over " + _u(g.generators[0].iter))
                c = g.generators[0].target.id
                if c in env or c in a:
                    raise TranslateError(f"{meth}: generator variable `{c}`")
                if "validate_hashable" in got or idx > first_loop or st.get(n) != 1:
                    raise TranslateError(f"{meth}: `{n}` is bound twice or after the first loop")
                got["validate_hashable"] = n
                protected.add(n)
                lines.append(f"  let {_ln(n)} := {it}.any (fun {_ln(c)} => {tr.cond(g.elt, dict(env, **{c: 'col'}))})")
                quoted.append(s)
                continue
            # expect in (…)
            if isinstance(v, ast.Compare) and _u(v.left) == EX:
                if not (len(v.ops) == 1 and isinstance(v.ops[0], ast.In)):
                    raise TranslateError(f"{meth}: test on expect " + _u(v)[:60])
                side = "check_right_unique" if "right" in n.lower() else "check_left_unique" if "left" in n.lower() else None
                if side is None or side in got or st.get(n) != 1:
                    raise TranslateError(f"{meth}: flag `{n}`")
                got[side] = n
                protected.add(n)
                lines.append(f"  let {_ln(n)} := {_str_tuple(v.comparators[0], meth)}.contains {_ln(EX)}")
                quoted.append(s)
                continue
        # everything else belongs to the loops / the assembly (Serif.Tie.Join, Serif.Tie.Assemble); before the first loop it must be
        # harmless, anywhere it must not touch what the head computes or read `expect` outside an error message
        if idx < first_loop and not _harmless(s, protected):
            raise TranslateError(f"{meth}: statement before the first loop: " + _u(s)[:60])
        for n in ast.walk(s):
            if isinstance(n, ast.Name) and isinstance(n.ctx, ast.Store) and n.id in protected | set(got.values()):
                raise TranslateError(f"{meth}: `{n.id}` is rebound")
            if isinstance(n, ast.Call) and "_validate_join_keys" in _u(n.func):
                raise TranslateError(f"{meth}: second key validation")
    _only_in_raises(ast.Module(body=top, type_ignores=[]), set(), meth)
    # `expect` is read only by the translated tests and inside messages
    quoted_ids = {id(n) for s in quoted for n in ast.walk(s)}
    inside = {id(n) for r in ast.walk(f) if isinstance(r, ast.Raise) for n in ast.walk(r)}
    for n in ast.walk(f):
        if isinstance(n, ast.Name) and n.id == EX and id(n) not in quoted_ids and id(n) not in inside:
            raise TranslateError(f"{meth}: `{EX}` is read outside the translated tests")
    need = ["left_keys", "right_keys", "validate_hashable", "check_right_unique", "check_left_unique"]
    missing = [x for x in need if x not in got]
    if missing:
        raise TranslateError(f"{meth}: not found: " + ", ".join(missing))
    # the guarded calls of the hashability check inside the loops: all of one shape, and the flag is read nowhere else
    VH = got["validate_hashable"]
    guards = [n for n in ast.walk(f) if isinstance(n, ast.If) and isinstance(n.test, ast.Name) and n.test.id == VH]
    guard_ids = {id(g.test) for g in guards}
    for n in ast.walk(f):
        if isinstance(n, ast.Name) and n.id == VH and isinstance(n.ctx, ast.Load) and id(n) not in guard_ids:
            raise TranslateError(f"{meth}: `{VH}` is read outside `if {VH}: …`")
    sides = set()
    for g in guards:
        gb = _strip(g.body)
        c = gb[0].value if len(gb) == 1 and isinstance(gb[0], ast.Expr) else None
        if not (not g.orelse and isinstance(c, ast.Call) and _u(c.func) in ("Table._validate_key_tuple_hashable", f"{S}._validate_key_tuple_hashable")
                and len(c.args) == 3 and not c.keywords and all(isinstance(x, ast.Name) for x in c.args)
                and c.args[1].id in (got["left_keys"], got["right_keys"])):
            raise TranslateError(f"{meth}: guarded statement " + _u(g)[:80])
        sides.add(c.args[1].id)
    if sides != {got["left_keys"], got["right_keys"]}:
        raise TranslateError(f"{meth}: the hashability check does not guard both the build loop and the probe loop")
    guard_def = (_doc(f"translated from the {len(guards)} guarded calls in the loops of `Table.{meth}` (all of this shape; `key_cols` is `{got['right_keys']}` in the\n"
                      f"    build loop and `{got['left_keys']}` in the probe loop; the row index only feeds the messages):", [guards[0]])
                 + f"def hashGuardT{tag} {{α β : Type}} (hash_tuple_ok : List α → Bool) (hash_ok : α → Bool) ({_ln(VH)} : Bool)\n"
                 f"    (key : List α) (key_cols : List β) : Except Err Unit :=\n"
                 f"  if {_ln(VH)} then validateKeyTupleHashableT hash_tuple_ok hash_ok key key_cols\n  else .ok ()")
    fields = ", ".join([f"pairs := {_ln(P)}"] + [f"{x} := {_ln(got[x])}" for x in need])
    lines.append(f"  .ok {{ {fields} }}")
    return [_doc(f"translated from the head of `Table.{meth}`: the statements outside its loops that decide whether the call proceeds and with\n"
                 "    which flags, in source order (the loops between them are `Serif.Gen.TR`; the other statements before the first loop only\n"
                 "    bind locals from `len` / `set` / `range` and cannot exit):", quoted, 60)
            + f"def joinHeadT{tag} (O : Ops) ({_ln(S)} {_ln(Oth)} : Tab Cell) ({_ln(LO)} {_ln(RO)} : OnArg) ({_ln(EX)} : String) : Except Err Head :=\n"
            + "\n".join(lines), guard_def]


# ---------------------------------------------------------------------------------------------
def generate(src_dir):
    parts, errors = [SUPPORT], []
    try:
        tree = ast.parse(open(os.path.join(src_dir, "table.py")).read())
    except Exception as ex:
        tree = None
        errors.append(("table.py", f"{type(ex).__name__}: {ex}"))
        parts.append(f"-- table.py: not parsed ({type(ex).__name__})")
    if tree is not None:
        helpers = {}
        have = set()

        def missing(t):
            out = translate_missing_col_error(t)
            helpers["_missing_col_error"] = "missingColErrorT"
            return out

        def head(meth, tag):
            def fn(t):
                h, g = translate_head(t, meth, tag)
                if "validateKeyTupleHashableT" not in have:
                    errors.append((f"Table.{meth} hashability guard", "depends on Table._validate_key_tuple_hashable, which is not translated"))
                    return [h, f"-- Table.{meth} hashability guard: not translated (Table._validate_key_tuple_hashable is missing)"]
                return [h, g]
            return fn
        # (what, translator, generated definitions it needs, the definition that marks it as available)
        for what, fn, needs, gives in (
                ("_missing_col_error", missing, [], "missingColErrorT"),
                ("Table._resolve_column", translate_resolve_column, [], "resolveColumnT"),
                ("Table._validate_join_keys", lambda t: translate_validate_join_keys(t, helpers), ["resolveColumnT"], "validateJoinKeysT"),
                ("Table._validate_key_tuple_hashable", translate_hashable, [], "validateKeyTupleHashableT"),
                ("Table.inner_join head", head("inner_join", "Inner"), ["validateJoinKeysT"], "joinHeadTInner"),
                ("Table.join head", head("join", "Left"), ["validateJoinKeysT"], "joinHeadTLeft"),
                ("Table.full_join head", head("full_join", "Full"), ["validateJoinKeysT"], "joinHeadTFull")):
            lack = [n for n in needs if n not in have]
            if lack:
                errors.append((what, "depends on " + ", ".join(lack) + ", which is not translated"))
                parts.append(f"-- {what}: not translated ({', '.join(lack)} missing)")
                continue
            try:
                parts += fn(tree)
                have.add(gives)
            except Exception as ex:       # TranslateError or anything unexpected: the item is simply not available
                errors.append((what, f"{type(ex).__name__}: {ex}"))
                parts.append(f"-- {what}: not translated ({type(ex).__name__})")
    text = ("/- GENERATED by harness/tr/joinkeys.py from /repo's working tree — do not edit.\n"
            "   Table._validate_join_keys (with get_column, validate_key_dtype), Table._resolve_column, Table._validate_key_tuple_hashable\n"
            "   and the heads of inner_join / join / full_join translated statement by statement; theorems in Serif/Tie/JoinKeys.lean. -/\n"
            "import Serif.Model.Join\n\nset_option linter.unusedVariables false\n\nnamespace Serif.Gen.JK\nopen Serif Serif.Join\n\n"
            + "\n\n".join(parts) + "\n\nend Serif.Gen.JK\n")
    return text, errors


if __name__ == "__main__":
    import sys
    t, e = generate(sys.argv[1] if len(sys.argv) > 1 else "/repo/src/serif")
    print(t)
    print(e, file=sys.stderr)
