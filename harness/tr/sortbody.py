"""Translator plug-in: the bodies of `Table.sort_by`, `Table._resolve_column` (src/serif/table.py) and `Vector.sort_by`
(src/serif/vector.py), statement by statement, into lean/Serif/Gen/TranslatedSortBody.lean; tie: lean/Serif/Tie/SortBody.lean (C14).

What is translated (in the source's order; local variable names are taken from the source, so renaming a local changes nothing
but bound names in the generated text):
  Table.sort_by      1. the isinstance chain that normalises `by`            -> sortByKeysT
                     2. the isinstance chain that normalises `reverse`       -> sortByRevFlagsT
                     3. `resolved = []`, `nrows = len(self)`, the resolve loop -> sortByResolveT
                     4. the empty-table shortcut                             -> inside tableSortByT
                     5. `indices = list(range(nrows))`, the loop over `reversed(list(zip(resolved, rev_flags)))` with `data`,
                        the frame of `key_fn` and `indices.sort(key=key_fn, reverse=rev)` -> sortByIndicesT
                     6. the loop that rebuilds every column through `indices` -> sortByGatherT
                     and the chain of the six parts                          -> tableSortByT
  Table._resolve_column  the isinstance chain                                 -> resolveColumnT
  Vector.sort_by     the key selection, `sorted(...)`, the returned Vector    -> vectorSortByT
  the defaults of `reverse` / `na_last` in both signatures                    -> tableSortByDefaultsT, vectorSortByDefaultsT
What stays a parameter of the generated definitions:
  `list.sort` / `sorted` (pySort, pySorted), `self[name]` (getitem), `len(self)` (lenSelf), the first component of the key tuples
  (flagT: the block of `key_fn` that assigns `flag`, resp. the first components of the two lambdas and the test that chooses between
  them -- translated and tied by py2lean.translate_sort_flags / Serif/Tie/Sort.lean), the `0` that stands in for None in the value
  component of the Vector key (zero), the default of `src[i]` (dflt; never reached).
Anything not understood raises TranslateError; nothing is emitted for it.
"""
import ast, copy, os

from py2lean import TranslateError, find_func

GEN_FILE = "TranslatedSortBody.lean"
TIE = {"Serif.Tie.SortBody": ["C14"]}

ERR = {"SerifValueError": "value", "SerifTypeError": "type", "SerifKeyError": "key"}
LEAN_RESERVED = {"by", "from", "at", "do", "then", "else", "if", "fun", "have", "show", "let", "in", "with", "match", "end", "open",
                 "where", "deriving", "instance", "structure", "class", "def", "theorem", "example", "set", "Type", "Prop", "Sort",
                 "underlying", "getitem", "lenSelf", "flagT", "pySort", "pySorted", "dflt", "zero", "pyBool", "e"}


def ln(name):
    """Lean spelling of a Python local"""
    return name + "_" if name in LEAN_RESERVED else name


def u(node):
    return ast.unparse(node)


def fail(where, node):
    raise TranslateError(f"{where}: " + (u(node) if isinstance(node, ast.AST) else str(node)).replace("\n", " ")[:90])


def body_of(f):
    """statements without docstrings / bare string expressions"""
    return [s for s in f.body if not (isinstance(s, ast.Expr) and isinstance(s.value, ast.Constant))]


class _DropMessages(ast.NodeTransformer):
    def visit_Raise(self, node):
        if isinstance(node.exc, ast.Call):
            node = copy.deepcopy(node)
            node.exc.args, node.exc.keywords = [ast.Constant(value=Ellipsis)], []
        return node


def quote(stmts, indent="    "):
    """the Python text of the statements (comments are not in the AST; the text of error messages is dropped)"""
    out = []
    for s in stmts:
        t = u(ast.fix_missing_locations(_DropMessages().visit(copy.deepcopy(s))))
        out += [indent + l for l in t.splitlines()]
    return "\n".join(out).replace("-/", "- /")


def raised(s, where):
    """`raise SerifXError(<any message>)` -> the model's error code"""
    if isinstance(s, ast.Raise) and s.cause is None and isinstance(s.exc, ast.Call) and isinstance(s.exc.func, ast.Name) \
            and s.exc.func.id in ERR:
        return ERR[s.exc.func.id]
    fail(where + ": raise", s)


def isinstance_classes(test, var, where):
    """`isinstance(var, C)` / `isinstance(var, (C1, C2))` -> frozenset of class names"""
    if isinstance(test, ast.Call) and isinstance(test.func, ast.Name) and test.func.id == "isinstance" and len(test.args) == 2 \
            and not test.keywords and isinstance(test.args[0], ast.Name) and test.args[0].id == var:
        c = test.args[1]
        elts = c.elts if isinstance(c, ast.Tuple) else [c]
        if all(isinstance(e, ast.Name) for e in elts):
            return frozenset(e.id for e in elts)
    fail(where + ": isinstance test", test)


# ---------------------------------------------------------------------------------------------
# expressions: a typed environment  python name -> type  with the types
#   spec | speclist | bool | boollist | nat | cellslist
# ---------------------------------------------------------------------------------------------
def ex(node, env, where):
    """-> (lean text, type)"""
    if isinstance(node, ast.Name) and node.id in env:
        return ln(node.id), env[node.id]
    if isinstance(node, ast.Constant) and type(node.value) is int and node.value >= 0:
        return str(node.value), "nat"
    if isinstance(node, ast.List) and len(node.elts) == 1:                      # [x]
        e, t = ex(node.elts[0], env, where)
        if t in ("spec", "bool"):
            return f"[{e}]", t + "list"
    if isinstance(node, ast.Call) and isinstance(node.func, ast.Name) and len(node.args) == 1 and not node.keywords:
        if node.func.id == "len" and isinstance(node.args[0], ast.Name) and node.args[0].id == env.get("@self"):
            return "lenSelf", "nat"                                             # len(self)
        e, t = ex(node.args[0], env, where)
        if node.func.id == "list" and t.endswith("list"):                        # list(seq): the items, in order
            return e, t
        if node.func.id == "len" and (t.endswith("list") or t == "cells"):
            return f"{e}.length", "nat"
        if node.func.id == "bool" and t == "bool":
            return f"pyBool {e}", "bool"
    if isinstance(node, ast.UnaryOp) and isinstance(node.op, ast.Not):
        e, t = ex(node.operand, env, where)
        if t.endswith("list"):                                                   # `not seq`: the sequence is empty
            return f"{e}.isEmpty", "bool"
    if isinstance(node, ast.BinOp) and isinstance(node.op, ast.Mult):            # [x] * n
        (l, lt), (r, rt) = ex(node.left, env, where), ex(node.right, env, where)
        if isinstance(node.left, ast.List) and len(node.left.elts) == 1 and rt == "nat":
            return f"List.replicate {r} {ex(node.left.elts[0], env, where)[0]}", lt
    if isinstance(node, ast.Compare) and len(node.ops) == 1 and isinstance(node.ops[0], (ast.Eq, ast.NotEq)):
        (l, lt), (r, rt) = ex(node.left, env, where), ex(node.comparators[0], env, where)
        if lt == rt == "nat":
            return f"{l} {'==' if isinstance(node.ops[0], ast.Eq) else '!='} {r}", "bool"
    if isinstance(node, ast.ListComp) and len(node.generators) == 1:             # [f(x) for x in seq]
        g = node.generators[0]
        if isinstance(g.target, ast.Name) and not g.ifs and not g.is_async:
            it, t = ex(g.iter, env, where)
            if t.endswith("list"):
                e2 = dict(env)
                e2[g.target.id] = t[:-4]
                b, bt = ex(node.elt, e2, where)
                return f"{it}.map fun {ln(g.target.id)} => {b}", bt + "list"
    fail(where + ": expression", node)


# ---------------------------------------------------------------------------------------------
# an if/elif/else chain of isinstance tests on one argument that assigns one local or raises
# ---------------------------------------------------------------------------------------------
def arg_chain(stmt, var, classmap, item_type, env, where, want_type):
    """-> (lean match text, name of the assigned local).  `classmap`: frozenset of classes -> 'single' | 'seq'."""
    arms, seen, out_var = [], set(), [None]

    def arm_body(stmts, e2, pad):
        """guards `if c: raise`, then `x = expr` as the last statement"""
        lines = []
        for k, s in enumerate(stmts):
            last = k == len(stmts) - 1
            if isinstance(s, ast.If) and not s.orelse and len(s.body) == 1 and isinstance(s.body[0], ast.Raise) and not last:
                c, t = ex(s.test, e2, where)
                if t != "bool":
                    fail(where + ": guard", s.test)
                lines += [f"{pad}if {c} then", f"{pad}  .error .{raised(s.body[0], where)}", f"{pad}else"]
            elif last and isinstance(s, ast.Assign) and len(s.targets) == 1 and isinstance(s.targets[0], ast.Name):
                v, t = ex(s.value, e2, where)
                if t != want_type:
                    fail(where + f": {s.targets[0].id} is not a {want_type}", s)
                if out_var[0] not in (None, s.targets[0].id):
                    fail(where + ": two different locals assigned", s)
                out_var[0] = s.targets[0].id
                lines += [f"{pad}let {ln(out_var[0])} := {v}", f"{pad}.ok {ln(out_var[0])}"]
            elif last and isinstance(s, ast.Raise):
                lines += [f"{pad}.error .{raised(s, where)}"]
            else:
                fail(where, s)
        return lines

    cur = stmt
    while True:
        if not isinstance(cur, ast.If):
            fail(where + ": if/elif chain", cur)
        cls = isinstance_classes(cur.test, var, where)
        if cls not in classmap:
            fail(where + ": class set", cur.test)
        ctor = classmap[cls]
        if ctor in seen:
            fail(where + ": case twice", cur.test)
        seen.add(ctor)
        e2 = dict(env)
        e2[var] = item_type if ctor == "single" else item_type + "list"
        arms.append(f"  | .{ctor} {ln(var)} =>\n" + "\n".join(arm_body(body_of(cur), e2, "    ")))
        if len(cur.orelse) == 1 and isinstance(cur.orelse[0], ast.If):
            cur = cur.orelse[0]
            continue
        if len(cur.orelse) == 1 and isinstance(cur.orelse[0], ast.Raise):
            arms.append(f"  | .other =>\n    .error .{raised(cur.orelse[0], where)}")
            break
        fail(where + ": final else must raise", cur)
    if seen != {"single", "seq"} or out_var[0] is None:
        fail(where + ": cases", stmt)
    return f"  match {ln(var)} with\n" + "\n".join(arms), out_var[0]


def assign_to_name(s, where):
    if isinstance(s, ast.Assign) and len(s.targets) == 1 and isinstance(s.targets[0], ast.Name):
        return s.targets[0].id, s.value
    fail(where + ": assignment", s)


def is_append(s, acc):
    """`acc.append(x)` -> x"""
    if isinstance(s, ast.Expr) and isinstance(s.value, ast.Call) and isinstance(s.value.func, ast.Attribute) \
            and s.value.func.attr == "append" and isinstance(s.value.func.value, ast.Name) and s.value.func.value.id == acc \
            and len(s.value.args) == 1 and not s.value.keywords:
        return s.value.args[0]
    return None


def translate_resolve_column(tree):
    f = find_func(tree, "_resolve_column", "Table")
    args = [a.arg for a in f.args.args]
    if len(args) != 2 or f.args.defaults or f.args.kwonlyargs or f.args.vararg or f.args.kwarg:
        fail("Table._resolve_column: signature", f.args)
    self_, spec = args
    stmts = body_of(f)
    if len(stmts) != 1:
        fail("Table._resolve_column: one if/elif/else chain expected", stmts[1] if len(stmts) > 1 else f)
    arms, seen, cur, where = [], set(), stmts[0], "Table._resolve_column"
    while True:
        if not isinstance(cur, ast.If):
            fail(where + ": chain", cur)
        cls = isinstance_classes(cur.test, spec, where)
        b = body_of(cur)
        if len(b) != 1 or not isinstance(b[0], ast.Return) or b[0].value is None:
            fail(where + ": one return per case", cur)
        r = b[0].value
        if cls == frozenset(["str"]) and "str" not in seen:
            if u(r) != f"{self_}[{spec}]":
                fail(where + ": str case", r)
            arms.append(f"  | .str {ln(spec)} =>\n    match getitem {ln(spec)} with\n    | none => .error .key\n    | some col => .ok col")
            seen.add("str")
        elif cls == frozenset(["Vector"]) and "vector" not in seen:
            if u(r) != spec:
                fail(where + ": Vector case", r)
            arms.append(f"  | .vector {ln(spec)} =>\n    .ok {ln(spec)}")
            seen.add("vector")
        else:
            fail(where + ": class", cur.test)
        if len(cur.orelse) == 1 and isinstance(cur.orelse[0], ast.If):
            cur = cur.orelse[0]
            continue
        if len(cur.orelse) == 1 and isinstance(cur.orelse[0], ast.Raise):
            arms.append(f"  | .other =>\n    .error .{raised(cur.orelse[0], where)}")
            break
        fail(where + ": final else must raise", cur)
    if seen != {"str", "vector"}:
        fail(where + ": cases", stmts[0])
    return ("/-- translated from `Table._resolve_column`:\n" + quote(stmts) + "\n"
            "    `isinstance(spec, str)` / `isinstance(spec, Vector)` are the constructors of `PySpec`; `self[name]` is the parameter\n"
            "    `getitem` (`none`: it raises SerifKeyError) -/\n"
            f"def resolveColumnT (getitem : String → Option (List Cell)) ({ln(spec)} : PySpec) : Res (List Cell) :=\n"
            f"  match {ln(spec)} with\n" + "\n".join(arms))


def key_fn_frame(kf, data, rev, na_last, where):
    """the nested `key_fn`: `v = data[i]`, `is_none = v is None`, <a block that assigns `flag` from is_none, rev, na_last>,
    `return (flag, v)`.  The block is NOT translated here (Serif/Tie/Sort.lean owns it); it may only read those three names."""
    pos = [a.arg for a in kf.args.args]
    dflt = kf.args.defaults
    if kf.args.kwonlyargs or kf.args.vararg or kf.args.kwarg or kf.decorator_list or not pos:
        fail(where + ": key_fn signature", kf.args)
    i = pos[0]
    for a, d in zip(pos[len(pos) - len(dflt):], dflt):          # `x=x`: the current value of the enclosing local
        if not (isinstance(d, ast.Name) and d.id == a):
            fail(where + ": key_fn default", d)
    if len(pos) - len(dflt) != 1 or not set(pos[1:]) <= {data, rev, na_last}:
        fail(where + ": key_fn parameters", kf.args)
    b = body_of(kf)
    if len(b) < 4:
        fail(where + ": key_fn body", kf)
    v, val = assign_to_name(b[0], where)
    if u(val) != f"{data}[{i}]":
        fail(where + ": key_fn value", b[0])
    isn, val = assign_to_name(b[1], where)
    if u(val) != f"{v} is None":
        fail(where + ": key_fn None test", b[1])
    ret = b[-1]
    if not (isinstance(ret, ast.Return) and isinstance(ret.value, ast.Tuple) and len(ret.value.elts) == 2
            and all(isinstance(e, ast.Name) for e in ret.value.elts) and ret.value.elts[1].id == v):
        fail(where + ": key_fn result", ret)
    flag = ret.value.elts[0].id
    block = b[2:-1]
    for s in block:
        for n in ast.walk(s):
            if isinstance(n, ast.Name):
                if isinstance(n.ctx, ast.Store) and n.id != flag:
                    fail(where + ": flag block assigns " + n.id, s)
                if isinstance(n.ctx, ast.Load) and n.id not in (isn, rev, na_last):
                    fail(where + ": flag block reads " + n.id, s)
            elif not isinstance(n, (ast.If, ast.Assign, ast.IfExp, ast.UnaryOp, ast.BoolOp, ast.Compare, ast.Constant, ast.expr_context,
                                    ast.Not, ast.And, ast.Or, ast.Eq, ast.NotEq, ast.Is, ast.IsNot)):
                fail(where + ": flag block", s)
    if flag in (i, v, isn):
        fail(where + ": flag name", ret)
    return i, v, isn, flag


def translate_table_sort_by(tree):
    where = "Table.sort_by"
    f = find_func(tree, "sort_by", "Table")
    a = f.args
    if a.kwonlyargs or a.vararg or a.kwarg or a.posonlyargs or len(a.args) != 4 or len(a.defaults) != 2 or f.decorator_list:
        fail(where + ": signature", a)
    self_, by, reverse, na_last = [x.arg for x in a.args]
    if not all(isinstance(d, ast.Constant) and isinstance(d.value, bool) for d in a.defaults):
        fail(where + ": defaults", a)
    d_rev, d_nal = ("true" if d.value else "false" for d in a.defaults)
    st = body_of(f)
    if len(st) != 11:
        fail(where + f": 11 statements expected, {len(st)} found", st[-1])
    parts = []

    # 1. `by`
    m1, keys = arg_chain(st[0], by, {frozenset(["str", "Vector"]): "single", frozenset(["list", "tuple"]): "seq"}, "spec",
                         {}, where + " (by)", "speclist")
    parts.append("/-- translated from `Table.sort_by`, normalisation of `by`:\n" + quote(st[0:1]) + "\n"
                 "    (`isinstance(by, (str, Vector))` / `isinstance(by, (list, tuple))` are the constructors `single` / `seq` of `PyArg`,\n"
                 "    `seq` carrying the items; `not by`: no items; `list(by)`: the items) -/\n"
                 f"def sortByKeysT ({ln(by)} : PyArg PySpec) : Res (List PySpec) :=\n" + m1)

    # 2. `reverse`
    m2, rev_flags = arg_chain(st[1], reverse, {frozenset(["bool"]): "single", frozenset(["list", "tuple"]): "seq"}, "bool",
                              {keys: "speclist"}, where + " (reverse)", "boollist")
    if rev_flags == keys:
        fail(where + ": reverse flags overwrite the keys", st[1])
    parts.append("/-- translated from `Table.sort_by`, normalisation of `reverse`:\n" + quote(st[1:2]) + "\n"
                 "    (`isinstance(reverse, bool)` is `single`, a list/tuple is `seq` with the truth values of its items; `[x] * n` is\n"
                 "    `List.replicate n x`) -/\n"
                 f"def sortByRevFlagsT ({ln(reverse)} : PyArg Bool) ({ln(keys)} : List PySpec) : Res (List Bool) :=\n" + m2)

    # 3. resolve loop
    resolved, val = assign_to_name(st[2], where)
    if u(val) != "[]":
        fail(where + ": resolved", st[2])
    nrows, val = assign_to_name(st[3], where)
    nr, t = ex(val, {"@self": self_}, where + " (nrows)")
    loop = st[4]
    if not (isinstance(loop, ast.For) and not loop.orelse and isinstance(loop.target, ast.Name) and u(loop.iter) == keys):
        fail(where + ": resolve loop", loop)
    spec = loop.target.id
    lb = body_of(loop)
    if len(lb) != 3:
        fail(where + ": resolve loop body", loop)
    col, val = assign_to_name(lb[0], where)
    if u(val) != f"{self_}._resolve_column({spec})":
        fail(where + ": resolve call", lb[0])
    g = lb[1]
    if not (isinstance(g, ast.If) and not g.orelse and len(g.body) == 1):
        fail(where + ": length guard", g)
    gc, t = ex(g.test, {col: "cells", nrows: "nat"}, where + " (length guard)")
    gerr = raised(g.body[0], where)
    app = is_append(lb[2], resolved)
    if app is None or u(app) != col:
        fail(where + ": append", lb[2])
    if len({keys, rev_flags, resolved, nrows, spec, col, by, reverse, na_last, self_}) != 10:
        fail(where + ": locals are not distinct", loop)
    parts.append("/-- translated from `Table.sort_by`, resolution of the keys:\n" + quote(st[2:5]) + "\n"
                 "    (`len(self)` is the parameter `lenSelf`; `.ok` carries `(resolved, nrows)`) -/\n"
                 f"def sortByResolveT (getitem : String → Option (List Cell)) (lenSelf : Nat) ({ln(keys)} : List PySpec) :\n"
                 "    Res (List (List Cell) × Nat) :=\n"
                 f"  let {ln(resolved)} : List (List Cell) := []\n"
                 f"  let {ln(nrows)} := {nr}\n"
                 f"  match {ln(keys)}.foldlM (fun {ln(resolved)} {ln(spec)} =>\n"
                 f"      match resolveColumnT getitem {ln(spec)} with\n"
                 "      | .error e => (.error e : Res (List (List Cell)))\n"
                 f"      | .ok {ln(col)} =>\n"
                 f"        if {gc} then\n"
                 f"          .error .{gerr}\n"
                 "        else\n"
                 f"        .ok ({ln(resolved)} ++ [{ln(col)}])) {ln(resolved)} with\n"
                 "  | .error e => .error e\n"
                 f"  | .ok {ln(resolved)} => .ok ({ln(resolved)}, {ln(nrows)})")

    # 4. empty table
    sc = st[5]
    if not (isinstance(sc, ast.If) and not sc.orelse):
        fail(where + ": empty-table shortcut", sc)
    sct, t = ex(sc.test, {nrows: "nat"}, where + " (shortcut)")
    sb = body_of(sc)
    if len(sb) != 2:
        fail(where + ": empty-table shortcut body", sc)
    ncol0, val = assign_to_name(sb[0], where)
    if not (isinstance(val, ast.ListComp) and len(val.generators) == 1 and isinstance(val.generators[0].target, ast.Name)
            and not val.generators[0].ifs and u(val.generators[0].iter) == f"{self_}._underlying"):
        fail(where + ": empty columns", sb[0])
    c0 = val.generators[0].target.id
    if u(val.elt) != f"Vector([], name={c0}._name)" or u(sb[1]) != f"return Table({ncol0})":
        fail(where + ": empty columns", sb[0])

    # 5. the sort loop
    indices, val = assign_to_name(st[6], where)
    if u(val) != f"list(range({nrows}))":
        fail(where + ": indices", st[6])
    loop = st[7]
    if not (isinstance(loop, ast.For) and not loop.orelse and isinstance(loop.target, ast.Tuple) and len(loop.target.elts) == 2
            and all(isinstance(e, ast.Name) for e in loop.target.elts)
            and u(loop.iter) == f"reversed(list(zip({resolved}, {rev_flags})))"):
        fail(where + ": sort loop (keys from last to first)", loop)
    kcol, rev = (e.id for e in loop.target.elts)
    lb = body_of(loop)
    if len(lb) != 3 or not isinstance(lb[1], ast.FunctionDef):
        fail(where + ": sort loop body", loop)
    data, val = assign_to_name(lb[0], where)
    if u(val) != f"{kcol}._underlying":
        fail(where + ": key data", lb[0])
    key_fn = lb[1].name
    if len({indices, kcol, rev, data, key_fn, na_last, resolved, rev_flags, nrows}) != 9:
        fail(where + ": locals of the sort loop are not distinct", loop)
    i, v, isn, flag = key_fn_frame(lb[1], data, rev, na_last, where)
    if u(lb[2]) != f"{indices}.sort(key={key_fn}, reverse={rev})":
        fail(where + ": sort call", lb[2])
    q5 = (quote(st[6:7]) + f"\n    for {u(loop.target)} in {u(loop.iter)}:\n" + quote(lb[0:1], " " * 8) + "\n"
          f"        def {key_fn}({i}, ...):\n" + quote(body_of(lb[1])[:2], " " * 12) + "\n"
          f"            {flag} = <flagT {isn} {rev} {na_last}>\n" + quote(body_of(lb[1])[-1:], " " * 12) + "\n" + quote(lb[2:3], " " * 8))
    parts.append("/-- translated from `Table.sort_by`, the sort loop (keys applied from the last to the first):\n" + q5 + "\n"
                 "    (`flagT`: the block of `key_fn` that assigns the flag, translated in TranslatedSort.lean; `pySort key reverse l`:\n"
                 "    `l.sort(key=key, reverse=reverse)`; `data[i]` is `getD` -- every `i` is a row index and `len(data) == nrows`) -/\n"
                 "def sortByIndicesT (flagT : Bool → Bool → Bool → Bool) (pySort : (Nat → Bool × Cell) → Bool → List Nat → List Nat)\n"
                 f"    ({ln(na_last)} : Bool) ({ln(nrows)} : Nat) ({ln(resolved)} : List (List Cell)) ({ln(rev_flags)} : List Bool) : List Nat :=\n"
                 f"  let {ln(indices)} := List.range {ln(nrows)}\n"
                 f"  let {ln(indices)} := (({ln(resolved)}.zip {ln(rev_flags)}).reverse).foldl (fun {ln(indices)} ({ln(kcol)}, {ln(rev)}) =>\n"
                 f"      let {ln(data)} := {ln(kcol)}\n"
                 f"      let {ln(key_fn)} := fun ({ln(i)} : Nat) =>\n"
                 f"        let {ln(v)} := {ln(data)}.getD {ln(i)} none\n"
                 f"        let {ln(isn)} := {ln(v)}.isNone\n"
                 f"        let {ln(flag)} := flagT {ln(isn)} {ln(rev)} {ln(na_last)}\n"
                 f"        ({ln(flag)}, {ln(v)})\n"
                 f"      pySort {ln(key_fn)} {ln(rev)} {ln(indices)}) {ln(indices)}\n"
                 f"  {ln(indices)}")

    # 6. gather
    new_cols, val = assign_to_name(st[8], where)
    if u(val) != "[]":
        fail(where + ": new_cols", st[8])
    loop = st[9]
    if not (isinstance(loop, ast.For) and not loop.orelse and isinstance(loop.target, ast.Name) and u(loop.iter) == f"{self_}._underlying"):
        fail(where + ": gather loop", loop)
    gcol = loop.target.id
    lb = body_of(loop)
    if len(lb) != 3:
        fail(where + ": gather loop body", loop)
    src, val = assign_to_name(lb[0], where)
    if u(val) != f"{gcol}._underlying":
        fail(where + ": column data", lb[0])
    new_data, val = assign_to_name(lb[1], where)
    if not (isinstance(val, ast.ListComp) and len(val.generators) == 1 and isinstance(val.generators[0].target, ast.Name)
            and not val.generators[0].ifs and u(val.generators[0].iter) == indices
            and u(val.elt) == f"{src}[{val.generators[0].target.id}]"):
        fail(where + ": gathered data", lb[1])
    gi = val.generators[0].target.id
    app = is_append(lb[2], new_cols)
    if app is None or u(app) != f"Vector({new_data}, name={gcol}._name)":
        fail(where + ": rebuilt column", lb[2])
    if u(st[10]) != f"return Table({new_cols})":
        fail(where + ": result", st[10])
    if len({new_cols, gcol, src, new_data, indices}) != 5 or gi in (src, indices):
        fail(where + ": locals of the gather loop are not distinct", loop)
    parts.append("/-- translated from `Table.sort_by`, the rebuilt columns:\n" + quote(st[8:11]) + "\n"
                 "    (a column is seen as its data `_underlying`; `Vector(new_data, name=…)` is `new_data`, `Table(cols)` is `cols`;\n"
                 "    `src[i]` is `getD` with a default that is never reached) -/\n"
                 f"def sortByGatherT {{β : Type}} (dflt : β) (underlying : List (List β)) ({ln(indices)} : List Nat) : List (List β) :=\n"
                 f"  let {ln(new_cols)} : List (List β) := []\n"
                 f"  let {ln(new_cols)} := underlying.foldl (fun {ln(new_cols)} {ln(gcol)} =>\n"
                 f"      let {ln(src)} := {ln(gcol)}\n"
                 f"      let {ln(new_data)} := {ln(indices)}.map fun {ln(gi)} => {ln(src)}.getD {ln(gi)} dflt\n"
                 f"      {ln(new_cols)} ++ [{ln(new_data)}]) {ln(new_cols)}\n"
                 f"  {ln(new_cols)}")

    # the whole body
    parts.append("/-- `Table.sort_by`: the six parts in the source's order; an exception raised by a part ends the call.\n"
                 "    Part 4, the empty-table shortcut:\n" + quote(st[5:6]) + " -/\n"
                 "def tableSortByT {β : Type} (getitem : String → Option (List Cell)) (flagT : Bool → Bool → Bool → Bool)\n"
                 "    (pySort : (Nat → Bool × Cell) → Bool → List Nat → List Nat) (dflt : β)\n"
                 f"    (underlying : List (List β)) (lenSelf : Nat) ({ln(by)} : PyArg PySpec) ({ln(reverse)} : PyArg Bool) ({ln(na_last)} : Bool) :\n"
                 "    Res (List (List β)) :=\n"
                 f"  match sortByKeysT {ln(by)} with\n"
                 "  | .error e => .error e\n"
                 f"  | .ok {ln(keys)} =>\n"
                 f"  match sortByRevFlagsT {ln(reverse)} {ln(keys)} with\n"
                 "  | .error e => .error e\n"
                 f"  | .ok {ln(rev_flags)} =>\n"
                 f"  match sortByResolveT getitem lenSelf {ln(keys)} with\n"
                 "  | .error e => .error e\n"
                 f"  | .ok ({ln(resolved)}, {ln(nrows)}) =>\n"
                 f"  if {sct} then\n"
                 f"    let {ln(ncol0)} := underlying.map fun {ln(c0)} => ([] : List β)\n"
                 f"    .ok {ln(ncol0)}\n"
                 "  else\n"
                 f"  let {ln(indices)} := sortByIndicesT flagT pySort {ln(na_last)} {ln(nrows)} {ln(resolved)} {ln(rev_flags)}\n"
                 f"  let {ln(new_cols)} := sortByGatherT dflt underlying {ln(indices)}\n"
                 f"  .ok {ln(new_cols)}")
    parts.append(f"/-- the defaults in the signature of `Table.sort_by`: `{u(a)}` -/\n"
                 f"def tableSortByDefaultsT : PyArg Bool × Bool := (.single {d_rev}, {d_nal})")
    return parts


def translate_vector_sort_by(tree):
    where = "Vector.sort_by"
    f = find_func(tree, "sort_by", "Vector")
    a = f.args
    if a.kwonlyargs or a.vararg or a.kwarg or a.posonlyargs or len(a.args) != 3 or len(a.defaults) != 2 or f.decorator_list:
        fail(where + ": signature", a)
    self_, reverse, na_last = [x.arg for x in a.args]
    if not all(isinstance(d, ast.Constant) and isinstance(d.value, bool) for d in a.defaults):
        fail(where + ": defaults", a)
    d_rev, d_nal = ("true" if d.value else "false" for d in a.defaults)
    st = body_of(f)
    if len(st) != 4:
        fail(where + f": 4 statements expected, {len(st)} found", st[-1])
    sel = st[0]
    if not (isinstance(sel, ast.If) and len(sel.body) == 1 and len(sel.orelse) == 1):
        fail(where + ": key selection", sel)
    for n in ast.walk(sel.test):
        if isinstance(n, ast.Name) and n.id not in (reverse, na_last):
            fail(where + ": key selection reads " + n.id, sel.test)
    key_fn, x, second = None, None, None
    for s in (sel.body[0], sel.orelse[0]):
        name, lam = assign_to_name(s, where)
        if key_fn not in (None, name):
            fail(where + ": two key names", s)
        key_fn = name
        la = lam.args if isinstance(lam, ast.Lambda) else None
        if not (la and len(la.args) == 1 and not la.defaults and not la.vararg and not la.kwarg and not la.kwonlyargs
                and isinstance(lam.body, ast.Tuple) and len(lam.body.elts) == 2):
            fail(where + ": key lambda", s)
        x = la.args[0].arg
        # the value component: x, with None replaced
        sec = lam.body.elts[1]
        if not (isinstance(sec, ast.IfExp) and u(sec.test) == f"{x} is not None" and u(sec.body) == x
                and isinstance(sec.orelse, ast.Constant) and type(sec.orelse.value) is int and sec.orelse.value == 0):
            fail(where + ": value component of the key", sec)
        # the flag component (owned by Serif/Tie/Sort.lean) may only test `x is None` / `x is not None`
        for n in ast.walk(lam.body.elts[0]):
            if isinstance(n, ast.Name) and n.id != x:
                fail(where + ": flag component reads " + n.id, lam.body.elts[0])
            if isinstance(n, ast.Compare) and not (len(n.ops) == 1 and isinstance(n.ops[0], (ast.Is, ast.IsNot)) and u(n.left) == x
                                                   and u(n.comparators[0]) == "None"):
                fail(where + ": flag component", lam.body.elts[0])
            if isinstance(n, (ast.Call, ast.Attribute, ast.Subscript, ast.BinOp, ast.Lambda)):
                fail(where + ": flag component", lam.body.elts[0])
    new_values, val = assign_to_name(st[1], where)
    if u(val) != f"tuple(sorted({self_}._underlying, key={key_fn}, reverse={reverse}))":
        fail(where + ": sorted call", st[1])
    new_vector, val = assign_to_name(st[2], where)
    if u(val) != f"Vector({new_values}, dtype={self_}._dtype, name={self_}._name)":
        fail(where + ": result vector", st[2])
    if u(st[3]) != f"return {new_vector}":
        fail(where + ": return", st[3])
    if len({self_, reverse, na_last, key_fn, new_values, new_vector}) != 6:
        fail(where + ": locals are not distinct", f.args)
    q = (f"    if {u(sel.test)}:\n        {key_fn} = lambda {x}: (<flag>, {u(sel.body[0].value.body.elts[1])})\n    else:\n"
         f"        {key_fn} = lambda {x}: (<flag>, {u(sel.orelse[0].value.body.elts[1])})\n" + quote(st[1:]))
    return ["/-- translated from `Vector.sort_by`:\n" + q + "\n"
            "    (`<flag>`, the first components of the two lambdas together with the test that chooses between them, is `flagT (x is None)\n"
            "    reverse na_last`, translated in TranslatedSort.lean; an element is its key cell and its identity, `x is None` looks at the\n"
            "    cell; `zero`: the `0` that replaces None; `pySorted key reverse l`: `sorted(l, key=key, reverse=reverse)`; `tuple(…)` and\n"
            "    `Vector(…, dtype, name)` keep the elements and their order) -/\n"
            "def vectorSortByT (flagT : Bool → Bool → Bool → Bool) (zero : Cell)\n"
            "    (pySorted : (Elem → Bool × Cell) → Bool → List Elem → List Elem)\n"
            f"    (underlying : List Elem) ({ln(reverse)} {ln(na_last)} : Bool) : List Elem :=\n"
            f"  let {ln(key_fn)} := fun ({ln(x)} : Elem) => (flagT {ln(x)}.1.isNone {ln(reverse)} {ln(na_last)}, "
            f"(if !{ln(x)}.1.isNone then {ln(x)}.1 else zero))\n"
            f"  let {ln(new_values)} := pySorted {ln(key_fn)} {ln(reverse)} underlying\n"
            f"  let {ln(new_vector)} := {ln(new_values)}\n"
            f"  {ln(new_vector)}",
            f"/-- the defaults in the signature of `Vector.sort_by`: `{u(a)}` -/\n"
            f"def vectorSortByDefaultsT : Bool × Bool := ({d_rev}, {d_nal})"]


PREAMBLE = """/-- a Python argument as the `isinstance` chains of `Table.sort_by` see it: one value of the expected class (`by`: a str or a
    Vector; `reverse`: a bool), a list or tuple (with its items), or anything else -/
inductive PyArg (σ : Type) where
  | single (x : σ)
  | seq (xs : List σ)
  | other
  deriving Repr

/-- a key spec as `Table._resolve_column` sees it: a str, a Vector (its cells), or anything else -/
inductive PySpec where
  | str (name : String)
  | vector (cells : List Cell)
  | other
  deriving Repr

/-- `bool(x)` on an item of `reverse` (an item is seen as its truth value) -/
def pyBool (x : Bool) : Bool := x"""


def generate(src_dir):
    parts, errors = [PREAMBLE], []
    for what, fn, fname in (("resolve_column", translate_resolve_column, "table.py"),
                            ("table_sort_by", translate_table_sort_by, "table.py"),
                            ("vector_sort_by", translate_vector_sort_by, "vector.py")):
        try:
            tree = ast.parse(open(os.path.join(src_dir, fname)).read())
            r = fn(tree)
            parts += [r] if isinstance(r, str) else r
        except Exception as ex_:
            errors.append((what, f"{type(ex_).__name__}: {ex_}"))
            parts.append(f"-- {what}: not translated ({type(ex_).__name__})")
    text = ("/- GENERATED by harness/tr/sortbody.py from /repo's working tree — do not edit.\n"
            "   The bodies of Table.sort_by, Table._resolve_column and Vector.sort_by, translated statement by statement;\n"
            "   equivalence theorems in Serif/Tie/SortBody.lean. -/\n"
            "import Serif.Model.Sort\n\nset_option linter.unusedVariables false\n\nnamespace Serif.Gen.TSB\nopen Serif Serif.Sort\n\n"
            + "\n\n".join(parts) + "\n\nend Serif.Gen.TSB\n")
    return text, errors
