"""Translator plug-in: attribute broadcasting of `Vector` (C05).

Reads src/serif/vector.py with `ast` and translates, statement by statement, into lean/Serif/Gen/TranslatedBroadcast.lean

    Vector.schema                  -> schemaT
    MethodProxy.__init__           -> structure MethodProxyObj (one field per `self.F = <parameter>`), methodProxyInitT
    MethodProxy.__call__           -> methodProxyCallT     (the `for` loop with its `is None` test, `results.append`, `Vector(results)`)
    Vector.__getattr__             -> getattrT             (the whole decision chain in source order, the property generator, the results)
    the explicit wrappers of `_String` / `_Date` (`def upper(self, *args, **kwargs): return Vector(tuple((s.upper(*args, **kwargs)
    if s is not None else None) for s in self._underlying))`): ONE representative of each of the three shapes
        A  `(self, *args, **kwargs)`, element expression `s.<own name>(*args, **kwargs)`     -> wrapperMethodT    (representative: upper)
        B  `(self)`,                  element expression `s.<own name>()`                    -> wrapperMethod0T   (representative: capitalize)
        C  `(self, p1, …)`,           any element expression over `s` and the parameters only -> derivedMethodT    (representative: before)
    is translated with the method's own name (resp. the element expression) as a parameter, and EVERY public method of the two classes
    whose body is a single `return Vector(…)` is translated the same way and its Lean text
    compared with the representative's: the names go into `stringWrapperNames` / `stringWrapper0Names` / `stringDerivedNames` /
    `dateWrapperNames` / …; a method of that form that does not give the representative's text is an error (nothing is emitted for the
    lists, the tie stops building).
    the names bound in the class bodies (Vector, _String, _Int, _Float, _Date), the instance attributes assigned in
    `Vector.__new__` / `__init__`, and the subclass dispatch of `Vector.__new__` (`if dtype is not None: if dtype.kind is str:
    target_class = _String elif …`) -> vectorClassNames …, vectorInstanceNames, targetClassT, ownNamesT: Python calls `__getattr__`
    only for a name that ordinary lookup does not find, so these are the names that are NOT broadcast.

What the statement translator (class `_Bc`) understands, and nothing else:
  statements   `N = E`; `return E`; `raise <known exception class>(…)`; `if C: <body that returns/raises>` followed by more statements;
               `if C: … else: …`; `for x in L: <body>` where the body only appends to ONE list (`R.append(E)`, under `if x is None: … else: …`);
               docstrings are dropped.
  expressions  names, None, `[]`, `self._vector`, `self._method_name` (fields read from `MethodProxy.__init__`), `V._underlying`, `D.kind`,
               `object.__getattribute__(self, 'schema')()` / `self.schema()`, `X is None`, `X is not None`, `K is object`, `callable(X)`,
               `getattr(K, name, None)` on a class, `getattr(x, name)` on an element, `getattr(x, name)(*args, **kwargs)`,
               `x.NAME(*args, **kwargs)`, `x.NAME()`, `A if x is not None else None`, `tuple(E for x in L)`, `Vector(VALUES)`,
               `MethodProxy(V, N)`.
Python's `None` is `Option.none`; the translator tracks which names are optional and refines them by `is None` tests (a `match`).
A `Vector` object is seen as its state `VectorObj` (`_underlying`, `_dtype`); the call `Vector(values)` as the record `VectorCall` of its
arguments, `dtype := none` meaning "no `dtype=`: `Vector.__new__` infers it".  Oracles (parameters of the generated definitions):
  class_getattr K n   `getattr(K, n, None)` on the dtype's class (`none` = the class has no such attribute, or its value is None)
  callable c          Python's `callable`
  elem_getattr x n    `getattr(x, n)` on a non-None element: the value, or the exception
  elem_call x n args  `getattr(x, n)(*args, **kwargs)` / `x.n(*args, **kwargs)`: the value, or the exception; `args` is the whole argument pack
  elem_call0 x n      `x.n()`
  elem_expr x params  the element expression of a shape-C wrapper (quoted in the docstring)
Exception classes are seen as `Err`.  Message texts, comments, docstrings and blank lines never reach the generated file.
"""
import ast, copy, os, re, textwrap

import py2lean
from py2lean import TranslateError, find_func, KINDS

GEN_FILE = "TranslatedBroadcast.lean"
TIE = {"Serif.Tie.Broadcast": ["C05"]}

ERR = {"AttributeError": "Err.attr", "TypeError": "Err.type", "ValueError": "Err.value", "KeyError": "Err.key", "IndexError": "Err.index",
       "SerifTypeError": "Err.type", "SerifValueError": "Err.value", "SerifKeyError": "Err.key", "SerifIndexError": "Err.index"}

OPT_ELEM = ("opt", "elem")
OPT_RES = ("opt", "res")
LEAN_TYPE = {"bool": "Bool", "kind": "Kind", "dtype": "DType", "elem": "α", "res": "β", "name": "ν", "clsattr": "κ", "args": "A",
             "params": "P", "vecobj": "VectorObj α", "proxyobj": "MethodProxyObj α ν", "vcall": "VectorCall (Option β)",
             "getattr": "GetAttrResult α β ν"}
RESERVED = {"e", "r", "t", "callable", "class_getattr", "elem_getattr", "elem_call", "elem_call0", "elem_expr", "m", "params"}

ORACLE_SIG = {
    "class_getattr": "(class_getattr : Kind → ν → Option κ)",
    "callable": "(callable : κ → Bool)",
    "elem_getattr": "(elem_getattr : α → ν → Except Err β)",
    "elem_call": "(elem_call : α → ν → A → Except Err β)",
    "elem_call0": "(elem_call0 : α → ν → Except Err β)",
    "elem_expr": "(elem_expr : α → P → Except Err β)",
}
ORACLE_DOC = {
    "class_getattr": "`class_getattr K n` is `getattr(K, n, None)` on the class `K`: `none` when the class has no such attribute (or its value is None)",
    "callable": "`callable` is Python's",
    "elem_getattr": "`elem_getattr x n` is `getattr(x, n)` on a non-None element, a value or the exception raised",
    "elem_call": "`elem_call x n args` is `getattr(x, n)(*args, **kwargs)` on a non-None element, `args` being the whole argument pack",
    "elem_call0": "`elem_call0 x n` is `x.n()` on a non-None element",
    "elem_expr": "`elem_expr s params` is the element expression on a non-None element `s` and the method's parameters",
}


def lean_type(t):
    if isinstance(t, tuple):
        inner = lean_type(t[1])
        inner = f"({inner})" if " " in inner else inner
        return ("Option " if t[0] == "opt" else "List ") + inner
    return LEAN_TYPE[t]


def ln(name):
    n = py2lean._ln(name)
    return n + "_" if n in RESERVED else n


def strip_doc(body):
    return [s for s in body if not (isinstance(s, ast.Expr) and isinstance(s.value, ast.Constant))]


class _NoMsg(ast.NodeTransformer):
    """`raise X(<message>)` -> `raise X(…)`: the wording of a message is not behaviour"""

    def visit_Raise(self, node):
        if isinstance(node.exc, ast.Call):
            return ast.Raise(exc=ast.Call(func=node.exc.func, args=[ast.Name(id="…", ctx=ast.Load())], keywords=[]), cause=None)
        return node


def quote(node, first_line=False):
    n = _NoMsg().visit(copy.deepcopy(node))
    txt = ast.unparse(ast.fix_missing_locations(n))
    lines = txt.split("\n")
    txt = lines[0] if first_line or len(lines) > 1 else txt
    return txt.replace("-/", "- /").replace("/-", "/ -")


def is_opt(t):
    return isinstance(t, tuple) and t[0] == "opt"


def is_list(t):
    return isinstance(t, tuple) and t[0] == "list"


class _Bc:
    def __init__(self, where, func, available=(), proxy_fields=None, proxy_params=None, name_param=None):
        self.where = where
        self.func = func
        self.available = set(available)
        self.proxy_fields = proxy_fields or {}       # field of a MethodProxy object -> type
        self.proxy_params = proxy_params             # types of the parameters of MethodProxy.__init__ (after self)
        self.name_param = name_param                 # (python method name, lean variable): a wrapper's own name as a parameter
        self.canon_elem = None                       # wrappers: the generator's variable is written with this name (so that a
                                                     # renamed bound variable still gives the representative's text)
        self.oracles = []
        self.result_types = []
        self.vararg = func.args.vararg.arg if func.args.vararg else None
        self.kwarg = func.args.kwarg.arg if func.args.kwarg else None

    def fail(self, node, why=""):
        txt = ast.unparse(node) if isinstance(node, ast.AST) else str(node)
        raise TranslateError(f"{self.where}: {why + ': ' if why else ''}{txt[:80]}")

    def use(self, o):
        if o not in self.oracles:
            self.oracles.append(o)

    def need(self, helper, node):
        if helper not in self.available:
            self.fail(node, f"uses {helper}, which was not translated")

    @staticmethod
    def key(node):
        if isinstance(node, ast.Name):
            return node.id
        return None

    def none_test(self, node, env):
        """`N is None` / `N is not None` on an optional name -> (python name, lean name, is_none)"""
        if isinstance(node, ast.Compare) and len(node.ops) == 1 and isinstance(node.ops[0], (ast.Is, ast.IsNot)) \
                and isinstance(node.comparators[0], ast.Constant) and node.comparators[0].value is None:
            k = self.key(node.left)
            if k in env and is_opt(env[k][1]):
                return k, env[k][0], isinstance(node.ops[0], ast.Is)
        return None

    @staticmethod
    def refine(env, k):
        lean, t = env[k]
        return dict(env, **{k: (lean, t[1])})

    def pack(self, call):
        """is the argument list of `call` exactly `(*args, **kwargs)` of the enclosing function?"""
        return (self.vararg is not None and self.kwarg is not None and len(call.args) == 1 and isinstance(call.args[0], ast.Starred)
                and isinstance(call.args[0].value, ast.Name) and call.args[0].value.id == self.vararg and len(call.keywords) == 1
                and call.keywords[0].arg is None and isinstance(call.keywords[0].value, ast.Name)
                and call.keywords[0].value.id == self.kwarg)

    def method_name(self, attr):
        """the Lean term for the literal method name in `x.NAME(…)`"""
        if self.name_param is not None:
            if attr != self.name_param[0]:
                self.fail(attr, f"calls the element's `{attr}`, not the method's own name `{self.name_param[0]}`")
            return self.name_param[1]
        return '"' + attr + '"'

    # -- expressions: -> (lean, type, raises) ---------------------------------------------------------------------------
    def ex(self, node, env):
        if isinstance(node, ast.Constant):
            if node.value is None:
                return "none", "none", False
            self.fail(node, "constant")
        if isinstance(node, ast.List) and not node.elts:
            return "([] : List (Option β))", ("list", OPT_RES), False
        if isinstance(node, ast.Name):
            if node.id in env:
                return env[node.id][0], env[node.id][1], False
            if node.id in KINDS:
                return KINDS[node.id], "kind", False
            self.fail(node, "unknown name")
        if isinstance(node, ast.Attribute):
            e, t, r = self.ex(node.value, env)
            if r:
                self.fail(node, "attribute of a raising expression")
            if t == "proxyobj" and node.attr in self.proxy_fields:
                return f"{e}.{node.attr}", self.proxy_fields[node.attr], False
            if t == "vecobj" and node.attr == "_underlying":
                return f"{e}._underlying", ("list", OPT_ELEM), False
            if t == "vecobj" and node.attr == "_dtype":
                return f"{e}._dtype", ("opt", "dtype"), False
            if t == "dtype" and node.attr == "kind":
                return f"{e}.kind", "kind", False
            self.fail(node, f"attribute of a value of type {t}")
        if isinstance(node, ast.Compare) and len(node.ops) == 1:
            op, l, rr = node.ops[0], node.left, node.comparators[0]
            if isinstance(op, (ast.Is, ast.IsNot)) and isinstance(rr, ast.Constant) and rr.value is None:
                e, t, r = self.ex(l, env)
                if r or not is_opt(t):
                    self.fail(node, "None test on a value that is not optional here")
                return (f"{e}.isNone" if isinstance(op, ast.Is) else f"(!{e}.isNone)"), "bool", False
            if isinstance(op, (ast.Is, ast.IsNot)):
                a, at, ar = self.ex(l, env)
                b, bt, br = self.ex(rr, env)
                if at == "kind" and bt == "kind" and not ar and not br:
                    return (f"({a} == {b})" if isinstance(op, ast.Is) else f"({a} != {b})"), "bool", False
            self.fail(node, "comparison")
        if isinstance(node, ast.IfExp):
            nt = self.none_test(node.test, env)
            if not nt:
                self.fail(node, "conditional expression that is not a None test on a name")
            k, lean, is_none = nt
            n_branch, s_branch = (node.body, node.orelse) if is_none else (node.orelse, node.body)
            a, at, ar = self.ex(n_branch, env)
            b, bt, br = self.ex(s_branch, self.refine(env, k))
            if at != "none" or ar or bt != "res":
                self.fail(node, f"branches of types {at} / {bt} (expected: None / an element result)")
            if br:
                return (f"(match {lean} with\n⟪J⟫| none => .ok none\n⟪J⟫| some {lean} => (match {b} with | .ok r => .ok (some r) | .error e => .error e))",
                        OPT_RES, True)
            return f"(match {lean} with | none => none | some {lean} => some {b})", OPT_RES, False
        if isinstance(node, ast.GeneratorExp):
            return self.gen(node, env)
        if isinstance(node, ast.Call):
            return self.call(node, env)
        self.fail(node, "expression")

    def gen(self, node, env):
        if len(node.generators) != 1 or not isinstance(node.generators[0].target, ast.Name) or node.generators[0].is_async \
                or node.generators[0].ifs:
            self.fail(node, "generator")
        g = node.generators[0]
        src, st, sr = self.ex(g.iter, env)
        if sr or not is_list(st):
            self.fail(g.iter, "iteration over something that is not a tuple of elements")
        x = g.target.id
        lx = ln(x)
        if self.canon_elem is not None:
            if any(v[0] == self.canon_elem for v in env.values()) or self.canon_elem in getattr(self, "params", ()):
                self.fail(node, f"the canonical element name `{self.canon_elem}` is taken")
            lx = self.canon_elem
        e, t, r = self.ex(node.elt, dict(env, **{x: (lx, st[1])}))
        if r:
            return f"(tupleGenT (fun {lx} => {e}) {src})", ("list", t), True
        return f"({src}.map (fun {lx} => {e}))", ("list", t), False

    def call(self, node, env):
        f = node.func
        # getattr(x, name)(*args, **kwargs)
        if isinstance(f, ast.Call) and isinstance(f.func, ast.Name) and f.func.id == "getattr" and len(f.args) == 2 and not f.keywords:
            x, xt, xr = self.ex(f.args[0], env)
            n, nt, nr = self.ex(f.args[1], env)
            if xt == "elem" and nt == "name" and not xr and not nr and self.pack(node):
                self.use("elem_call")
                return f"elem_call {x} {n} {env['*'][0]}", "res", True
            self.fail(node, "call of a looked-up attribute")
        # object.__getattribute__(self, 'schema')()
        if isinstance(f, ast.Call) and ast.unparse(f.func) == "object.__getattribute__" and len(f.args) == 2 and not f.keywords \
                and isinstance(f.args[1], ast.Constant) and f.args[1].value == "schema" and not node.args and not node.keywords:
            v, vt, vr = self.ex(f.args[0], env)
            if vt == "vecobj" and not vr:
                self.need("schemaT", node)
                return f"schemaT {v}", ("opt", "dtype"), False
            self.fail(node, "schema of something that is not a Vector")
        if isinstance(f, ast.Name):
            if f.id == "tuple" and len(node.args) == 1 and not node.keywords and isinstance(node.args[0], ast.GeneratorExp):
                return self.gen(node.args[0], env)
            if f.id == "callable" and len(node.args) == 1 and not node.keywords:
                e, t, r = self.ex(node.args[0], env)
                if t != "clsattr" or r:
                    self.fail(node, f"callable of a value of type {t}")
                self.use("callable")
                return f"callable {e}", "bool", False
            if f.id == "getattr" and not node.keywords:
                if len(node.args) == 3 and isinstance(node.args[2], ast.Constant) and node.args[2].value is None:
                    k, kt, kr = self.ex(node.args[0], env)
                    n, nt, nr = self.ex(node.args[1], env)
                    if kt == "kind" and nt == "name" and not kr and not nr:
                        self.use("class_getattr")
                        return f"class_getattr {k} {n}", ("opt", "clsattr"), False
                if len(node.args) == 2:
                    x, xt, xr = self.ex(node.args[0], env)
                    n, nt, nr = self.ex(node.args[1], env)
                    if xt == "elem" and nt == "name" and not xr and not nr:
                        self.use("elem_getattr")
                        return f"elem_getattr {x} {n}", "res", True
                self.fail(node, "getattr")
            if f.id == "Vector":
                return self.vector_call(node, env)
            if f.id == "MethodProxy":
                self.need("methodProxyInitT", node)
                if node.keywords or len(node.args) != len(self.proxy_params):
                    self.fail(node, "MethodProxy arguments")
                parts = []
                for a, want in zip(node.args, self.proxy_params):
                    e, t, r = self.ex(a, env)
                    if t != want or r:
                        self.fail(node, f"MethodProxy argument of type {t} where {want} is expected")
                    parts.append(e)
                return "(methodProxyInitT " + " ".join(parts) + ")", "proxyobj", False
        if isinstance(f, ast.Attribute):
            x, xt, xr = self.ex(f.value, env)
            if xt == "vecobj" and f.attr == "schema" and not node.args and not node.keywords and not xr:
                self.need("schemaT", node)
                return f"schemaT {x}", ("opt", "dtype"), False
            if xt == "elem" and not xr:
                if self.pack(node):
                    self.use("elem_call")
                    return f"elem_call {x} {self.method_name(f.attr)} {env['*'][0]}", "res", True
                if not node.args and not node.keywords:
                    self.use("elem_call0")
                    return f"elem_call0 {x} {self.method_name(f.attr)}", "res", True
        self.fail(node, "call")

    def vector_call(self, node, env, wrap=None):
        """`Vector(values)`: the record of the call's arguments (injected into the function's result type by `wrap` when the call is
        the returned value)"""
        if len(node.args) != 1 or node.keywords:
            self.fail(node, "Vector arguments (only `Vector(values)` is understood)")
        v, vt, vr = self.ex(node.args[0], env)
        if vt != ("list", OPT_RES):
            self.fail(node, f"Vector of values of type {vt}")
        rec = lambda vals: (f"({wrap} ({{ values := {vals}, dtype := none }} : VectorCall _))" if wrap
                            else f"({{ values := {vals}, dtype := none }} : VectorCall _)")
        if vr:
            return f"match {v} with\n⟪I⟫| .error e => .error e\n⟪I⟫| .ok t => .ok {rec('t')}", "vcall", True
        return rec(v), "vcall", False

    def cond(self, node, env):
        e, t, r = self.ex(node, env)
        if t != "bool" or r:
            self.fail(node, f"condition of type {t}")
        return e

    # -- statements -----------------------------------------------------------------------------------------------------
    @staticmethod
    def terminates(body):
        """does every path through the statement list end in return / raise?"""
        body = strip_doc(body)
        if not body:
            return False
        s = body[-1]
        if isinstance(s, (ast.Return, ast.Raise)):
            return True
        if isinstance(s, ast.If):
            return bool(s.orelse) and _Bc.terminates(s.body) and _Bc.terminates(s.orelse)
        return False

    def wrap(self, t):
        """constructor that injects a result of type `t` into the function's result type"""
        return None

    def stmts(self, body, env, ind):
        """a statement list every path of which returns or raises -> a Lean term of type `Except Err <result>`"""
        pad = " " * ind
        body = strip_doc(body)
        if not body:
            raise TranslateError(f"{self.where}: a path ends without return")
        s, rest = body[0], body[1:]
        note = pad + "-- " + quote(s, first_line=isinstance(s, (ast.If, ast.For))) + "\n"
        if isinstance(s, ast.Return):
            if s.value is None or rest:
                self.fail(s, "return")
            if isinstance(s.value, ast.Call) and isinstance(s.value.func, ast.Name) and s.value.func.id == "Vector":
                e, t, r = self.vector_call(s.value, env, wrap=self.wrap("vcall"))
                w = None
            else:
                e, t, r = self.ex(s.value, env)
                w = self.wrap(t)
            e = e.replace("⟪I⟫", pad).replace("⟪J⟫", pad + "    ")
            if t not in self.result_types:
                self.result_types.append(t)
            if r:
                if w is None:
                    return note + pad + e
                return note + pad + f"match {e} with\n{pad}| .error e => .error e\n{pad}| .ok r => .ok ({w} r)"
            return note + pad + (f".ok ({w} {e})" if w else f".ok {e}")
        if isinstance(s, ast.Raise):
            if rest or not (isinstance(s.exc, ast.Call) and isinstance(s.exc.func, ast.Name) and s.exc.func.id in ERR):
                self.fail(s, "raise")
            return note + pad + f".error {ERR[s.exc.func.id]}"
        if isinstance(s, ast.Assign) and len(s.targets) == 1 and isinstance(s.targets[0], ast.Name):
            n = s.targets[0].id
            e, t, r = self.ex(s.value, env)
            if t == "none" or r:
                self.fail(s, "assignment")
            l = ln(n)
            return note + pad + f"let {l} := {e}\n" + self.stmts(rest, dict(env, **{n: (l, t)}), ind)
        if isinstance(s, ast.If):
            nt = self.none_test(s.test, env)
            if s.orelse:
                if rest:
                    self.fail(s, "statements after an if/else")
                if nt:
                    k, lean, is_none = nt
                    nb, sb = (s.body, s.orelse) if is_none else (s.orelse, s.body)
                    return (note + pad + f"match {lean} with\n{pad}| none =>\n" + self.stmts(nb, env, ind + 2) + "\n"
                            + pad + f"| some {lean} =>\n" + self.stmts(sb, self.refine(env, k), ind + 2))
                return (note + pad + f"if {self.cond(s.test, env)} then\n" + self.stmts(s.body, env, ind + 2) + "\n"
                        + pad + "else\n" + pad + "  -- else:\n" + self.stmts(s.orelse, env, ind + 2))
            if not self.terminates(s.body):
                self.fail(s, "an `if` without else whose body does not return or raise")
            if nt:
                k, lean, is_none = nt
                if is_none:
                    return (note + pad + f"match {lean} with\n{pad}| none =>\n" + self.stmts(s.body, env, ind + 2) + "\n"
                            + pad + f"| some {lean} =>\n" + self.stmts(rest, self.refine(env, k), ind + 2))
                return (note + pad + f"match {lean} with\n{pad}| some {lean} =>\n" + self.stmts(s.body, self.refine(env, k), ind + 2) + "\n"
                        + pad + "| none =>\n" + self.stmts(rest, env, ind + 2))
            return (note + pad + f"if {self.cond(s.test, env)} then\n" + self.stmts(s.body, env, ind + 2) + "\n"
                    + pad + "else\n" + self.stmts(rest, env, ind + 2))
        if isinstance(s, ast.For):
            return note + self.for_stmt(s, rest, env, ind)
        self.fail(s, "statement")

    def for_stmt(self, s, rest, env, ind):
        """`for x in L: <body>` whose body only appends to one list `R`: a fold with state `R` (the first raising element aborts)"""
        pad = " " * ind
        if s.orelse or not isinstance(s.target, ast.Name):
            self.fail(s, "for loop")
        src, st, sr = self.ex(s.iter, env)
        if sr or not is_list(st):
            self.fail(s.iter, "iteration over something that is not a tuple of elements")
        appended = {n.func.value.id for n in ast.walk(s) if isinstance(n, ast.Call) and isinstance(n.func, ast.Attribute)
                    and n.func.attr == "append" and isinstance(n.func.value, ast.Name)}
        if len(appended) != 1:
            self.fail(s, "loop body that does not append to exactly one list")
        acc = appended.pop()
        if acc not in env or not is_list(env[acc][1]):
            self.fail(s, f"`{acc}` is not a list here")
        lacc, acct = env[acc]
        x = s.target.id
        lx = ln(x)
        body = self.loop_body(s.body, dict(env, **{x: (lx, st[1])}), ind + 6, acc)
        return (pad + f"match forT (fun {lacc} {lx} =>\n" + body + f") {src} {lacc} with\n"
                + pad + "| .error e => .error e\n" + pad + f"| .ok {lacc} =>\n" + self.stmts(rest, env, ind + 2))

    def loop_body(self, body, env, ind, acc):
        """-> a Lean term of type `Except Err <state>`; control falling off the end gives `.ok <state>`"""
        pad = " " * ind
        body = strip_doc(body)
        lacc, acct = env[acc]
        if not body:
            return pad + f".ok {lacc}"
        s, rest = body[0], body[1:]
        note = pad + "-- " + quote(s, first_line=isinstance(s, ast.If)) + "\n"
        if isinstance(s, ast.Continue):
            return note + pad + f".ok {lacc}"
        if isinstance(s, ast.Expr) and isinstance(s.value, ast.Call) and isinstance(s.value.func, ast.Attribute) \
                and s.value.func.attr == "append" and isinstance(s.value.func.value, ast.Name) and s.value.func.value.id == acc \
                and len(s.value.args) == 1 and not s.value.keywords:
            e, t, r = self.ex(s.value.args[0], env)
            want = acct[1]
            if t == "none" and is_opt(want) and not r:
                item = "none"
            elif is_opt(want) and t == want[1]:
                item = "some r" if r else f"some {e}"
            elif t == want:
                item = "r" if r else e
            else:
                self.fail(s, f"append of a value of type {t} to a list of {want}")
            if r:
                return (note + pad + f"match {e} with\n{pad}| .error e => .error e\n{pad}| .ok r =>\n"
                        + pad + f"  let {lacc} := {lacc} ++ [{item}]\n" + self.loop_body(rest, env, ind + 2, acc))
            return note + pad + f"let {lacc} := {lacc} ++ [{item}]\n" + self.loop_body(rest, env, ind, acc)
        if isinstance(s, ast.If) and not rest:
            nt = self.none_test(s.test, env)
            if nt and s.orelse:
                k, lean, is_none = nt
                nb, sb = (s.body, s.orelse) if is_none else (s.orelse, s.body)
                return (note + pad + f"match {lean} with\n{pad}| none =>\n" + self.loop_body(nb, env, ind + 2, acc) + "\n"
                        + pad + f"| some {lean} =>\n" + pad + "  -- else:\n" + self.loop_body(sb, self.refine(env, k), ind + 2, acc))
        self.fail(s, "statement of a loop body")


# ---------------------------------------------------------------------------------------------------------------------
def sig_check(f, where, names=None, star=False):
    a = f.args
    got = [x.arg for x in a.args]
    if a.kwonlyargs or a.defaults or a.posonlyargs or (names is not None and got != names) or bool(a.vararg) != star or bool(a.kwarg) != star:
        raise TranslateError(f"{where}: signature ({ast.unparse(a)})")
    return got


def type_vars(sig):
    order = ["α", "β", "ν", "κ", "A", "P"]
    found = [v for v in order if re.search(r"(?<![\w])" + v + r"(?![\w])", sig)]
    return "{" + " ".join(found) + " : Type}"


def definition(doc, name, tr, params, rt, body):
    sig = " ".join(ORACLE_SIG[o] for o in tr.oracles)
    full = (sig + " " + params + " " + rt)
    if tr.oracles:
        doc += " (" + "; ".join(ORACLE_DOC[o] for o in tr.oracles) + ")"
    doc += "; `.error` = the exception raised"
    doc = textwrap.fill("/-- " + doc + " -/", width=128, subsequent_indent="    ", break_on_hyphens=False)
    head = f"def {name} {type_vars(full)}"
    if sig:
        head += " " + sig + "\n   "
    return f"{doc}\n{head} {params} : Except Err ({rt}) :=\n{body}"


def translate_schema(vtree):
    f = find_func(vtree, "schema", "Vector")
    sig_check(f, "Vector.schema", ["self"])
    body = strip_doc(f.body)
    if len(body) != 1 or not isinstance(body[0], ast.Return):
        raise TranslateError("Vector.schema: body")
    tr = _Bc("Vector.schema", f)
    e, t, r = tr.ex(body[0].value, {"self": ("self", "vecobj")})
    if t != ("opt", "dtype") or r:
        raise TranslateError("Vector.schema: result type")
    return ("/-- translated from `Vector.schema` -/\ndef schemaT {α : Type} (self : VectorObj α) : Option DType :=\n"
            f"  -- {quote(body[0])}\n  {e}")


PROXY_PARAM_TYPES = ["vecobj", "name"]     # MethodProxy(<the vector>, <the attribute name>)


def translate_proxy_init(vtree):
    """-> (fields {name: type}, text)"""
    f = find_func(vtree, "__init__", "MethodProxy")
    names = sig_check(f, "MethodProxy.__init__")
    if len(names) != 3 or names[0] != "self":
        raise TranslateError("MethodProxy.__init__: signature")
    ptypes = dict(zip(names[1:], PROXY_PARAM_TYPES))
    fields, lines, notes = {}, [], []
    for s in strip_doc(f.body):
        if not (isinstance(s, ast.Assign) and len(s.targets) == 1 and isinstance(s.targets[0], ast.Attribute)
                and isinstance(s.targets[0].value, ast.Name) and s.targets[0].value.id == "self"
                and isinstance(s.value, ast.Name) and s.value.id in ptypes and s.targets[0].attr not in fields):
            raise TranslateError("MethodProxy.__init__: statement " + ast.unparse(s)[:60])
        fields[s.targets[0].attr] = ptypes[s.value.id]
        notes.append(f"  -- {quote(s)}")
        lines.append(f"{s.targets[0].attr} := {ln(s.value.id)}")
    if sorted(fields.values()) != sorted(PROXY_PARAM_TYPES):
        raise TranslateError("MethodProxy.__init__: a parameter is not stored")
    struct = ("/-- the state of a `MethodProxy` object: one field per `self.F = <parameter>` of `MethodProxy.__init__` -/\n"
              "structure MethodProxyObj (α ν : Type) where\n"
              + "".join(f"  {n} : {lean_type(t)}\n" for n, t in fields.items()) + "  deriving DecidableEq, Repr")
    params = " ".join(f"({ln(n)} : {lean_type(t)})" for n, t in ptypes.items())
    text = (struct + "\n\n/-- translated statement by statement from `MethodProxy.__init__` -/\n"
            f"def methodProxyInitT {{α ν : Type}} {params} : MethodProxyObj α ν :=\n" + "\n".join(notes) + "\n  { "
            + ",\n    ".join(lines) + " }")
    return fields, text


def translate_proxy_call(vtree, fields, available):
    f = find_func(vtree, "__call__", "MethodProxy")
    sig_check(f, "MethodProxy.__call__", ["self"], star=True)
    tr = _Bc("MethodProxy.__call__", f, available, proxy_fields=fields)
    env = {"self": ("self", "proxyobj"), "*": ("args", "args")}
    body = tr.stmts(f.body, env, 2)
    if tr.result_types != ["vcall"]:
        raise TranslateError(f"MethodProxy.__call__: result types {tr.result_types}")
    return definition("translated statement by statement from `MethodProxy.__call__`", "methodProxyCallT", tr,
                      "(self : MethodProxyObj α ν) (args : A)", "VectorCall (Option β)", body)


GETATTR_RESULT = """/-- what `Vector.__getattr__` returns: a `MethodProxy` object, or the arguments of the call `Vector(values)` -/
inductive GetAttrResult (α β ν : Type) where
  | proxy (p : MethodProxyObj α ν)
  | vector (c : VectorCall (Option β))
  deriving DecidableEq, Repr"""


class _BcGetattr(_Bc):
    def wrap(self, t):
        if t == "proxyobj":
            return "GetAttrResult.proxy"
        if t == "vcall":
            return "GetAttrResult.vector"
        self.fail(t, "result type")


def translate_getattr(vtree, fields, available):
    f = find_func(vtree, "__getattr__", "Vector")
    names = sig_check(f, "Vector.__getattr__")
    if len(names) != 2 or names[0] != "self":
        raise TranslateError("Vector.__getattr__: signature")
    tr = _BcGetattr("Vector.__getattr__", f, available, proxy_fields=fields, proxy_params=PROXY_PARAM_TYPES)
    env = {"self": ("self", "vecobj"), names[1]: (ln(names[1]), "name")}
    body = tr.stmts(f.body, env, 2)
    return definition("translated statement by statement from `Vector.__getattr__`", "getattrT", tr,
                      f"(self : VectorObj α) ({ln(names[1])} : ν)", "GetAttrResult α β ν", body)


# -- the explicit wrappers of _String / _Date ---------------------------------------------------------------------------
def wrapper_form(f):
    """is the body (docstring dropped) a single `return Vector(…)`?  Every public method of that form must translate to its
    representative's text; anything else (a loop, several statements) is listed under `*OtherNames`, which the tie pins."""
    body = strip_doc(f.body)
    if len(body) != 1 or not isinstance(body[0], ast.Return):
        return False
    v = body[0].value
    return isinstance(v, ast.Call) and isinstance(v.func, ast.Name) and v.func.id == "Vector"


class _BcDerived(_Bc):
    """shape C: the element expression is any expression over the element and the method's parameters only"""

    def __init__(self, *a, params=(), **k):
        super().__init__(*a, **k)
        self.params = list(params)
        self.elem_exprs = []

    def ex(self, node, env):
        if isinstance(node, (ast.Call, ast.Subscript, ast.Attribute, ast.BinOp)) and not isinstance(node, ast.GeneratorExp):
            names = {n.id for n in ast.walk(node) if isinstance(n, ast.Name)}
            elems = {k for k in names if k in env and env[k][1] == "elem"}
            if len(elems) == 1 and names <= elems | set(self.params) and not any(isinstance(n, (ast.Lambda, ast.GeneratorExp, ast.ListComp,
                                                                                                ast.NamedExpr, ast.Starred)) for n in ast.walk(node)):
                self.use("elem_expr")
                self.elem_exprs.append(ast.unparse(node))
                return f"elem_expr {env[elems.pop()][0]} params", "res", True
        return super().ex(node, env)


def translate_wrapper(cls, f):
    """-> (shape, lean text of the body with the method's own name / element expression abstracted, extra)"""
    a = f.args
    names = [x.arg for x in a.args]
    if a.kwonlyargs or a.defaults or a.posonlyargs or not names or names[0] != "self":
        raise TranslateError(f"{cls}.{f.name}: signature ({ast.unparse(a)})")
    where = f"{cls}.{f.name}"
    if a.vararg and a.kwarg and names == ["self"]:
        tr = _Bc(where, f, name_param=(f.name, "m"))
        tr.canon_elem = "s"
        body = tr.stmts(f.body, {"self": ("self", "vecobj"), "*": ("args", "args")}, 2)
        if tr.oracles != ["elem_call"] or tr.result_types != ["vcall"]:
            raise TranslateError(f"{where}: not the per-element call of its own name with (*args, **kwargs)")
        return "A", tr, body, None
    if not a.vararg and not a.kwarg and names == ["self"]:
        tr = _Bc(where, f, name_param=(f.name, "m"))
        tr.canon_elem = "s"
        body = tr.stmts(f.body, {"self": ("self", "vecobj")}, 2)
        if tr.oracles != ["elem_call0"] or tr.result_types != ["vcall"]:
            raise TranslateError(f"{where}: not the per-element call of its own name without arguments")
        return "B", tr, body, None
    if not a.vararg and not a.kwarg:
        tr = _BcDerived(where, f, params=names[1:])
        tr.canon_elem = "s"
        body = tr.stmts(f.body, {"self": ("self", "vecobj")}, 2)
        if tr.oracles != ["elem_expr"] or tr.result_types != ["vcall"] or len(tr.elem_exprs) != 1:
            raise TranslateError(f"{where}: not a per-element expression over the element and the parameters")
        return "C", tr, body, tr.elem_exprs[0]
    raise TranslateError(f"{where}: signature ({ast.unparse(a)})")


def unquote(body):
    """the Lean text without the quoted Python (which names the method)"""
    return "\n".join(l for l in body.split("\n") if not l.strip().startswith("--"))


WRAPPER_CLASSES = [("_String", "string"), ("_Date", "date")]
SHAPES = {"A": ("wrapperMethodT", "upper", "(m : ν) (self : VectorObj α) (args : A)", "Wrapper"),
          "B": ("wrapperMethod0T", "capitalize", "(m : ν) (self : VectorObj α)", "Wrapper0"),
          "C": ("derivedMethodT", "before", "(self : VectorObj α) (params : P)", "Derived")}


def lean_strs(names):
    return "[" + ", ".join('"' + n + '"' for n in names) + "]"


def translate_wrappers(vtree):
    """-> text (the three representatives and the name lists)"""
    classes = {n.name: n for n in ast.walk(vtree) if isinstance(n, ast.ClassDef)}
    got = {}          # shape -> (representative's class.name, tr, body)
    lists = {}        # (prefix, shape) -> names
    others = {}       # prefix -> names of public methods of another form
    for cls, prefix in WRAPPER_CLASSES:
        if cls not in classes:
            raise TranslateError(f"class {cls} not found")
        others[prefix] = []
        for f in classes[cls].body:
            if not isinstance(f, ast.FunctionDef) or f.name.startswith("_"):
                continue
            if not wrapper_form(f):
                others[prefix].append(f.name)
                continue
            shape, tr, body, extra = translate_wrapper(cls, f)
            lists.setdefault((prefix, shape), []).append(f.name)
            rep = SHAPES[shape][1]
            if shape not in got and (f.name == rep and cls == "_String"):
                got[shape] = (f"{cls}.{f.name}", tr, body, f)
            got.setdefault(("all", shape), []).append((f"{cls}.{f.name}", unquote(body)))
    parts = []
    for shape, (lean_name, rep, params, suffix) in SHAPES.items():
        if shape not in got:
            raise TranslateError(f"_String.{rep}: the representative of wrapper shape {shape} was not found in that shape")
        who, tr, body, f = got[shape]
        for other, text in got[("all", shape)]:
            if text != unquote(body):
                raise TranslateError(f"{other}: not of the shape of the representative {who}")
        doc = (f"translated from `{who}`, the representative of the explicit per-element wrappers of shape {shape} "
               + {"A": "(`def NAME(self, *args, **kwargs)`; `m` is the method's own name NAME, which is also the name looked up on each element)",
                  "B": "(`def NAME(self)`; `m` is the method's own name NAME, which is also the name looked up on each element)",
                  "C": "(`def NAME(self, p1, …)`; the element expression, here `" + got[shape][1].elem_exprs[0].replace("-/", "- /")
                       + "`, mentions the element and the parameters only)" if shape == "C" else ""}[shape]
               + f"; every method listed in `*{suffix}Names` below gives this same text")
        parts.append(definition(doc, lean_name, tr, params, "VectorCall (Option β)", body))
    for cls, prefix in WRAPPER_CLASSES:
        for shape, (_, _, _, suffix) in SHAPES.items():
            parts.append(f"/-- the public methods of `{cls}` that are wrappers of shape {shape} (each one translated and compared with the "
                         f"representative) -/\ndef {prefix}{suffix}Names : List String :=\n  {lean_strs(lists.get((prefix, shape), []))}")
        parts.append(f"/-- the other public methods of `{cls}` (not translated here) -/\ndef {prefix}OtherNames : List String :=\n  "
                     + lean_strs(others[prefix]))
    return "\n\n".join(parts)


# -- which names never reach __getattr__ --------------------------------------------------------------------------------
SUBCLASSES = [("_String", "string"), ("_Int", "int"), ("_Float", "float"), ("_Date", "date")]


def class_names(cdef):
    """the names bound in a class body (def, assignment, annotated assignment), in source order, without repetition"""
    out = []
    for s in cdef.body:
        ns = []
        if isinstance(s, (ast.FunctionDef, ast.AsyncFunctionDef, ast.ClassDef)):
            ns = [s.name]
        elif isinstance(s, ast.Assign):
            ns = [t.id for t in s.targets if isinstance(t, ast.Name)]
        elif isinstance(s, ast.AnnAssign) and isinstance(s.target, ast.Name) and s.value is not None:
            ns = [s.target.id]
        elif isinstance(s, ast.Expr) and isinstance(s.value, ast.Constant):
            continue
        elif isinstance(s, ast.Pass):
            continue
        else:
            raise TranslateError(f"class {cdef.name}: statement in the class body: {ast.unparse(s)[:60]}")
        for n in ns:
            if n not in out:
                out.append(n)
    return out


def instance_names(cdef):
    """attributes assigned on the new object by `__new__` (`instance.N = …`) and on `self` anywhere in the class (`self.N = …`)"""
    out = []
    for f in cdef.body:
        if not isinstance(f, ast.FunctionDef):
            continue
        owner = "self" if not f.name == "__new__" else "instance"
        for n in ast.walk(f):
            targets = []
            if isinstance(n, ast.Assign):
                targets = n.targets
            elif isinstance(n, (ast.AnnAssign, ast.AugAssign)):
                targets = [n.target]
            for t in targets:
                for tt in (t.elts if isinstance(t, ast.Tuple) else [t]):
                    if isinstance(tt, ast.Attribute) and isinstance(tt.value, ast.Name) and tt.value.id == owner and tt.attr not in out:
                        out.append(tt.attr)
    return out


def translate_dispatch(vtree):
    """the subclass dispatch of `Vector.__new__`: `target_class = cls`, `if dtype is not None: if dtype.kind is K: target_class = C elif …`"""
    f = find_func(vtree, "__new__", "Vector")
    body = strip_doc(f.body)
    idx = [i for i, s in enumerate(body) if ast.unparse(s) == "target_class = cls"]
    if len(idx) != 1 or idx[0] + 1 >= len(body):
        raise TranslateError("Vector.__new__: `target_class = cls`")
    s = body[idx[0] + 1]
    if not (isinstance(s, ast.If) and ast.unparse(s.test) == "dtype is not None" and not s.orelse and len(s.body) == 1):
        raise TranslateError("Vector.__new__: the dispatch guard: " + ast.unparse(s)[:60])
    for later in body[idx[0] + 2:]:
        for n in ast.walk(later):
            if isinstance(n, (ast.Assign, ast.AugAssign, ast.AnnAssign)) and "target_class" in [ast.unparse(t) for t in
                                                                                              (n.targets if isinstance(n, ast.Assign) else [n.target])]:
                raise TranslateError("Vector.__new__: target_class is assigned again")
    known = dict(SUBCLASSES)
    arms, notes = [], []
    cur = s.body[0]
    while True:
        if not (isinstance(cur, ast.If) and isinstance(cur.test, ast.Compare) and len(cur.test.ops) == 1
                and isinstance(cur.test.ops[0], ast.Is) and ast.unparse(cur.test.left) == "dtype.kind"
                and isinstance(cur.test.comparators[0], ast.Name) and cur.test.comparators[0].id in KINDS
                and len(cur.body) == 1 and isinstance(cur.body[0], ast.Assign) and ast.unparse(cur.body[0].targets[0]) == "target_class"
                and isinstance(cur.body[0].value, ast.Name) and cur.body[0].value.id in known):
            raise TranslateError("Vector.__new__: dispatch arm: " + ast.unparse(cur)[:60])
        arms.append((KINDS[cur.test.comparators[0].id], known[cur.body[0].value.id]))
        notes.append(f"{'if' if len(arms) == 1 else 'elif'} {ast.unparse(cur.test)}: {ast.unparse(cur.body[0])}")
        if not cur.orelse:
            break
        if len(cur.orelse) != 1:
            raise TranslateError("Vector.__new__: dispatch else")
        cur = cur.orelse[0]
    lines = ["/-- the classes `Vector.__new__` chooses between -/", "inductive TargetClass where",
             "  | vector" + "".join(f" | {p}" for _, p in SUBCLASSES), "  deriving DecidableEq, Repr", "",
             "/-- translated from the subclass dispatch of `Vector.__new__` (called as `Vector(…)`, so `cls` is `Vector`); `dtype` is the",
             "    given or inferred dtype, `none` for an empty vector without `dtype=` -/",
             "def targetClassT (dtype : Option DType) : TargetClass :=", "  -- target_class = cls", "  let target_class := TargetClass.vector",
             "  -- if dtype is not None:", "  match dtype with", "  | none => target_class", "  | some dtype =>"]
    ind = "    "
    for (k, p), note in zip(arms, notes):
        lines.append(f"{ind}-- {note}")
        lines.append(f"{ind}if dtype.kind == {k} then TargetClass.{p}")
        lines.append(f"{ind}else")
        ind += "  "
    lines.append(f"{ind}target_class")
    return "\n".join(lines)


def translate_names(vtree):
    classes = {n.name: n for n in ast.walk(vtree) if isinstance(n, ast.ClassDef)}
    if "Vector" not in classes:
        raise TranslateError("class Vector not found")
    parts = ["/-- the names bound in the body of `class Vector` (methods, properties, class attributes), in source order -/\n"
             "def vectorClassNames : List String :=\n  " + lean_strs(class_names(classes["Vector"])),
             "/-- the attributes assigned on the object itself: `instance.N = …` in `Vector.__new__`, `self.N = …` in the methods of `Vector` -/\n"
             "def vectorInstanceNames : List String :=\n  " + lean_strs(instance_names(classes["Vector"]))]
    for cls, prefix in SUBCLASSES:
        if cls not in classes or [ast.unparse(b) for b in classes[cls].bases] != ["Vector"]:
            raise TranslateError(f"class {cls}(Vector) not found")
        parts.append(f"/-- the names bound in the body of `class {cls}(Vector)` -/\ndef {prefix}ClassNames : List String :=\n  "
                     + lean_strs(class_names(classes[cls])))
    parts.append(translate_dispatch(vtree))
    parts.append("/-- the names ordinary attribute lookup finds on an object of the class `Vector.__new__` chose, so that Python never calls\n"
                 "    `Vector.__getattr__` for them (the object's own attributes, the class body, the body of `Vector`; the attributes of\n"
                 "    `object` itself -- `__class__`, `__repr__`, … -- come on top and are not listed) -/\n"
                 "def ownNamesT (c : TargetClass) : List String :=\n  vectorInstanceNames ++\n  (match c with\n   | .vector => []"
                 + "".join(f"\n   | .{p} => {p}ClassNames" for _, p in SUBCLASSES) + ") ++\n  vectorClassNames\n\n"
                 "/-- is `name` answered by `Vector.__getattr__` (that is: not found by ordinary lookup) on a vector of dtype `dtype`?\n"
                 "    `object_has` tells the attributes of `object` itself -/\n"
                 "def reachesGetattrT (object_has : String → Bool) (dtype : Option DType) (name : String) : Bool :=\n"
                 "  !(object_has name || (ownNamesT (targetClassT dtype)).contains name)")
    return "\n\n".join(parts)


PRELUDE = """/-- a `Vector` object as far as these functions read it -/
structure VectorObj (α : Type) where
  _underlying : List (Option α)
  _dtype : Option DType
  deriving DecidableEq, Repr

/-- the arguments of a constructor call `Vector(values)`; `dtype = none`: no `dtype=` argument, `Vector.__new__` infers it -/
structure VectorCall (ε : Type) where
  values : List ε
  dtype : Option DType
  deriving DecidableEq, Repr

/-- `tuple(f(x) for x in l)` where `f(x)` may raise: the first raising element aborts the whole expression -/
def tupleGenT {ε ρ : Type} (f : ε → Except Err ρ) : List ε → Except Err (List ρ)
  | [] => .ok []
  | x :: xs =>
    match f x with
    | .error e => .error e
    | .ok r =>
      match tupleGenT f xs with
      | .error e => .error e
      | .ok rs => .ok (r :: rs)

/-- `for x in l: <body>` where the body updates the state `s` or raises: the first raising iteration aborts the loop -/
def forT {ε σ : Type} (body : σ → ε → Except Err σ) : List ε → σ → Except Err σ
  | [], s => .ok s
  | x :: xs, s =>
    match body s x with
    | .error e => .error e
    | .ok s' => forT body xs s'"""


def translate_all(vsrc):
    parts, errors = [PRELUDE], []
    vtree = ast.parse(vsrc)
    available = set()

    def piece(what, fn, provides=()):
        try:
            parts.append(fn())
            available.update(provides)
            return True
        except Exception as ex:
            errors.append((what, f"{type(ex).__name__}: {ex}"))
            parts.append(f"-- {what}: not translated ({type(ex).__name__})")
            return False

    piece("Vector.schema", lambda: translate_schema(vtree), ["schemaT"])
    fields = {}

    def init():
        f, text = translate_proxy_init(vtree)
        fields.update(f)
        return text
    piece("MethodProxy.__init__", init, ["methodProxyInitT"])

    def need_init(fn):
        def go():
            if "methodProxyInitT" not in available:
                raise TranslateError("MethodProxy.__init__ was not translated")
            return fn()
        return go
    piece("MethodProxy.__call__", need_init(lambda: translate_proxy_call(vtree, fields, available)))
    piece("Vector.__getattr__", need_init(lambda: GETATTR_RESULT + "\n\n" + translate_getattr(vtree, fields, available)))
    piece("wrappers", lambda: translate_wrappers(vtree))
    piece("names", lambda: translate_names(vtree))
    return parts, errors


def generate(src_dir):
    try:
        vsrc = open(os.path.join(src_dir, "vector.py")).read()
        parts, errors = translate_all(vsrc)
    except Exception as ex:
        parts, errors = [f"-- broadcast: not translated ({type(ex).__name__})"], [("broadcast", f"{type(ex).__name__}: {ex}")]
    text = ("/- GENERATED by harness/tr/broadcast.py from /repo's working tree — do not edit.\n"
            "   Attribute broadcasting: Vector.schema, MethodProxy.__init__ / __call__, Vector.__getattr__, the explicit per-element wrappers of\n"
            "   _String / _Date, the names ordinary lookup answers; equivalence theorems in Serif/Tie/Broadcast.lean. -/\n"
            "import Serif.Prelude\n\nset_option linter.unusedVariables false\n\nnamespace Serif.Gen.TBc\nopen Serif\n\n"
            + "\n\n".join(parts) + "\n\nend Serif.Gen.TBc\n")
    return text, errors


if __name__ == "__main__":
    import sys
    t, e = generate(sys.argv[1] if len(sys.argv) > 1 else "/repo/src/serif")
    print(t)
    print(e, file=sys.stderr)
