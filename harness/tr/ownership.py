"""Translator plug-in: ownership of column objects (C01, C02) -> lean/Serif/Gen/TranslatedOwnership.lean

Which operations hand out fresh objects and which hand out the live object.  Reads src/serif/table.py and src/serif/vector.py
with `ast` and produces

  1. an *ownership summary* `ownershipT`: for every operation of OPS and every place where it hands out an object (a `return`)
     or replaces the column tuple of `self` (`super().__init__(cols, …)` in `Table.__init__`, `self._swap_columns(cols)`), the
     kind of the object and, for every group of its columns, where the Vector objects come from:
         fresh       built here: `Vector(<data>)`, `x.copy()`, or any Vector that went through `Table(…)` / `Vector(<vectors>)`
                     *while `Table.__init__` is found to copy every incoming vector*
         column k    the live column objects of operand k (`self._underlying`, `self.cols()`, `other.cols()`, loop variables over them)
         operand k   operand k itself / an element of operand k, stored as it is
         own         (update sites) columns of `self` that stay where they are
     found by a small abstract interpretation of the function bodies (class `_Flow`): it follows Vector objects through locals,
     tuples/lists, `+`, `tuple()`/`list()`, comprehensions, `zip`/`enumerate`/`.items()`, `.append`, `cols[i] = v`, branches and loops.
     A Vector produced by an operation the interpreter does not model (`x[key]`, `x << y`, `op_func(col, other)`, `-col`, …) is
     `derived`: it is accepted only when it goes through the copying constructor; a `derived` or unknown object handed out
     directly raises TranslateError (the summary is then missing and the tie stops building).
  2. the copying statements themselves, translated onto the object heap of Serif/Model/ObjHeap.lean (shape-checked, statement by
     statement, the Python text quoted in the docstrings): `Table.__init__` (`tableInitT`), the column replacement block of
     `Table.__setattr__` (`setattrReplaceT`), the multi-name branch of `Table.__getitem__` (`selectT`), the dict form of
     `Table.__rshift__` (`rshiftDictT`).  `Vector(<data>)` is the heap's `allocVec` with the data as a parameter; `x.copy()` is
     `copyT` (a new object showing what `x` shows), recognised from the shape of `Vector.copy`.

Comments, docstrings, blank lines and message texts play no role.  lean/Serif/Tie/Ownership.lean states the expected table and
proves the generated one equal to it, proves the translated statements equal to the model's `alloc` / `step · (.setAttr …)` /
`step · (.derive …)`, and instantiates `derive_independent` / `write_frame` for the derivations.
"""
import ast, os

from py2lean import TranslateError, find_func

GEN_FILE = "TranslatedOwnership.lean"
TIE = {"Serif.Tie.Ownership": ["C01", "C02"]}

# (class, function) in the order of the generated table
OPS = (("Table", "__init__"), ("Table", "__setattr__"), ("Table", "__getattr__"), ("Table", "__getitem__"),
       ("Table", "__rshift__"), ("Table", "__lshift__"), ("Table", "__copy__"), ("Table", "T"),
       ("Table", "_table_elementwise_operation"), ("Table", "__neg__"), ("Table", "__pos__"), ("Table", "__abs__"),
       ("Table", "__invert__"), ("Table", "inner_join"), ("Table", "join"), ("Table", "full_join"), ("Table", "aggregate"),
       ("Table", "window"), ("Table", "sort_by"), ("Vector", "copy"), ("Vector", "__copy__"), ("Vector", "__deepcopy__"),
       ("Vector", "cols"))

FRESH, DERIVED, MIXED = ("fresh",), ("derived",), ("mixed",)
OPAQUE, REC = ("opaque",), ("rec",)


def _u(n):
    return ast.unparse(n)


def _strip(stmts):
    return [s for s in stmts if not (isinstance(s, ast.Expr) and isinstance(s.value, ast.Constant))
            and not isinstance(s, (ast.Import, ast.ImportFrom, ast.Pass))]


class _Msg(ast.NodeTransformer):
    """error and warning messages do not matter"""
    def visit_Raise(self, node):
        if isinstance(node.exc, ast.Call):
            node.exc.args, node.exc.keywords = [ast.Constant(value=...)], []
        return node

    def visit_Call(self, node):
        self.generic_visit(node)
        if _u(node.func) == "warnings.warn":
            node.args, node.keywords = [ast.Constant(value=...)], []
        return node


def _norm(stmt):
    return _u(_Msg().visit(ast.parse(_u(stmt))))


def _doc(title, stmts, limit=70):
    lines = []
    for s in _strip(stmts):
        lines += _norm(s).split("\n")
    lines = [ln for ln in lines if not ln.strip().startswith(('"""', "'''"))]
    if len(lines) > limit:
        lines = lines[:limit] + ["…"]
    body = "\n".join("      " + ln for ln in lines).replace("-/", "- /").replace("/-", "/ -")
    return "/-- " + title + "\n" + body + " -/\n"


# ------------------------------------------------------------------------------------------------------------------------------
# 1. the abstract interpretation
# ------------------------------------------------------------------------------------------------------------------------------

def _add(groups, src):
    return groups if src in groups else groups + [src]


def _merge(a, b):
    if a == b:
        return a
    if a is None:
        return b
    if b is None:
        return a
    if a[0] == "seq" and b[0] == "seq":
        g = list(a[1])
        for s in b[1]:
            g = _add(g, s)
        return ("seq", g)
    if a[0] == "seq" and b[0] == "obj":
        return _merge(a, ("seq", [("operand", b[1])]))
    if a[0] == "obj" and b[0] == "seq":
        return _merge(("seq", [("operand", a[1])]), b)
    if a[0] == "vec" and b[0] == "vec":
        return ("vec", MIXED)
    if (a == ("vec", FRESH) and b[0] == "tab") or (b == ("vec", FRESH) and a[0] == "tab"):
        return ("vec", FRESH)       # as an object, a table just built is a new object
    if a == OPAQUE and b[0] == "seq" and not b[1]:
        return a
    if b == OPAQUE and a[0] == "seq" and not a[1]:
        return b
    if a == OPAQUE or b == OPAQUE:
        # one path holds an object, the other something unknown: keep the object (the stricter reading)
        return b if a == OPAQUE else a
    return ("vec", MIXED)


class _Flow:
    def __init__(self, what, fn, init_copies, in_getitem=False):
        self.what, self.fn, self.init_copies = what, fn, init_copies
        self.sites = {}      # (lineno, col) -> (kind, value, text)
        self.rec_self = in_getitem
        args = [a.arg for a in fn.args.args] + [a.arg for a in fn.args.kwonlyargs]
        self.env0 = {}
        for k, a in enumerate(args):
            self.env0[a] = ("obj", k)
        self.selfname = args[0] if args else None

    # -- expressions ----------------------------------------------------------------------------------------------------------
    def funnel(self, groups):
        """what `Table.__init__` does to incoming vectors"""
        if self.init_copies:
            return [FRESH for _ in groups]
        return list(groups)

    def seq_of(self, v):
        if v[0] == "seq":
            return v
        if v[0] == "obj":
            return ("seq", [("operand", v[1])])
        if v[0] == "tab":
            return ("seq", list(v[1]))
        if v == REC:
            return REC
        return OPAQUE

    def elem_of(self, v):
        """loop variable over v"""
        if v[0] == "seq":
            if not v[1]:
                return OPAQUE
            return ("vec", v[1][0] if len(v[1]) == 1 else MIXED)
        if v[0] == "obj":
            return ("vec", ("operand", v[1]))
        if v[0] == "tab":
            return self.elem_of(("seq", list(v[1])))
        if v == REC:
            return REC
        if v[0] == "vec":
            return OPAQUE      # elements of a vector are scalars
        return OPAQUE

    def holds(self, v):
        return v[0] in ("vec", "seq", "obj", "tab") or v == REC

    def ev(self, e, env):
        if isinstance(e, ast.Name):
            return env.get(e.id, OPAQUE)
        if isinstance(e, ast.Constant) or isinstance(e, ast.JoinedStr):
            return OPAQUE
        if isinstance(e, (ast.Tuple, ast.List)):
            vals = [self.ev(x, env) for x in e.elts]
            if not vals:
                return ("seq", [])
            if not any(self.holds(v) for v in vals):
                return OPAQUE
            g = []
            for v, x in zip(vals, e.elts):
                if v[0] == "vec":
                    g = _add(g, v[1])
                elif v[0] == "obj":
                    g = _add(g, ("operand", v[1]))
                elif v[0] == "tab":
                    g = _add(g, FRESH)
                elif v == OPAQUE:
                    continue
                else:
                    raise TranslateError(f"{self.what}: element {_u(x)[:40]} of a tuple is not a single object")
            return ("seq", g)
        if isinstance(e, ast.IfExp):
            return _merge(self.ev(e.body, env), self.ev(e.orelse, env))
        if isinstance(e, ast.Attribute):
            b = self.ev(e.value, env)
            if e.attr == "_underlying":
                if b[0] == "obj":
                    return ("seq", [("column", b[1])])
                if b[0] == "tab":
                    return ("seq", list(b[1]))
                if b == REC:
                    return REC
                return OPAQUE        # the element tuple of a column: scalars
            if b[0] in ("vec", "obj", "tab") and e.attr in ("T",):
                return ("vec", DERIVED)
            if b == REC:
                return REC
            return OPAQUE
        if isinstance(e, ast.Subscript):
            b = self.ev(e.value, env)
            if b[0] == "seq":
                if isinstance(e.slice, ast.Slice):
                    return b
                return self.elem_of(b) if b[1] else OPAQUE
            if b[0] == "obj":
                if self.rec_self and b[1] == 0:
                    return REC
                return ("vec", DERIVED)
            if b[0] in ("vec", "tab"):
                return ("vec", DERIVED)
            if b == REC:
                return REC
            return OPAQUE
        if isinstance(e, ast.BinOp):
            l, r = self.ev(e.left, env), self.ev(e.right, env)
            if isinstance(e.op, ast.Add) and l[0] == "seq" and r[0] == "seq":
                g = list(l[1])
                for s in r[1]:
                    g = g + [s]          # concatenation keeps both groups, also when they are of the same kind
                return ("seq", g)
            if self.holds(l) or self.holds(r):
                return ("vec", DERIVED)
            return OPAQUE
        if isinstance(e, ast.UnaryOp):
            v = self.ev(e.operand, env)
            if isinstance(e.op, ast.Not):
                return OPAQUE
            return ("vec", DERIVED) if self.holds(v) else OPAQUE
        if isinstance(e, (ast.GeneratorExp, ast.ListComp)):
            env2 = dict(env)
            for g in e.generators:
                self.bind_iter(g.target, g.iter, env2)
            v = self.ev(e.elt, env2)
            if v[0] == "vec":
                return ("seq", [v[1]])
            if v[0] == "obj":
                return ("seq", [("operand", v[1])])
            if v[0] == "tab":
                return ("seq", [FRESH])
            if v == REC:
                return REC
            return OPAQUE
        if isinstance(e, (ast.Compare, ast.BoolOp, ast.Lambda, ast.Dict, ast.Set, ast.SetComp, ast.DictComp)):
            return OPAQUE
        if isinstance(e, ast.Call):
            return self.call(e, env)
        if isinstance(e, ast.Starred):
            return self.ev(e.value, env)
        return OPAQUE

    def call(self, e, env):
        f = e.func
        args = [self.ev(a, env) for a in e.args]
        kws = {k.arg: self.ev(k.value, env) for k in e.keywords}
        fname = f.id if isinstance(f, ast.Name) else None
        if fname in ("Vector", "Table", "cls"):
            a0 = args[0] if args else kws.get("initial", ("seq", []))
            if a0[0] in ("seq", "tab") or (a0[0] == "obj" and fname == "Table"):
                return ("tab", self.funnel(self.seq_of(a0)[1]))
            if a0 == REC:
                return ("tab", [FRESH] if self.init_copies else [MIXED])
            return ("vec", FRESH)       # `Vector(<data>)`, `Vector(<a vector>)`: a new object over the elements
        if fname in ("tuple", "list") and len(args) == 1:
            return self.seq_of(args[0])
        if fname in ("isinstance", "len", "type", "id", "hasattr", "all", "any", "range", "set", "str", "repr", "int", "bool"):
            return OPAQUE
        if fname == "Row":
            return ("row",)
        if isinstance(f, ast.Attribute):
            recv = self.ev(f.value, env)
            if f.attr == "copy":
                if recv[0] == "vec":
                    return ("vec", FRESH)
                if recv[0] == "obj":
                    if args:
                        return ("tab", self.funnel(self.seq_of(args[0])[1] if self.seq_of(args[0])[0] == "seq" else [DERIVED]))
                    return ("tab", self.funnel([("column", recv[1])]))
                if recv[0] == "tab" or recv == REC:
                    return ("tab", [FRESH])
                return OPAQUE
            if f.attr == "cols":
                base = None
                if recv[0] == "obj":
                    base = ("seq", [("column", recv[1])])
                elif recv[0] == "tab":
                    base = ("seq", list(recv[1]))
                elif recv == REC:
                    return REC
                if base is not None:
                    return self.elem_of(base) if args else base
                return OPAQUE
            if f.attr == "items" and recv[0] == "obj":
                return ("items", recv[1])
            if _u(f) == "super().__getattribute__":
                return ("super",)
            if self.holds(recv) or any(self.holds(a) for a in args):
                return ("vec", DERIVED) if recv != REC else REC
            return OPAQUE
        if fname in ("zip", "enumerate"):
            return OPAQUE
        if any(self.holds(a) for a in args) or any(self.holds(a) for a in kws.values()):
            return ("vec", DERIVED)
        return OPAQUE

    def bind(self, target, v, env):
        if isinstance(target, ast.Name):
            env[target.id] = v
        elif isinstance(target, (ast.Tuple, ast.List)):
            for t in target.elts:
                self.bind(t, OPAQUE, env)

    def bind_iter(self, target, it, env):
        """`for target in it`"""
        if isinstance(it, ast.Call) and isinstance(it.func, ast.Name) and it.func.id == "zip" and isinstance(target, ast.Tuple):
            its = [a for a in it.args]
            if len(its) == len(target.elts):
                for t, a in zip(target.elts, its):
                    self.bind(t, self.elem_of(self.ev(a, env)), env)
                return
        if isinstance(it, ast.Call) and isinstance(it.func, ast.Name) and it.func.id == "enumerate" and isinstance(target, ast.Tuple) \
                and len(target.elts) == 2 and it.args:
            self.bind(target.elts[0], OPAQUE, env)
            inner = it.args[0]
            if isinstance(target.elts[1], ast.Tuple):
                self.bind_iter(target.elts[1], inner, env)
            else:
                self.bind(target.elts[1], self.elem_of(self.ev(inner, env)), env)
            return
        v = self.ev(it, env)
        if v[0] == "items" and isinstance(target, ast.Tuple) and len(target.elts) == 2:
            self.bind(target.elts[0], OPAQUE, env)
            self.bind(target.elts[1], ("vec", ("operand", v[1])), env)
            return
        self.bind(target, self.elem_of(v), env)

    # -- statements -----------------------------------------------------------------------------------------------------------
    def site(self, node, kind, v):
        key = (node.lineno, node.col_offset)
        old = self.sites.get(key)
        if old is not None and old[1] != v:
            v = _merge(old[1], v)
        self.sites[key] = (kind, v, _norm(node).split("\n")[0][:70])

    def walk(self, stmts, env):
        """-> env after the statements, or None when every path has returned / raised"""
        for s in _strip(stmts):
            if env is None:
                return None
            env = self.stmt(s, env)
        return env

    def join(self, a, b):
        if a is None:
            return b
        if b is None:
            return a
        out = {}
        for k in set(a) | set(b):
            out[k] = _merge(a.get(k), b.get(k))
        return out

    def stmt(self, s, env):
        if isinstance(s, ast.Return):
            self.site(s, "return", self.ev(s.value, env) if s.value is not None else ("none",))
            return None
        if isinstance(s, ast.Raise):
            return None
        if isinstance(s, ast.Assign) and len(s.targets) == 1:
            t = s.targets[0]
            if isinstance(t, ast.Name):
                env = dict(env)
                env[t.id] = self.ev(s.value, env)
                return env
            if isinstance(t, (ast.Tuple, ast.List)):
                env = dict(env)
                if isinstance(s.value, (ast.Tuple, ast.List)) and len(s.value.elts) == len(t.elts):
                    vals = [self.ev(x, env) for x in s.value.elts]
                    for tt, v in zip(t.elts, vals):
                        self.bind(tt, v, env)
                else:
                    self.bind(t, OPAQUE, env)
                return env
            if isinstance(t, ast.Subscript) and isinstance(t.value, ast.Name):
                b = env.get(t.value.id, OPAQUE)
                v = self.ev(s.value, env)
                if b[0] == "seq" and self.holds(v):
                    env = dict(env)
                    src = v[1] if v[0] == "vec" else ("operand", v[1]) if v[0] == "obj" else FRESH if v[0] == "tab" else MIXED
                    env[t.value.id] = ("seq", _add(list(b[1]), src))
                return env
            if isinstance(t, ast.Attribute):
                if t.attr == "_underlying" and isinstance(t.value, ast.Name) and t.value.id == self.selfname:
                    self.site(s, "update", self.ev(s.value, env))
                    return env
                b = self.ev(t.value, env)
                if b[0] == "vec" and b[1][0] in ("operand", "column", "mixed") and not (self.fn.name == "__init__" and b[1] == ("column", 0)):
                    # `x._name = …` on a Vector object that belongs to an operand: a derivation must not write to its operands
                    raise TranslateError(f"{self.what}: `{_norm(s)[:60]}` writes to an object of an operand ({b[1][0]})")
                return env
            return env
        if isinstance(s, ast.AugAssign) and isinstance(s.target, ast.Name):
            env = dict(env)
            l, r = env.get(s.target.id, OPAQUE), self.ev(s.value, env)
            if l[0] == "seq" and self.seq_of(r)[0] == "seq":
                env[s.target.id] = ("seq", l[1] + self.seq_of(r)[1])
            elif self.holds(l) or self.holds(r):
                env[s.target.id] = ("vec", DERIVED)
            return env
        if isinstance(s, ast.Expr) and isinstance(s.value, ast.Call):
            c = s.value
            if isinstance(c.func, ast.Attribute) and c.func.attr in ("append", "extend", "insert") and isinstance(c.func.value, ast.Name):
                nm = c.func.value.id
                b = env.get(nm, OPAQUE)
                v = self.ev(c.args[-1], env)
                if self.holds(v):
                    if b[0] != "seq":
                        if b == OPAQUE:
                            return env
                        raise TranslateError(f"{self.what}: {_u(c)[:50]}: not a list of vectors")
                    env = dict(env)
                    if c.func.attr == "extend":
                        srcs = self.seq_of(v)[1] if self.seq_of(v)[0] == "seq" else [MIXED]
                    else:
                        srcs = [v[1] if v[0] == "vec" else ("operand", v[1]) if v[0] == "obj" else FRESH if v[0] == "tab" else MIXED]
                    g = list(b[1])
                    for x in srcs:
                        g = _add(g, x)
                    env[nm] = ("seq", g)
                return env
            if _u(c.func) == f"{self.selfname}._swap_columns" and len(c.args) == 1:
                self.site(s, "update", self.ev(c.args[0], env))
                return env
            if _u(c.func) == "super().__init__" and self.fn.name == "__init__":
                a0 = self.ev(c.args[0], env) if c.args else ("seq", [])
                self.site(s, "update", a0)
                return env
            if _u(c.func) == "object.__setattr__" and len(c.args) == 3 and _u(c.args[1]) == "'_underlying'":
                self.site(s, "update", self.ev(c.args[2], env))
                return env
            return env
        if isinstance(s, ast.If):
            a = self.walk(s.body, dict(env))
            b = self.walk(s.orelse, dict(env)) if s.orelse else env
            return self.join(a, b)
        if isinstance(s, (ast.For, ast.While)):
            cur = env
            for _ in range(4):
                e2 = dict(cur)
                if isinstance(s, ast.For):
                    self.bind_iter(s.target, s.iter, e2)
                after = self.walk(s.body, e2)
                new = self.join(cur, after)
                if new == cur:
                    break
                cur = new
            if s.orelse:
                cur = self.walk(s.orelse, cur)
            return cur
        if isinstance(s, ast.Try):
            a = self.walk(s.body, dict(env))
            out = a
            for h in s.handlers:
                out = self.join(out, self.walk(h.body, dict(env)))
            if s.finalbody and out is not None:
                out = self.walk(s.finalbody, out)
            return out
        if isinstance(s, ast.With):
            return self.walk(s.body, env)
        return env      # nested defs, asserts, deletes, bare expressions: no object flow that reaches a result

    # -- result ---------------------------------------------------------------------------------------------------------------
    def summary(self):
        self.walk(self.fn.body, dict(self.env0))
        out = []
        for key in sorted(self.sites):
            kind, v, text = self.sites[key]
            out.append(self.classify(kind, v, text))
        return [x for x in out if x is not None]

    def src(self, s, text, update=False):
        if s == FRESH:
            return ".fresh"
        if s[0] == "column":
            return ".own" if update and s[1] == 0 else f".column {s[1]}"
        if s[0] == "operand":
            return f".operand {s[1]}"
        raise TranslateError(f"{self.what}: `{text}`: cannot classify where the object comes from ({s[0]})")

    def classify(self, kind, v, text):
        if kind == "update":
            if v[0] in ("seq", "tab"):
                return (".update", [self.src(s, text, True) for s in v[1]], text)
            if v[0] == "obj":
                return (".update", [f".operand {v[1]}"], text)
            raise TranslateError(f"{self.what}: `{text}`: cannot classify the new column tuple")
        if v[0] == "tab":
            return (".table", [self.src(s, text) for s in v[1]], text)
        if v[0] == "vec":
            return (".vector", [self.src(v[1], text)], text)
        if v[0] == "seq":
            return (".columns", [self.src(s, text) for s in v[1]], text)
        if v[0] == "obj":
            return (".vector", [f".operand {v[1]}"], text)
        if v == REC:
            return (".recursive", [], text)
        if v[0] in ("none", "row", "super"):
            return None       # nothing handed out / a Row (a cursor, not a column) / ordinary attribute lookup
        raise TranslateError(f"{self.what}: `{text}`: cannot classify the returned object")


def _func(trees, cls, name):
    return find_func(trees["table.py" if cls == "Table" else "vector.py"], name, cls)


def check_funnel(trees):
    """`Vector(<vectors of one length>)` is `Table(initial=initial, …)`, and `Vector.__init__` stores `tuple(initial)`"""
    new = _func(trees, "Vector", "__new__")
    ok = False
    for s in ast.walk(new):
        if isinstance(s, ast.Return) and s.value is not None and _u(s.value).startswith("Table(initial=initial"):
            ok = True
    for s in ast.walk(new):
        if isinstance(s, ast.Assign) and _u(s.targets[0]) == "initial" and _u(s.value) != "tuple(initial)":
            raise TranslateError("Vector.__new__: `initial` is rebound: " + _u(s)[:50])
    if not ok:
        raise TranslateError("Vector.__new__: no `return Table(initial=initial, …)` for a tuple of vectors")
    init = _func(trees, "Vector", "__init__")
    stores = [_u(s.value) for s in ast.walk(init) if isinstance(s, ast.Assign) and _u(s.targets[0]) == "self._underlying"]
    if sorted(stores) != ["self._precomputed_data", "tuple(initial)"]:
        raise TranslateError("Vector.__init__: `self._underlying` is not `tuple(initial)`: " + repr(stores))
    for s in ast.walk(init):
        if isinstance(s, ast.Assign) and _u(s.targets[0]) == "initial":
            raise TranslateError("Vector.__init__: `initial` is rebound")
    swap = _func(trees, "Table", "_swap_columns")
    if "object.__setattr__(self, '_underlying', new_cols)" not in [_u(s) for s in _strip(swap.body)] \
            or [a.arg for a in swap.args.args] != ["self", "new_cols"]:
        raise TranslateError("Table._swap_columns: does not store its argument as the column tuple")
    for s in ast.walk(swap):
        if isinstance(s, ast.Assign) and _u(s.targets[0]) == "new_cols":
            raise TranslateError("Table._swap_columns: `new_cols` is rebound")


def tr_summary(trees):
    check_funnel(trees)
    init = _Flow("Table.__init__", _func(trees, "Table", "__init__"), False).summary()
    ups = [x for x in init if x[0] == ".update"]
    if len(ups) != 1:
        raise TranslateError("Table.__init__: not exactly one `super().__init__(…)`")
    init_copies = bool(ups[0][1]) and all(s == ".fresh" for s in ups[0][1])
    rows = []
    for cls, name in OPS:
        what = f"{cls}.{name}"
        fl = _Flow(what, _func(trees, cls, name), init_copies, in_getitem=(name == "__getitem__"))
        rows.append((what, fl.summary()))
    lines = []
    for what, sites in rows:
        lines.append(f"  (\"{what}\", [")
        body = []
        for kind, srcs, text in sites:
            body.append(f"    ⟨{kind}, [{', '.join(srcs)}]⟩" + "%s" + f"   -- {text}")
        for i, b in enumerate(body):
            lines.append(b % ("," if i + 1 < len(body) else " "))
        lines.append("  ]),")
    lines[-1] = "  ])"
    return ["/-- the ownership summary found in the source: per operation, in source order, every place that hands out an object or\n"
            "    replaces the columns of `self`, with the origin of the Vector objects of every column group -/\n"
            "def ownershipT : List (String × List Site) := [\n" + "\n".join(lines) + "\n]"]


# ------------------------------------------------------------------------------------------------------------------------------
# 2. the copying statements, on the object heap
# ------------------------------------------------------------------------------------------------------------------------------

SUPPORT = '''/-- where the Vector objects of a group of columns come from -/
inductive Src where
  /-- built by the operation: `Vector(<data>)`, `x.copy()`, or copied by `Table.__init__` on the way into the new table -/
  | fresh
  /-- the live column objects of operand `k` (0 = `self`) -/
  | column (k : Nat)
  /-- operand `k` itself, or an element of it, stored as it is -/
  | operand (k : Nat)
  /-- (update of `self`) the columns of `self` that stay where they are -/
  | own
  deriving DecidableEq, Repr

inductive Kind where
  /-- a new Table object -/
  | table
  /-- a Vector object is handed out -/
  | vector
  /-- a tuple of Vector objects is handed out -/
  | columns
  /-- the column tuple of `self` is replaced -/
  | update
  /-- whatever the same operation hands out for another key (`self[rows][cols]`) -/
  | recursive
  deriving DecidableEq, Repr

structure Site where
  kind : Kind
  cols : List Src
  deriving DecidableEq, Repr

/-- a new Table object over the column objects `cols` (`Vector.__init__`: `self._underlying = tuple(initial)`) -/
def newTabT (h : Heap) (cols : List Nat) : Heap × Nat :=
  ({ h with objs := Heap.upd h.objs h.next (some (.tab cols)), next := h.next + 1 }, h.next)

/-- `tuple(f(x) for x in xs)` where `f` may create objects -/
def forEachT (f : Heap → Nat → Heap × Nat) (h : Heap) : List Nat → Heap × List Nat
  | [] => (h, [])
  | x :: xs =>
    let (h1, y) := f h x
    let (h2, ys) := forEachT f h1 xs
    (h2, y :: ys)

/-- `x._name = nm` on a vector object -/
def setNameT (h : Heap) (o : Nat) (nm : Option String) : Heap :=
  match h.obj o with
  | some (.vec v fp) => { h with objs := Heap.upd h.objs o (some (.vec { v with name := nm } fp)) }
  | _ => h'''


def tr_copy(trees):
    f = _func(trees, "Vector", "copy")
    body = _strip(f.body)
    ret = body[-1]
    if not (isinstance(ret, ast.Return) and isinstance(ret.value, ast.Call) and _u(ret.value.func) == "Vector" and ret.value.args
            and _u(ret.value.args[0]) == "list(self._underlying if new_values is None else new_values)"):
        raise TranslateError("Vector.copy: does not return `Vector(list(self._underlying if new_values is None else new_values), …)`")
    kw = {k.arg: _u(k.value) for k in ret.value.keywords}
    if kw.get("dtype") != "self._dtype" or kw.get("name") != "use_name":
        raise TranslateError("Vector.copy: dtype / name of the copy")
    if [_u(s) for s in body[:-1]] != ["use_name = self._name if name is ... else name"]:
        raise TranslateError("Vector.copy: statements before the return")
    return [_doc("translated from `Vector.copy` (no arguments, on a column): a *new* Vector object over a new list of the same\n"
                 "    elements, same dtype, same name — on the heap: a new object showing what `o` shows.", f.body)
            + "def copyT (h : Heap) (o : Nat) : Heap × Nat :=\n"
              "  h.allocVec ((h.vecOf o).getD default)"]


def _elem_fn(elt, var, what):
    """`vec.copy()` / `vec` as a heap function of the loop variable"""
    t = _u(elt)
    if t == f"{var}.copy()":
        return "copyT"
    if t == var:
        return "(fun h o => (h, o))"
    raise TranslateError(f"{what}: element `{t[:40]}` is neither a copy nor the object itself")


def tr_init(trees):
    f = _func(trees, "Table", "__init__")
    body = _strip(f.body)
    texts = [_norm(s) for s in body]
    # the statements that touch `initial` (the incoming objects), in order
    touching = [s for s in body if any(isinstance(n, ast.Name) and n.id == "initial" and isinstance(n.ctx, ast.Store) for n in ast.walk(s))
                or _u(s).startswith("super().__init__")]
    if len(touching) != 3:
        raise TranslateError("Table.__init__: expected the dict conversion, the copy, and super().__init__ — found "
                             + repr([_u(s)[:40] for s in touching]))
    d, c, sup = touching
    if _u(d) != ("if isinstance(initial, dict):\n    initial = [Vector(values, name=col_name) for col_name, values in initial.items()]"):
        raise TranslateError("Table.__init__: dict form: " + _u(d)[:60])
    if not (isinstance(c, ast.If) and _u(c.test) == "initial" and len(c.body) == 1 and len(c.orelse) == 1
            and _u(c.orelse[0]) == "initial = ()" and isinstance(c.body[0], ast.Assign) and _u(c.body[0].targets[0]) == "initial"):
        raise TranslateError("Table.__init__: the copy statement: " + _u(c)[:60])
    v = c.body[0].value
    if not (isinstance(v, ast.Call) and _u(v.func) == "tuple" and len(v.args) == 1 and isinstance(v.args[0], ast.GeneratorExp)
            and len(v.args[0].generators) == 1 and _u(v.args[0].generators[0].iter) == "initial"
            and not v.args[0].generators[0].ifs and isinstance(v.args[0].generators[0].target, ast.Name)):
        raise TranslateError("Table.__init__: the copy statement: " + _u(c.body[0])[:60])
    fn = _elem_fn(v.args[0].elt, v.args[0].generators[0].target.id, "Table.__init__")
    if not _u(sup).startswith("super().__init__(initial,"):
        raise TranslateError("Table.__init__: " + _u(sup)[:60])
    if body.index(c) > body.index(sup) or body.index(d) > body.index(c):
        raise TranslateError("Table.__init__: order of the statements")
    # after super().__init__ nothing may store into the column tuple
    for s in body[body.index(sup) + 1:]:
        for n in ast.walk(s):
            if isinstance(n, ast.Assign) and any("_underlying" in _u(t) and not _u(t).endswith("._name") for t in n.targets):
                raise TranslateError("Table.__init__: stores columns after super().__init__: " + _u(n)[:50])
    return [_doc("translated from `Table.__init__` (object level; `initial`: the incoming Vector objects — for the dict form the\n"
                 "    objects `Vector(values, name=col_name)` just built; the length check, names and column map are C02/C17):",
                 [c, sup])
            + "def tableInitT (h : Heap) (initial : List Nat) : Heap × Nat :=\n"
              "  -- initial = tuple(" + _u(v.args[0]) + ")      [() when there is none]\n"
              f"  let (h, initial) := forEachT {fn} h initial\n"
              "  -- super().__init__(initial, …)      [self._underlying = tuple(initial)]\n"
              "  newTabT h initial"]


def _replace_block(stmts, idx, what):
    """the column replacement block of __setattr__ -> Lean (shape-checked)"""
    body = [s for s in _strip(stmts)]
    texts = [_norm(s) for s in body]
    if len(body) != 7:
        raise TranslateError(f"{what}: the replacement block has {len(body)} statements, not 7")
    snap = body[0]
    if not (isinstance(snap, ast.If) and _u(snap.test) == "not isinstance(value, Vector)" and len(snap.body) == 1 and len(snap.orelse) == 1
            and _u(snap.body[0]) == "value = Vector(value)"):
        raise TranslateError(f"{what}: the snapshot statement: " + texts[0][:60])
    el = snap.orelse[0]
    if not (isinstance(el, ast.Assign) and _u(el.targets[0]) == "value"):
        raise TranslateError(f"{what}: the snapshot statement: " + texts[0][:60])
    fn = _elem_fn(el.value, "value", what)
    if not (isinstance(body[1], ast.If) and all(isinstance(x, ast.Raise) for x in body[1].body) and not body[1].orelse):
        raise TranslateError(f"{what}: the length guard: " + texts[1][:60])
    rest = [f"cols = list(self._underlying)", f"value._name = self._underlying[{idx}]._name", f"cols[{idx}] = value",
            "self._swap_columns(tuple(cols))", "return"]
    if texts[2:] != rest:
        raise TranslateError(f"{what}: the replacement statements: " + repr(texts[2:])[:120])
    return fn, body


def tr_setattr(trees):
    f = _func(trees, "Table", "__setattr__")
    blocks = []
    for n in ast.walk(f):
        if isinstance(n, ast.If) and any(_u(s) == "self._swap_columns(tuple(cols))" for s in n.body):
            blocks.append(n)
    blocks.sort(key=lambda n: n.lineno)
    if len(blocks) != 2:
        raise TranslateError(f"Table.__setattr__: {len(blocks)} replacement blocks, not 2")
    # any other store into the columns?
    swaps = [n for n in ast.walk(f) if isinstance(n, ast.Call) and _u(n.func).endswith("_swap_columns")]
    if len(swaps) != 2:
        raise TranslateError("Table.__setattr__: other calls of _swap_columns")
    out, fns = [], []
    for n, idx in zip(blocks, ("col_idx_indexed", "col_idx")):
        stmts = n.body
        # the indexed block starts with its validation (guards that only raise, `sanitized = …`, the import)
        start = next((i for i, s in enumerate(stmts) if isinstance(s, ast.If) and _u(s.test) == "not isinstance(value, Vector)"), None)
        if start is None:
            raise TranslateError("Table.__setattr__: no snapshot statement in a replacement block")
        for s in _strip(stmts[:start]):
            if not ((isinstance(s, ast.If) and all(isinstance(x, ast.Raise) for x in s.body) and not s.orelse)
                    or (isinstance(s, ast.Assign) and _u(s.targets[0]) == "sanitized")):
                raise TranslateError("Table.__setattr__: statement before the snapshot: " + _u(s)[:50])
        fn, body = _replace_block(stmts[start:], idx, "Table.__setattr__")
        fns.append((fn, body))
    if fns[0][0] != fns[1][0]:
        raise TranslateError("Table.__setattr__: the two replacement blocks snapshot differently")
    fn, body = fns[1]
    return [_doc("translated from the column replacement block of `Table.__setattr__` (it occurs twice, for `t.name__N = v` with\n"
                 "    `col_idx_indexed` and for `t.name = v` with `col_idx`; object level; `self`, `value`: object ids; `is_vector`:\n"
                 "    `isinstance(value, Vector)`; `data`: what `Vector(value)` shows for a non-vector `value` (parameter)):", body)
            + "def setattrReplaceT (is_vector : Bool) (data : VecVal) (h : Heap) (self value col_idx : Nat) : Heap :=\n"
              "  -- if not isinstance(value, Vector): value = Vector(value)  else: value = " + _u(body[0].orelse[0].value) + "\n"
              f"  let (h, value) := if !is_vector then h.allocVec data else {fn} h value\n"
              "  -- cols = list(self._underlying)\n"
              "  let cols := h.columnsOf self\n"
              "  -- value._name = self._underlying[col_idx]._name\n"
              "  let h := setNameT h value ((cols[col_idx]?.bind h.vecOf).bind (·.name))\n"
              "  -- cols[col_idx] = value\n"
              "  let cols := cols.set col_idx value\n"
              "  -- self._swap_columns(tuple(cols))      [object.__setattr__(self, '_underlying', new_cols)]\n"
              "  { h with objs := Heap.upd h.objs self (some (.tab cols)) }"]


def tr_select(trees):
    f = _func(trees, "Table", "__getitem__")
    br = [s for s in _strip(f.body) if isinstance(s, ast.If) and _u(s.test) == "isinstance(key, tuple) and all((isinstance(k, str) for k in key))"]
    if len(br) != 1:
        raise TranslateError("Table.__getitem__: no single multi-name branch")
    body = _strip(br[0].body)
    if not (len(body) == 3 and _u(body[0]) == "selected_cols = []" and isinstance(body[1], ast.For) and _u(body[1].iter) == "key"
            and _u(body[2]) == "return Table(selected_cols)"):
        raise TranslateError("Table.__getitem__ (names): shape of the branch")
    # every store into selected_cols is `selected_cols.append(<elt>)` with <elt> of `col`, a loop variable over self._underlying
    elts = set()
    for n in ast.walk(body[1]):
        if isinstance(n, ast.Call) and isinstance(n.func, ast.Attribute) and _u(n.func.value) == "selected_cols":
            if n.func.attr != "append" or len(n.args) != 1:
                raise TranslateError("Table.__getitem__ (names): " + _u(n)[:50])
            elts.add(_u(n.args[0]))
        if isinstance(n, (ast.Assign, ast.AugAssign)) and "selected_cols" in [_u(t) for t in (n.targets if isinstance(n, ast.Assign) else [n.target])]:
            raise TranslateError("Table.__getitem__ (names): selected_cols is rebound")
        if isinstance(n, ast.For) and n is not body[1]:
            if _u(n.iter) not in ("self._underlying", "enumerate(self._underlying)") or _u(n.target) not in ("col", "(idx, col)"):
                raise TranslateError("Table.__getitem__ (names): loop " + _u(n.iter)[:40])
    if len(elts) != 1:
        raise TranslateError("Table.__getitem__ (names): the appended objects differ: " + repr(sorted(elts)))
    fn = _elem_fn(ast.parse(elts.pop()).body[0].value, "col", "Table.__getitem__ (names)")
    return [_doc("translated from the multi-name branch of `Table.__getitem__` (object level; `found`: for every name of `key` the\n"
                 "    column object `col` of `self._underlying` the name search stops at — the search itself is C17/C18; a name that is not\n"
                 "    found raises):", body, 80)
            + "def selectT (h : Heap) (found : List Nat) : Heap × Nat :=\n"
              "  -- selected_cols = [];  for col_name in key: … selected_cols.append(" + ("col.copy()" if fn == "copyT" else "col") + ")\n"
              f"  let (h, selected_cols) := forEachT {fn} h found\n"
              "  -- return Table(selected_cols)\n"
              "  tableInitT h selected_cols"]


def tr_rshift_dict(trees):
    f = _func(trees, "Table", "__rshift__")
    br = [s for s in _strip(f.body) if isinstance(s, ast.If) and _u(s.test) == "isinstance(other, dict)"]
    if len(br) != 1:
        raise TranslateError("Table.__rshift__: no single dict branch")
    body = _strip(br[0].body)
    if not (len(body) == 3 and _u(body[0]) == "named_cols = []" and isinstance(body[1], ast.For) and _u(body[1].iter) == "other.items()"
            and _u(body[1].target) == "(col_name, values)" and _u(body[2]) == "return Table(tuple(self._underlying) + tuple(named_cols))"):
        raise TranslateError("Table.__rshift__ (dict): shape of the branch")
    loop = _strip(body[1].body)
    conv = loop[0]
    if not (isinstance(conv, ast.If) and _u(conv.test) == "isinstance(values, Vector)" and len(conv.body) == 1
            and isinstance(conv.body[0], ast.Assign) and _u(conv.body[0].targets[0]) == "col"
            and len(conv.orelse) == 1 and isinstance(conv.orelse[0], ast.If) and _u(conv.orelse[0].body[0]) == "col = Vector(values)"
            and all(isinstance(x, ast.Raise) for x in conv.orelse[0].orelse)):
        raise TranslateError("Table.__rshift__ (dict): the conversion statement: " + _u(conv)[:60])
    fn = _elem_fn(conv.body[0].value, "values", "Table.__rshift__ (dict)")
    rest = [_norm(s) for s in loop[1:]]
    want_tail = ["col._name = col_name", "named_cols.append(col)"]
    kept = [t for t in rest if not t.startswith("if ")]
    for s in loop[1:]:
        if isinstance(s, ast.If) and not all(isinstance(x, ast.Raise) or _norm(x).startswith("warnings.warn(") for x in s.body):
            raise TranslateError("Table.__rshift__ (dict): " + _u(s)[:60])
    if kept != want_tail:
        raise TranslateError("Table.__rshift__ (dict): the loop body: " + repr(kept)[:120])
    return [_doc("translated from the dict form of `Table.__rshift__` (object level; `values`: the dict's values that are Vector objects,\n"
                 "    `names`: their keys; a non-vector value is `Vector(values)`, a new object; guards and warnings dropped):", body)
            + "def rshiftDictT (h : Heap) (self : Nat) (values : List Nat) (names : List (Option String)) : Heap × Nat :=\n"
              "  -- named_cols = [];  for col_name, values in other.items():  col = " + _u(conv.body[0].value) + "\n"
              f"  let (h, named_cols) := forEachT {fn} h values\n"
              "  --   col._name = col_name;  named_cols.append(col)\n"
              "  let h := (named_cols.zip names).foldl (fun h (p : Nat × Option String) => setNameT h p.1 p.2) h\n"
              "  -- return Table(tuple(self._underlying) + tuple(named_cols))\n"
              "  tableInitT h (h.columnsOf self ++ named_cols)"]


ITEMS = (("ownership summary", tr_summary), ("Vector.copy", tr_copy), ("Table.__init__", tr_init),
         ("Table.__setattr__", tr_setattr), ("Table.__getitem__ (names)", tr_select), ("Table.__rshift__ (dict)", tr_rshift_dict))


def generate(src_dir):
    parts, errors, trees = [SUPPORT], [], {}
    for fn in ("table.py", "vector.py"):
        try:
            trees[fn] = ast.parse(open(os.path.join(src_dir, fn)).read())
        except Exception as ex:
            errors.append((fn, f"{type(ex).__name__}: {ex}"))
            parts.append(f"-- {fn}: not parsed ({type(ex).__name__})")
    if len(trees) == 2:
        for what, fn in ITEMS:
            try:
                parts += fn(trees)
            except Exception as ex:
                errors.append((what, f"{type(ex).__name__}: {ex}"))
                parts.append(f"-- {what}: not translated ({type(ex).__name__})")
    text = ("/- GENERATED by harness/tr/ownership.py from /repo's working tree — do not edit.\n"
            "   Ownership of column objects: which operations hand out fresh objects and which the live object (summary found by\n"
            "   abstract interpretation of the function bodies), and the copying statements of Table.__init__ / __setattr__ /\n"
            "   __getitem__ (names) / __rshift__ (dict) on the object heap; theorems in Serif/Tie/Ownership.lean. -/\n"
            "import Serif.Model.ObjHeap\n\nset_option linter.unusedVariables false\n\nnamespace Serif.Gen.Own\nopen Serif\n\n"
            + "\n\n".join(parts) + "\n\nend Serif.Gen.Own\n")
    return text, errors


if __name__ == "__main__":
    import sys
    t, e = generate(sys.argv[1] if len(sys.argv) > 1 else "/repo/src/serif")
    print(t)
    print(e, file=sys.stderr)
