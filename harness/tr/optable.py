"""Translator plug-in: the operator table of `Vector` and `Table` (C05, C07).

Reads src/serif/vector.py and src/serif/table.py with `ast` and, for every arithmetic / comparison / logical / unary dunder method
(and the two named shift methods `bit_lshift` / `bit_rshift`), reads

    * which helper the method hands its work to (`_elementwise_operation`, `_elementwise_compare`, `_unary_operation`,
      `_table_elementwise_operation`), or that it has loops of its own (`Vector.__radd__`), a guard in front of the helper
      (`Vector.__invert__`), or the per-column form `Table(tuple(<op> col for col in self.cols()))` (the unary operators of `Table`);
    * which Python operation on which operand order its operator function computes: `operator.X`, a module-level
      `def f(p, q): return <q op p>`, or a `lambda p, q: <q op p>` is translated into a term over two abstract operations
          pyL sym a b   = Python's `a <sym> b` with the element / column (first parameter of the operator function) on the left,
          pyR sym b a   = Python's `b <sym> a` with the other operand (second parameter) on the left,
      e.g. `_reverse_sub(y, x): return x - y` becomes `fun y x => pyR .sub x y`;

and writes lean/Serif/Gen/TranslatedOpTable.lean:

    vectorOps / tableOps : List (String × HelperKind × OpSym × Bool)     (dunder, helper, operation, other operand on the left?)
    vectorBinFuncT / vectorUnFuncT / tableBinFuncT / tableUnFuncT         the operator function of each dunder as a Lean term
    raddVecStepT / raddScalarStepT / raddSeqStepT / raddBranchesT         `Vector.__radd__`, statement by statement
    invertGuardT / invertNotCellT                                         the bool guard of `Vector.__invert__`
    tableScalarBranchT / tableTableStepT / tableBranchesT                 the value part of `Table._table_elementwise_operation`
    vectorOwnBodies, tableOwnBodies, tableInherited, tableHelperOverrides, subclassDunders, subclassHelperOverrides
                                                                          who defines what (method resolution is by class body)

lean/Serif/Tie/OpTable.lean compares the tables with the expected ones (`decide`) and proves, through the helper ties of
Serif/Tie/Vec.lean, that every dunder is pointwise Python's operator of its name.

What is understood, and nothing else (anything different is a `TranslateError` for that dunder: its row and its term are missing from
the generated file, which stays valid Lean, and the tie stops building):

  wrapper      `def NAME(self[, other]): [docstring] return self.HELPER(<args>)` with the argument shapes
               `_elementwise_operation(other, F, '<name>', '<symbol>')`, `_elementwise_compare(other, F)`, `_unary_operation(F, '<name>')`,
               `_table_elementwise_operation(other, F, '<name>', '<symbol>')` -- the two strings only feed messages and are not read;
               `NAME = OTHER_NAME` in the class body and `return self.OTHER_NAME(other)` are followed (the row is OTHER_NAME's);
  F            `operator.X` (with `import operator` at module level, `operator` bound nowhere else), the name of a module-level function
               defined exactly once, or a lambda; the function / lambda has exactly the positional parameters of its arity and its
               body is one expression `p <op> q`, `q <op> p`, `p <cmp> q`, `<unary op> p` or `abs(p)` over its parameters;
  per-column   `return Table(tuple(<unary op> col for col in self.cols()))` / `abs(col)`;
  __invert__   `if self._dtype and self._dtype.kind is bool: return Vector(tuple((not x for x in self)), dtype=DataType(bool, nullable=False),
               name=self._name, as_row=self._display_as_row)` followed by the wrapper form;
  __radd__     the shape of its three branches (see `translate_radd`): the tests, the length checks, the order of the `zip` arguments and
               the appended expression are read; everything else is compared literally;
  _table_elementwise_operation   shape-checked transcription of its value part (see `translate_table_helper`).

Comments, docstrings, blank lines and the text of error / warning messages never reach the generated file.
"""
import ast, copy, os

import py2lean
from py2lean import TranslateError

GEN_FILE = "TranslatedOpTable.lean"
TIE = {"Serif.Tie.OpTable": ["C05", "C07"]}

BIN_DUNDERS = ["__add__", "__sub__", "__mul__", "__truediv__", "__floordiv__", "__mod__", "__pow__"]
RBIN_DUNDERS = ["__radd__", "__rsub__", "__rmul__", "__rtruediv__", "__rfloordiv__", "__rmod__", "__rpow__"]
UN_DUNDERS = ["__neg__", "__pos__", "__abs__", "__invert__"]
CMP_DUNDERS = ["__eq__", "__ne__", "__lt__", "__le__", "__gt__", "__ge__"]
LOGIC_DUNDERS = ["__and__", "__or__", "__xor__", "__rand__", "__ror__", "__rxor__"]
SHIFT_NAMES = ["__lshift__", "__rshift__", "__rlshift__", "__rrshift__", "bit_lshift", "bit_rshift"]
MATMUL = ["__matmul__", "__rmatmul__"]
UNIVERSE = BIN_DUNDERS + RBIN_DUNDERS + UN_DUNDERS + CMP_DUNDERS + LOGIC_DUNDERS + SHIFT_NAMES + MATMUL
HELPERS = {"_elementwise_operation": "elementwiseOperation", "_elementwise_compare": "elementwiseCompare",
           "_unary_operation": "unaryOperation", "_table_elementwise_operation": "tableElementwiseOperation"}
VECTOR_HELPERS = ["_elementwise_operation", "_elementwise_compare", "_unary_operation"]

# `operator.X(a, b)` is `a <op> b` / `operator.X(a)` is `<op> a` (Python's documentation of the module `operator`)
OPERATOR_FUNCS = {"add": ("add", 2), "sub": ("sub", 2), "mul": ("mul", 2), "truediv": ("truediv", 2), "floordiv": ("floordiv", 2),
                  "mod": ("mod", 2), "pow": ("pow", 2), "lshift": ("lshift", 2), "rshift": ("rshift", 2), "matmul": ("matmul", 2),
                  "eq": ("eq", 2), "ne": ("ne", 2), "lt": ("lt", 2), "le": ("le", 2), "gt": ("gt", 2), "ge": ("ge", 2),
                  "and_": ("and_", 2), "or_": ("or_", 2), "xor": ("xor", 2),
                  "neg": ("neg", 1), "pos": ("pos", 1), "abs": ("abs", 1), "invert": ("invert", 1), "inv": ("invert", 1)}
BINOPS = {ast.Add: "add", ast.Sub: "sub", ast.Mult: "mul", ast.Div: "truediv", ast.FloorDiv: "floordiv", ast.Mod: "mod", ast.Pow: "pow",
          ast.LShift: "lshift", ast.RShift: "rshift", ast.MatMult: "matmul", ast.BitAnd: "and_", ast.BitOr: "or_", ast.BitXor: "xor"}
CMPOPS = {ast.Eq: "eq", ast.NotEq: "ne", ast.Lt: "lt", ast.LtE: "le", ast.Gt: "gt", ast.GtE: "ge"}
UNOPS = {ast.USub: "neg", ast.UAdd: "pos", ast.Invert: "invert"}
PY_SYMBOL = {"add": "+", "sub": "-", "mul": "*", "truediv": "/", "floordiv": "//", "mod": "%", "pow": "**", "lshift": "<<", "rshift": ">>",
             "matmul": "@", "eq": "==", "ne": "!=", "lt": "<", "le": "<=", "gt": ">", "ge": ">=", "and_": "&", "or_": "|", "xor": "^",
             "neg": "-", "pos": "+", "abs": "abs", "invert": "~"}
LEAN_RESERVED = {"fun", "let", "in", "if", "then", "else", "match", "with", "do", "end", "from", "at", "by", "open", "def", "Type", "where",
                 "have", "show", "pyL", "pyR", "py1", "name", "some", "none"}

PRELUDE = '''/-- the Python operations that the operator functions of the dunders compute: `a + b`, `a - b`, …, `a == b`, …, `a & b`, …, `-a`, `+a`,
    `abs(a)`, `~a` (fixed vocabulary of the translator) -/
inductive OpSym where
  | add | sub | mul | truediv | floordiv | mod | pow | lshift | rshift | matmul
  | eq | ne | lt | le | gt | ge
  | and_ | or_ | xor
  | neg | pos | abs | invert
  deriving DecidableEq, Repr, Inhabited

/-- what a dunder does with its operator function (fixed vocabulary of the translator) -/
inductive HelperKind where
  /-- `return self._elementwise_operation(other, F, '<name>', '<symbol>')` -/
  | elementwiseOperation
  /-- `return self._elementwise_compare(other, F)` -/
  | elementwiseCompare
  /-- `return self._unary_operation(F, '<name>')` -/
  | unaryOperation
  /-- the bool guard of `Vector.__invert__` (`invertGuardT`), then `return self._unary_operation(F, '<name>')` -/
  | guardedUnaryOperation
  /-- `return self._table_elementwise_operation(other, F, '<name>', '<symbol>')` -/
  | tableElementwiseOperation
  /-- loops of its own over the operands (`Vector.__radd__`: `raddBranchesT` and the three step functions) -/
  | ownLoops
  /-- `return Table(tuple(F(col) for col in self.cols()))` -/
  | perColumn
  deriving DecidableEq, Repr, Inhabited

/-- `vals = []` / `for x, y in zip(xs, ys, strict=True): vals.append(step(x, y))`: the first raising step aborts the loop, and the strict
    zip raises ValueError when one operand ends before the other -/
def zipAppendT {ε δ ρ : Type} (step : ε → δ → Except Err ρ) : List ε → List δ → Except Err (List ρ)
  | [], [] => .ok []
  | x :: xs, y :: ys =>
    match step x y with
    | .error e => .error e
    | .ok c =>
      match zipAppendT step xs ys with
      | .error e => .error e
      | .ok cs => .ok (c :: cs)
  | _, _ => .error Err.value

/-- `vals = []` / `for x in xs: vals.append(step(x))`, and `tuple(step(x) for x in xs)` -/
def forAppendT {ε ρ : Type} (step : ε → Except Err ρ) : List ε → Except Err (List ρ)
  | [] => .ok []
  | x :: xs =>
    match step x with
    | .error e => .error e
    | .ok c =>
      match forAppendT step xs with
      | .error e => .error e
      | .ok cs => .ok (c :: cs)'''


def u(node):
    return ast.unparse(node)


def ln(name):
    return name + "_" if name in LEAN_RESERVED else name


def strip_doc(body):
    return [s for s in body if not (isinstance(s, ast.Expr) and isinstance(s.value, ast.Constant))]


class _NoMsg(ast.NodeTransformer):
    """`raise X(<message>)` -> `raise X(…)`, `warnings.warn(<message>, …)` -> `warnings.warn(…)`: wording is not behaviour"""

    def visit_Raise(self, node):
        if isinstance(node.exc, ast.Call):
            return ast.Raise(exc=ast.Call(func=node.exc.func, args=[ast.Name(id="…", ctx=ast.Load())], keywords=[]), cause=None)
        return node

    def visit_Call(self, node):
        self.generic_visit(node)
        if u(node.func) == "warnings.warn":
            return ast.Call(func=node.func, args=[ast.Name(id="…", ctx=ast.Load())], keywords=[])
        return node


def text(node):
    """the Python text of a statement with message texts dropped"""
    n = _NoMsg().visit(copy.deepcopy(node))
    return ast.unparse(ast.fix_missing_locations(n))


def quote(node):
    return " ".join(l.strip() for l in text(node).split("\n")).replace("-/", "- /").replace("/-", "/ -")


def find_class(tree, name):
    found = [n for n in tree.body if isinstance(n, ast.ClassDef) and n.name == name]
    if len(found) != 1:
        raise TranslateError(f"class {name}: {len(found)} definitions at module level")
    return found[0]


def class_members(cls):
    """{name: FunctionDef | ('alias', other name)} for the class body; a name bound twice or in a way not understood is an error entry"""
    out, bad = {}, {}
    for s in cls.body:
        names = []
        if isinstance(s, (ast.FunctionDef, ast.AsyncFunctionDef)):
            names = [(s.name, s if isinstance(s, ast.FunctionDef) and not s.decorator_list else None)]
        elif isinstance(s, ast.Assign):
            for t in s.targets:
                if isinstance(t, ast.Name):
                    names.append((t.id, ("alias", s.value.id) if isinstance(s.value, ast.Name) else None))
        elif isinstance(s, ast.AnnAssign) and isinstance(s.target, ast.Name):
            names = [(s.target.id, None)]
        for n, v in names:
            if n in out or n in bad:
                bad[n] = "bound more than once in the class body"
                out.pop(n, None)
            elif v is None:
                bad[n] = "bound in a way that is not understood"
            else:
                out[n] = v
    # conditional definitions (`if …: def __add__`) are not understood at all
    for s in cls.body:
        if not isinstance(s, (ast.FunctionDef, ast.AsyncFunctionDef, ast.Assign, ast.AnnAssign, ast.Expr, ast.Pass)):
            for n in ast.walk(s):
                if isinstance(n, (ast.FunctionDef, ast.Name)) and getattr(n, "name", getattr(n, "id", None)) in UNIVERSE + list(HELPERS):
                    bad[getattr(n, "name", getattr(n, "id", None))] = "bound inside a compound statement of the class body"
    return out, bad


def module_env(tree):
    """what `operator` and the module-level function names mean: `operator` must be the standard module, a function defined once"""
    imports_operator = any(isinstance(s, ast.Import) and any(a.name == "operator" and a.asname is None for a in s.names) for s in tree.body)
    bound = {}
    for n in ast.walk(tree):
        if isinstance(n, (ast.FunctionDef, ast.AsyncFunctionDef, ast.ClassDef)):
            bound[n.name] = bound.get(n.name, 0) + (1 if n in tree.body else 0)
        elif isinstance(n, ast.Name) and isinstance(n.ctx, (ast.Store, ast.Del)) and n.id == "operator":
            imports_operator = False
        elif isinstance(n, ast.arg) and n.arg == "operator":
            imports_operator = False
        elif isinstance(n, (ast.Import, ast.ImportFrom)):
            for a in n.names:
                if (a.asname or a.name) == "operator" and not (isinstance(n, ast.Import) and a.name == "operator" and a.asname is None and n in tree.body):
                    imports_operator = False
    funcs = {}
    for s in tree.body:
        if isinstance(s, ast.FunctionDef):
            funcs.setdefault(s.name, []).append(s)
    stores = {n.id for n in ast.walk(tree) if isinstance(n, ast.Name) and isinstance(n.ctx, (ast.Store, ast.Del))}
    globals_ = {g for n in ast.walk(tree) if isinstance(n, (ast.Global, ast.Nonlocal)) for g in n.names}
    return {"operator": imports_operator, "funcs": funcs, "stores": stores | globals_}


class OpFunc:
    """an operator function read from the source: arity, operation, operand order, and its Lean term"""

    def __init__(self, arity, sym, swapped, params, source):
        self.arity, self.sym, self.swapped, self.params, self.source = arity, sym, swapped, params, source

    def term(self):
        if self.arity == 1:
            p, = self.params
            return f"fun {p} => py1 .{self.sym} {p}"
        p, q = self.params
        if self.swapped:
            return f"fun {p} {q} => pyR .{self.sym} {q} {p}"
        return f"fun {p} {q} => pyL .{self.sym} {p} {q}"


def body_expr(params, e, where):
    """one expression over the parameters: -> (sym, swapped)"""
    names = [p for p in params]

    def is_param(n, i):
        return isinstance(n, ast.Name) and n.id == names[i]
    if len(names) == 2:
        if isinstance(e, ast.BinOp) and type(e.op) in BINOPS:
            l, r, sym = e.left, e.right, BINOPS[type(e.op)]
        elif isinstance(e, ast.Compare) and len(e.ops) == 1 and type(e.ops[0]) in CMPOPS:
            l, r, sym = e.left, e.comparators[0], CMPOPS[type(e.ops[0])]
        else:
            raise TranslateError(f"{where}: body `{u(e)[:60]}` is not one binary operation on the parameters")
        if names[0] == names[1]:
            raise TranslateError(f"{where}: parameter names")
        if is_param(l, 0) and is_param(r, 1):
            return sym, False
        if is_param(l, 1) and is_param(r, 0):
            return sym, True
        raise TranslateError(f"{where}: operands of `{u(e)[:60]}` are not the two parameters")
    if isinstance(e, ast.UnaryOp) and type(e.op) in UNOPS and is_param(e.operand, 0):
        return UNOPS[type(e.op)], False
    if isinstance(e, ast.Call) and isinstance(e.func, ast.Name) and e.func.id == "abs" and len(e.args) == 1 and not e.keywords and is_param(e.args[0], 0):
        return "abs", False
    raise TranslateError(f"{where}: body `{u(e)[:60]}` is not one unary operation on the parameter")


def plain_params(args, arity, where):
    if args.vararg or args.kwarg or args.kwonlyargs or args.posonlyargs or args.defaults or args.kw_defaults or len(args.args) != arity:
        raise TranslateError(f"{where}: parameter list `{u(args)}`")
    return [a.arg for a in args.args]


def read_opfunc(node, arity, env, where):
    """F -> OpFunc"""
    if isinstance(node, ast.Attribute) and isinstance(node.value, ast.Name) and node.value.id == "operator":
        if not env["operator"]:
            raise TranslateError(f"{where}: `operator` is not (only) the standard module imported at module level")
        if node.attr not in OPERATOR_FUNCS or OPERATOR_FUNCS[node.attr][1] != arity:
            raise TranslateError(f"{where}: operator.{node.attr} with {arity} operand(s)")
        sym = OPERATOR_FUNCS[node.attr][0]
        return OpFunc(arity, sym, False, ["a", "b"][:arity], f"operator.{node.attr}")
    if isinstance(node, ast.Name):
        defs = env["funcs"].get(node.id, [])
        if len(defs) != 1 or node.id in env["stores"]:
            raise TranslateError(f"{where}: `{node.id}` is not a module-level function defined exactly once")
        f = defs[0]
        if f.decorator_list:
            raise TranslateError(f"{where}: `{node.id}` is decorated")
        params = plain_params(f.args, arity, f"{where}: {node.id}")
        body = strip_doc(f.body)
        if len(body) != 1 or not isinstance(body[0], ast.Return) or body[0].value is None:
            raise TranslateError(f"{where}: body of `{node.id}` is not one `return`")
        sym, swapped = body_expr(params, body[0].value, f"{where}: {node.id}")
        return OpFunc(arity, sym, swapped, [ln(p) for p in params], f"{node.id}, `def {node.id}({u(f.args)}): {quote(body[0])}`")
    if isinstance(node, ast.Lambda):
        params = plain_params(node.args, arity, f"{where}: lambda")
        sym, swapped = body_expr(params, node.body, f"{where}: lambda")
        return OpFunc(arity, sym, swapped, [ln(p) for p in params], u(node))
    raise TranslateError(f"{where}: operator function `{u(node)[:60]}`")


def const_str(node):
    return isinstance(node, ast.Constant) and isinstance(node.value, str)


class Row:
    def __init__(self, name, helper, fn, source, extra=None):
        self.name, self.helper, self.fn, self.source, self.extra = name, helper, fn, source, extra

    def lean(self):
        return f'("{self.name}", .{self.helper}, .{self.fn.sym}, {"true" if self.fn.swapped else "false"})'


INVERT_GUARD_TEST = "self._dtype and self._dtype.kind is bool"
INVERT_GUARD_RETURN = ("return Vector(tuple((not x for x in self)), dtype=DataType(bool, nullable=False), name=self._name, "
                       "as_row=self._display_as_row)")


def read_wrapper(cls_name, members, name, env, allowed_helpers, depth=0):
    """one dunder of a class body -> Row, or None when its body is its own (not a wrapper, not understood as one)"""
    where = f"{cls_name}.{name}"
    if depth > 3:
        raise TranslateError(f"{where}: chain of delegations")
    m = members[name]
    if isinstance(m, tuple):                       # NAME = OTHER
        if m[1] not in members:
            raise TranslateError(f"{where}: alias of `{m[1]}`, which the class body does not define")
        r = read_wrapper(cls_name, members, m[1], env, allowed_helpers, depth + 1)
        if r is None:
            return None
        return Row(name, r.helper, r.fn, f"{name} = {m[1]}; {r.source}", r.extra)
    f = m
    body = strip_doc(f.body)
    guard = None
    if len(body) == 2 and isinstance(body[0], ast.If):
        g = body[0]
        if u(g.test) == INVERT_GUARD_TEST and not g.orelse and len(g.body) == 1 and u(g.body[0]) == INVERT_GUARD_RETURN:
            guard, body = g, body[1:]
        else:
            return None
    if len(body) != 1 or not isinstance(body[0], ast.Return) or not isinstance(body[0].value, ast.Call):
        return None
    call = body[0].value
    fn = call.func
    src = quote(body[0])
    # per-column form of Table
    if isinstance(fn, ast.Name) and fn.id == "Table" and guard is None:
        params = plain_params(f.args, 1, where)
        if params != ["self"] or call.keywords or len(call.args) != 1:
            return None
        t = call.args[0]
        if not (isinstance(t, ast.Call) and u(t.func) == "tuple" and len(t.args) == 1 and not t.keywords and isinstance(t.args[0], ast.GeneratorExp)):
            return None
        gen = t.args[0]
        if len(gen.generators) != 1:
            return None
        g = gen.generators[0]
        if g.ifs or g.is_async or not isinstance(g.target, ast.Name) or u(g.iter) != "self.cols()":
            raise TranslateError(f"{where}: generator `{u(gen)[:70]}`")
        sym, _ = body_expr([g.target.id], gen.elt, where)
        return Row(name, "perColumn", OpFunc(1, sym, False, [ln(g.target.id)], u(gen.elt)), src)
    if not (isinstance(fn, ast.Attribute) and isinstance(fn.value, ast.Name) and fn.value.id == "self"):
        return None
    if call.keywords or any(isinstance(a, ast.Starred) for a in call.args):
        raise TranslateError(f"{where}: call `{u(call)[:70]}`")
    # delegation to another method of the same class body: `return self.__mul__(other)`
    if fn.attr in UNIVERSE and fn.attr in members and guard is None:
        params = plain_params(f.args, len(f.args.args), where)
        if [u(a) for a in call.args] != params[1:]:
            raise TranslateError(f"{where}: delegation `{u(call)[:70]}`")
        r = read_wrapper(cls_name, members, fn.attr, env, allowed_helpers, depth + 1)
        if r is None:
            return None
        return Row(name, r.helper, r.fn, f"{src}; {r.source}", r.extra)
    if fn.attr not in HELPERS:
        return None
    if fn.attr not in allowed_helpers:
        raise TranslateError(f"{where}: helper `{fn.attr}`")
    helper = HELPERS[fn.attr]
    args = call.args
    if fn.attr in ("_elementwise_operation", "_table_elementwise_operation"):
        params = plain_params(f.args, 2, where)
        if params[0] != "self" or len(args) != 4 or u(args[0]) != params[1] or not const_str(args[2]) or not const_str(args[3]):
            raise TranslateError(f"{where}: call `{u(call)[:70]}`")
        opf = read_opfunc(args[1], 2, env, where)
    elif fn.attr == "_elementwise_compare":
        params = plain_params(f.args, 2, where)
        if params[0] != "self" or len(args) != 2 or u(args[0]) != params[1]:
            raise TranslateError(f"{where}: call `{u(call)[:70]}`")
        opf = read_opfunc(args[1], 2, env, where)
    else:
        params = plain_params(f.args, 1, where)
        if params != ["self"] or len(args) != 2 or not const_str(args[1]):
            raise TranslateError(f"{where}: call `{u(call)[:70]}`")
        opf = read_opfunc(args[0], 1, env, where)
    if guard is not None:
        if helper != "unaryOperation":
            raise TranslateError(f"{where}: guard in front of `{fn.attr}`")
        helper = "guardedUnaryOperation"
        src = f"if {INVERT_GUARD_TEST}: {INVERT_GUARD_RETURN} / {src}"
    return Row(name, helper, opf, src)


# ---------------------------------------------------------------------------------------------------------------------------------
# Vector.__radd__: its own three branches
# ---------------------------------------------------------------------------------------------------------------------------------
TESTS = {"isinstance(other, Vector)": "isVector", "isinstance(other, Iterable)": "isIterable",
         "isinstance(other, (str, bytes, bytearray))": "isText"}
RADD_RETURN = "return Vector(vals, dtype=infer_dtype(vals) if vals else self._dtype, name=None, as_row=self._display_as_row)"
LEN_CHECK = "if len(self) != len(other):\n    raise ValueError(…)"


def test_expr(node, where):
    if isinstance(node, ast.BoolOp):
        op = " && " if isinstance(node.op, ast.And) else " || "
        return "(" + op.join(test_expr(v, where) for v in node.values) + ")"
    if isinstance(node, ast.UnaryOp) and isinstance(node.op, ast.Not):
        return "!" + test_expr(node.operand, where)
    if u(node) in TESTS:
        return TESTS[u(node)]
    raise TranslateError(f"{where}: test `{u(node)[:70]}`")


def side_term(e, sides, where):
    """`l <op> r` over names with known sides ('L' = element of self, 'R' = the other operand) -> (Lean term, sym, other on the left?)"""
    if not (isinstance(e, ast.BinOp) and type(e.op) in BINOPS and isinstance(e.left, ast.Name) and isinstance(e.right, ast.Name)):
        raise TranslateError(f"{where}: appended expression `{u(e)[:60]}`")
    l, r, sym = e.left.id, e.right.id, BINOPS[type(e.op)]
    if l not in sides or r not in sides or sides[l] == sides[r]:
        raise TranslateError(f"{where}: operands of `{u(e)[:60]}`")
    if sides[l] == "L":
        return f"pyL .{sym} {ln(l)} {ln(r)}", sym, False
    return f"pyR .{sym} {ln(l)} {ln(r)}", sym, True


def wrap_some(term):
    return f"(match {term} with | .ok r => .ok (some r) | .error e => .error e)"


def radd_loop(stmts, where, zipped):
    """`[length check,] vals = [] / for …: if … is None: vals.append(None) else: vals.append(E) / return Vector(vals, …)`
       -> (has length check, zip order or None, Lean step function text pieces)"""
    stmts = list(stmts)
    has_check = False
    if stmts and text(stmts[0]) == LEN_CHECK:
        has_check, stmts = True, stmts[1:]
    if len(stmts) != 3 or u(stmts[0]) != "vals = []" or not isinstance(stmts[1], ast.For) or u(stmts[2]) != RADD_RETURN:
        raise TranslateError(f"{where}: statements of the branch")
    loop = stmts[1]
    if loop.orelse or len(loop.body) != 1 or not isinstance(loop.body[0], ast.If):
        raise TranslateError(f"{where}: loop body")
    cond = loop.body[0]
    if len(cond.body) != 1 or len(cond.orelse) != 1 or u(cond.body[0]) != "vals.append(None)":
        raise TranslateError(f"{where}: loop body")
    app = cond.orelse[0]
    if not (isinstance(app, ast.Expr) and isinstance(app.value, ast.Call) and u(app.value.func) == "vals.append" and len(app.value.args) == 1
            and not app.value.keywords):
        raise TranslateError(f"{where}: else branch of the loop body")
    e = app.value.args[0]
    if zipped:
        it = loop.iter
        if not (isinstance(it, ast.Call) and u(it.func) == "zip" and len(it.args) == 2 and [u(k) for k in it.keywords] == ["strict=True"]
                and sorted(u(a) for a in it.args) == ["other", "self"]):
            raise TranslateError(f"{where}: loop over `{u(it)[:60]}`")
        if not (isinstance(loop.target, ast.Tuple) and len(loop.target.elts) == 2 and all(isinstance(t, ast.Name) for t in loop.target.elts)):
            raise TranslateError(f"{where}: loop target")
        a, b = [t.id for t in loop.target.elts]
        if a == b or u(cond.test) != f"{a} is None or {b} is None":
            raise TranslateError(f"{where}: None test `{u(cond.test)}`")
        order = [u(x) for x in it.args]                     # ['other', 'self'] or ['self', 'other']
        sides = {a: "R" if order[0] == "other" else "L", b: "R" if order[1] == "other" else "L"}
        term, sym, swapped = side_term(e, sides, where)
        ty = {"L": "Option α", "R": "Option β"}
        sig = f"({ln(a)} : {ty[sides[a]]}) ({ln(b)} : {ty[sides[b]]})"
        body = (f"  match {ln(a)}, {ln(b)} with\n  | some {ln(a)}, some {ln(b)} => {wrap_some(term)}\n  | _, _ => .ok none")
        return has_check, order, sig, body, sym, swapped, quote(loop)
    if u(loop.iter) != "self" or not isinstance(loop.target, ast.Name):
        raise TranslateError(f"{where}: loop over `{u(loop.iter)[:60]}`")
    a = loop.target.id
    if a == "other" or u(cond.test) != f"{a} is None":
        raise TranslateError(f"{where}: None test `{u(cond.test)}`")
    term, sym, swapped = side_term(e, {a: "L", "other": "R"}, where)
    sig = f"(other : β) ({ln(a)} : Option α)"
    body = f"  match {ln(a)} with\n  | some {ln(a)} => {wrap_some(term)}\n  | none => .ok none"
    return has_check, None, sig, body, sym, swapped, quote(loop)


def translate_radd(f):
    where = "Vector.__radd__"
    params = plain_params(f.args, 2, where)
    if params != ["self", "other"]:
        raise TranslateError(f"{where}: parameters")
    body = strip_doc(f.body)
    if len(body) != 5 or u(body[0]) != "other = self._check_duplicate(other)":
        raise TranslateError(f"{where}: statements")
    if not all(isinstance(s, ast.If) and not s.orelse for s in body[1:4]) or not (isinstance(body[4], ast.Raise) and text(body[4]) == "raise SerifTypeError(…)"):
        raise TranslateError(f"{where}: branches")
    tests = [test_expr(s.test, where) for s in body[1:4]]
    kinds = []
    for s in body[1:4]:
        first = strip_doc(s.body)[0] if strip_doc(s.body) else None
        loops = [n for n in s.body if isinstance(n, ast.For)]
        if len(loops) != 1:
            raise TranslateError(f"{where}: a branch without exactly one loop")
        kinds.append(isinstance(loops[0].target, ast.Tuple))
    names = ["raddVecStepT", "raddScalarStepT", "raddSeqStepT"]
    res, parts, syms = [], [], []
    for s, zipped, nm in zip(body[1:4], kinds, names):
        has_check, order, sig, lean_body, sym, swapped, q = radd_loop(strip_doc(s.body), f"{where}: branch `{u(s.test)[:40]}`", zipped)
        res.append((has_check, order, zipped))
        syms.append((sym, swapped))
        parts.append(f"/-- one pass of the loop of the branch `if {u(s.test)}` of `Vector.__radd__`:\n    `{q}` -/\n"
                     f"def {nm} {{α β γ : Type}} (pyL : OpSym → α → β → Except Err γ) (pyR : OpSym → β → α → Except Err γ) {sig} : Except Err (Option γ) :=\n{lean_body}")
    if len(set(syms)) != 1:
        raise TranslateError(f"{where}: the three branches do not compute the same operation in the same order: {syms}")
    if [z for _, _, z in res] != [True, False, True]:
        raise TranslateError(f"{where}: loop forms of the branches")

    def run(i):
        has_check, order, zipped = res[i]
        loop = ["loopVec", "loopScalar", "loopSeq"][i]
        return f"(if lenSelf != lenOther then .error Err.value else {loop})" if has_check else loop
    parts.append("/-- translated from the branch structure of `Vector.__radd__` (after `other = self._check_duplicate(other)`, which copies an operand\n"
                 "    that is `self` itself and changes no value): " + "; ".join(f"`if {u(s.test)}`" + (" with the length check `if len(self) != len(other): raise ValueError(…)`" if r[0] else "")
                                                                              for s, r in zip(body[1:4], res)) + ";\n"
                 "    `raise SerifTypeError(…)`.  `loopVec` / `loopScalar` / `loopSeq` are the outcomes of the three loops. -/\n"
                 "def raddBranchesT {ρ : Type} (isVector isIterable isText : Bool) (lenSelf lenOther : Nat) (loopVec loopScalar loopSeq : Except Err ρ) : Except Err ρ :=\n"
                 f"  if {tests[0]} then {run(0)}\n  else if {tests[1]} then {run(1)}\n  else if {tests[2]} then {run(2)}\n  else .error Err.type")
    orders = [r[1] for r in res]
    parts.append("/-- the order of the `zip` arguments in the Vector branch and in the iterable branch of `Vector.__radd__`: is `other` the first? -/\n"
                 f"def raddZipOtherFirst : Bool × Bool := ({'true' if orders[0][0] == 'other' else 'false'}, {'true' if orders[2][0] == 'other' else 'false'})")
    sym, swapped = syms[0]
    fn = OpFunc(2, sym, swapped, ["x", "y"], "its own loops")
    return Row("__radd__", "ownLoops", fn, "three branches with loops of their own: `vals.append(" + ("other's element" if swapped else "element") + f" {PY_SYMBOL[sym]} " + ("element" if swapped else "other's element") + ")`"), parts


# ---------------------------------------------------------------------------------------------------------------------------------
# Vector.__invert__: the bool guard
# ---------------------------------------------------------------------------------------------------------------------------------
def invert_parts():
    return [
        "/-- translated from the guard of `Vector.__invert__`, `if self._dtype and self._dtype.kind is bool` (a `DataType` instance is truthy;\n"
        "    `truthy_dtype` is that fact as a parameter): does the method answer with the logical NOT instead of `_unary_operation`? -/\n"
        "def invertGuardT (truthy_dtype : DType → Bool) (self_dtype : Option DType) : Bool :=\n"
        "  match self_dtype with\n  | none => false\n  | some d => truthy_dtype d && d.kind == Kind.bool",
        "/-- translated from `tuple((not x for x in self))` in the guarded branch of `Vector.__invert__`: `py_not x` is Python's `not x` on an\n"
        "    element, None included (`not None` is True); the result is built with `dtype=DataType(bool, nullable=False)` -/\n"
        "def invertNotT {α : Type} (py_not : Option α → Bool) (self_underlying : List (Option α)) : List Bool × DType :=\n"
        "  (self_underlying.map (fun x => py_not x), { kind := Kind.bool, nullable := false })"]


# ---------------------------------------------------------------------------------------------------------------------------------
# Table._table_elementwise_operation: the value part (names and warnings are C18's)
# ---------------------------------------------------------------------------------------------------------------------------------
TABLE_HELPER_EXPECT = [
    "if not isinstance(other, Table):\n"
    "    result_cols = tuple((op_func(col, other) for col in self.cols()))\n"
    "    for orig_col, result_col in zip(self.cols(), result_cols):\n"
    "        result_col._name = orig_col._name\n"
    "        result_col._wild = orig_col._wild\n"
    "    return Table(result_cols)",
    "if len(self.cols()) != len(other.cols()):\n    raise ValueError(…)",
    "result_cols = []",
    "warnings_to_emit = []",
    "for idx, (left_col, right_col) in enumerate(zip(self.cols(), other.cols())):\n"
    "    result_col = op_func(left_col, right_col)\n"
    "    result_name, warning_case = _resolve_binary_name(left_col._name, right_col._name)\n"
    "    result_col._name = result_name\n"
    "    result_col._wild = False\n"
    "    if warning_case is not None:\n"
    "        warnings_to_emit.append((idx, left_col._name, right_col._name, warning_case))\n"
    "    result_cols.append(result_col)",
    None,                                                   # the block that words and emits the warning: `if warnings_to_emit: …`
    "return Table(tuple(result_cols))",
]


def translate_table_helper(f):
    where = "Table._table_elementwise_operation"
    if [a.arg for a in f.args.args] != ["self", "other", "op_func", "op_name", "op_symbol"] or f.args.vararg or f.args.kwarg or f.args.defaults:
        raise TranslateError(f"{where}: parameters")
    body = strip_doc(f.body)
    if len(body) != len(TABLE_HELPER_EXPECT):
        raise TranslateError(f"{where}: {len(body)} statements")
    for s, want in zip(body, TABLE_HELPER_EXPECT):
        if want is None:
            # only words a warning: must not touch result_cols, return or raise
            if not (isinstance(s, ast.If) and u(s.test) == "warnings_to_emit" and not s.orelse):
                raise TranslateError(f"{where}: warning block")
            for n in ast.walk(s):
                if isinstance(n, (ast.Return, ast.Raise)) or (isinstance(n, ast.Name) and n.id in ("result_cols", "result_col", "op_func")):
                    raise TranslateError(f"{where}: the warning block does more than warn")
        elif text(s) != want:
            raise TranslateError(f"{where}: statement `{text(s)[:70]}`")
    return [
        "/-- transcribed from `Table._table_elementwise_operation` (shape-checked; the value part: the `_name` / `_wild` assignments and the\n"
        "    wording of the warning are C18's): `if not isinstance(other, Table)`: `result_cols = tuple((op_func(col, other) for col in self.cols()))`,\n"
        "    `return Table(result_cols)` -/\n"
        "def tableScalarBranchT {C O R : Type} (op_func : C → O → Except Err R) (self_cols : List C) (other : O) : Except Err (List R) :=\n"
        "  forAppendT (fun col => op_func col other) self_cols",
        "/-- … otherwise `if len(self.cols()) != len(other.cols()): raise ValueError(…)`, then\n"
        "    `for idx, (left_col, right_col) in enumerate(zip(self.cols(), other.cols())): result_col = op_func(left_col, right_col) …\n"
        "    result_cols.append(result_col)` (a plain `zip`: after the width check the two lists have the same length), `return Table(tuple(result_cols))` -/\n"
        "def tableTableBranchT {C R : Type} (op_func : C → C → Except Err R) (self_cols other_cols : List C) : Except Err (List R) :=\n"
        "  if self_cols.length != other_cols.length then .error Err.value\n"
        "  else forAppendT (fun p => op_func p.1 p.2) (self_cols.zip other_cols)"]


# ---------------------------------------------------------------------------------------------------------------------------------
def func_table(name, rows, arity):
    """the operator functions of the rows as one Lean function of the dunder name"""
    if arity == 2:
        head = (f"def {name} {{α β γ : Type}} (pyL : OpSym → α → β → Except Err γ) (pyR : OpSym → β → α → Except Err γ) (name : String) :\n"
                f"    Option (α → β → Except Err γ) :=\n")
    else:
        head = f"def {name} {{α γ : Type}} (py1 : OpSym → α → Except Err γ) (name : String) : Option (α → Except Err γ) :=\n"
    lines = []
    for r in rows:
        lines.append(f'  -- {r.name}: {r.fn.source}\n  if name = "{r.name}" then some ({r.fn.term()}) else')
    return head + "\n".join(lines) + ("\n" if lines else "") + "  none"


def ops_table(name, doc, rows):
    if not rows:
        return f"/-- {doc} -/\ndef {name} : List (String × HelperKind × OpSym × Bool) := []"
    body = ",\n".join(f"  -- {r.source}\n  {r.lean()}" for r in rows)
    return f"/-- {doc} -/\ndef {name} : List (String × HelperKind × OpSym × Bool) := [\n{body}]"


def str_list(name, doc, items):
    return f"/-- {doc} -/\ndef {name} : List String := [" + ", ".join(f'"{n}"' for n in items) + "]"


def pair_list(name, doc, items):
    return f"/-- {doc} -/\ndef {name} : List (String × String) := [" + ", ".join(f'("{a}", "{b}")' for a, b in items) + "]"


def translate_all(vsrc, tsrc):
    parts, errors = [PRELUDE], []
    vtree, ttree = ast.parse(vsrc), ast.parse(tsrc)
    venv, tenv = module_env(vtree), module_env(ttree)

    def attempt(what, fn):
        try:
            return fn()
        except Exception as ex:
            errors.append((what, f"{type(ex).__name__}: {ex}"))
            parts.append(f"-- {what}: not translated ({type(ex).__name__})")
            return None

    # ---- Vector ------------------------------------------------------------------------------------------------------------
    vcls = attempt("class Vector", lambda: find_class(vtree, "Vector"))
    vrows, vown = [], []
    if vcls is not None:
        if vcls.bases or vcls.keywords:
            errors.append(("class Vector", "has base classes"))
        members, bad = class_members(vcls)
        for n in UNIVERSE:
            if n in bad:
                errors.append((f"Vector.{n}", bad[n]))
                parts.append(f"-- Vector.{n}: not translated ({bad[n]})")
        radd_parts = []
        for n in [m for m in members if m in UNIVERSE]:              # source order
            def one(n=n):
                if n == "__radd__" and isinstance(members[n], ast.FunctionDef):
                    r = read_wrapper("Vector", members, n, venv, VECTOR_HELPERS)
                    if r is not None:
                        return r
                    row, rp = translate_radd(members[n])
                    radd_parts.extend(rp)
                    return row
                return read_wrapper("Vector", members, n, venv, VECTOR_HELPERS)
            before = len(errors)
            r = attempt(f"Vector.{n}", one)
            if r is not None:
                vrows.append(r)
            elif len(errors) == before:
                vown.append(n)
        parts.append(ops_table("vectorOps", "the operator methods of the body of `class Vector` that hand an operator function to a helper (or, `ownLoops`, apply it "
                               "in loops of their own), in source order:\n    (name, helper, operation, does the operator function put the OTHER operand on the left?)", vrows))
        parts.append(str_list("vectorOwnBodies", "operator methods of the body of `class Vector` whose bodies are their own (concatenation `<<`, column stacking `>>`, "
                              "the dot product `@`): not elementwise operators", vown))
        parts.append("/-- the operator function of each two-operand row of `vectorOps` (`pyL s a b` is Python's `a <s> b` with the element on the left,\n"
                     "    `pyR s b a` is Python's `b <s> a` with the other operand on the left) -/\n"
                     + func_table("vectorBinFuncT", [r for r in vrows if r.fn.arity == 2 and r.helper != "ownLoops"], 2))
        parts.append("/-- the operator function of each one-operand row of `vectorOps` (`py1 s a` is Python's `-a`, `+a`, `abs(a)`, `~a`) -/\n"
                     + func_table("vectorUnFuncT", [r for r in vrows if r.fn.arity == 1], 1))
        parts.extend(radd_parts)
        if any(r.helper == "guardedUnaryOperation" for r in vrows):
            parts.extend(invert_parts())
        missing = [h for h in VECTOR_HELPERS if not isinstance(members.get(h), ast.FunctionDef)]
        if missing:
            errors.append(("Vector helpers", f"not defined as plain methods of the class body: {missing}"))
            parts.append("-- Vector helpers: not translated")
        else:
            parts.append(str_list("vectorHelpers", "the helpers that the body of `class Vector` defines as plain methods", VECTOR_HELPERS))

    # ---- Table -------------------------------------------------------------------------------------------------------------
    tcls = attempt("class Table", lambda: find_class(ttree, "Table"))
    if tcls is not None:
        def bases():
            if [u(b) for b in tcls.bases] != ["Vector"] or tcls.keywords:
                raise TranslateError("class Table: bases " + ", ".join(u(b) for b in tcls.bases))
            imp = [s for s in ttree.body if isinstance(s, ast.ImportFrom) and any((a.asname or a.name) == "Vector" for a in s.names)]
            if len(imp) != 1 or imp[0].module != "vector" or imp[0].level != 1 or "Vector" in tenv["stores"]:
                raise TranslateError("class Table: `Vector` is not (only) `from .vector import Vector`")
            return True
        attempt("class Table(Vector)", bases)
        members, bad = class_members(tcls)
        for n in UNIVERSE:
            if n in bad:
                errors.append((f"Table.{n}", bad[n]))
                parts.append(f"-- Table.{n}: not translated ({bad[n]})")
        trows, town = [], []
        for n in [m for m in members if m in UNIVERSE]:
            before = len(errors)
            r = attempt(f"Table.{n}", lambda n=n: read_wrapper("Table", members, n, tenv, ["_table_elementwise_operation"]))
            if r is not None:
                trows.append(r)
            elif len(errors) == before:
                town.append(n)
        parts.append(ops_table("tableOps", "the operator methods that the body of `class Table(Vector)` defines itself, in source order (same columns as `vectorOps`;\n"
                               "    the operands of the operator function are a column and the other operand / the other table's column)", trows))
        parts.append(str_list("tableOwnBodies", "operator methods of the body of `class Table` whose bodies are their own (`>>`, `<<`)", town))
        parts.append(str_list("tableInherited", "operator methods that the body of `class Table` does not define: `Vector`'s are inherited (their helper calls go to "
                              "`self`'s class first)", [n for n in UNIVERSE if n not in members and n not in bad]))
        parts.append(str_list("tableHelperOverrides", "helpers of `Vector` that the body of `class Table` redefines", [h for h in VECTOR_HELPERS if h in members or h in bad]))
        parts.append("/-- the operator function of each two-operand row of `tableOps` (`pyL s col o` is Python's `col <s> o`, `pyR s o col` is Python's `o <s> col`) -/\n"
                     + func_table("tableBinFuncT", [r for r in trows if r.fn.arity == 2], 2))
        parts.append("/-- the per-column operation of each one-operand row of `tableOps` (`py1 s col` is Python's `-col`, `+col`, `abs(col)`, `~col`) -/\n"
                     + func_table("tableUnFuncT", [r for r in trows if r.fn.arity == 1], 1))
        th = attempt("Table._table_elementwise_operation", lambda: translate_table_helper(members["_table_elementwise_operation"])
                     if isinstance(members.get("_table_elementwise_operation"), ast.FunctionDef) else (_ for _ in ()).throw(TranslateError("not a plain method of the class body")))
        if th:
            parts.extend(th)

    # ---- the other subclasses -------------------------------------------------------------------------------------------------
    def subclasses():
        dund, helps = [], []
        for tree in (vtree, ttree):
            for c in [n for n in ast.walk(tree) if isinstance(n, ast.ClassDef)]:
                if c.name in ("Vector", "Table", "MethodProxy"):
                    continue
                members, bad = class_members(c)
                for n in list(members) + list(bad):
                    if n in UNIVERSE:
                        dund.append((c.name, n))
                    if n in HELPERS:
                        helps.append((c.name, n))
        return dund, helps
    sc = attempt("subclasses", subclasses)
    if sc is not None:
        parts.append(pair_list("subclassDunders", "operator methods defined in the bodies of the other classes of vector.py / table.py (class, method): every other "
                               "one is inherited", sc[0]))
        parts.append(pair_list("subclassHelperOverrides", "helpers redefined in the bodies of the other classes (class, helper)", sc[1]))
    return parts, errors


def generate(src_dir):
    try:
        vsrc = open(os.path.join(src_dir, "vector.py")).read()
        tsrc = open(os.path.join(src_dir, "table.py")).read()
        parts, errors = translate_all(vsrc, tsrc)
    except Exception as ex:
        parts, errors = [f"-- optable: not translated ({type(ex).__name__})"], [("optable", f"{type(ex).__name__}: {ex}")]
    out = ("/- GENERATED by harness/tr/optable.py from /repo's working tree — do not edit.\n"
           "   The operator table: for every arithmetic / comparison / logical / unary dunder of `Vector` and `Table`, the helper it calls and the\n"
           "   operation and operand order of its operator function, read from the AST; `Vector.__radd__`'s own loops, the guard of\n"
           "   `Vector.__invert__` and the value part of `Table._table_elementwise_operation`.  Equivalence theorems in Serif/Tie/OpTable.lean. -/\n"
           "import Serif.Prelude\n\nset_option linter.unusedVariables false\n\nnamespace Serif.Gen.TOp\nopen Serif\n\n"
           + "\n\n".join(parts) + "\n\nend Serif.Gen.TOp\n")
    return out, errors


if __name__ == "__main__":
    import sys
    t, e = generate(sys.argv[1] if len(sys.argv) > 1 else "/repo/src/serif")
    print(t)
    print(e, file=sys.stderr)
