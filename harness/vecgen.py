"""Shared pieces of the C05 / C06 harnesses: value pools, operators, oracle tables, wire building.

Scalar semantics are never interpreted here or in Lean: every scalar result is computed by Python
itself on the operands in the WRITTEN order and shipped as a table of interned uids.
"""
import operator, datetime, math, itertools
from values import Interner, dtype_wire, err_class

D = datetime.date
TD = datetime.timedelta

# small pools: ties, zeros, signed zero, nan/inf, empty string, a format string, date range ends
POOLS = {
    "bool": [True, False],
    "int": [3, 0, -2, 7, 1],
    "float": [1.5, 0.0, -2.5, float("inf"), float("nan"), -0.0],
    "complex": [1 + 2j, 0j, -1.5j],
    "str": ["ab", "", "%s!", "é,b"],
    "date": [D(2020, 1, 31), D(1999, 12, 31), D(2024, 2, 29), D.min],
    "td": [TD(1), TD(days=-400, seconds=5), TD(0)],
}
TYPES = list(POOLS)


class NC:
    """an element type whose operators are NOT commutative and record the written operand order: `NC('a') * 2` is
    `NC('(a*2)')`, `2 * NC('a')` is `NC('(2*a)')` (a matrix / quaternion / symbolic value behaves like this)"""

    def __init__(self, s):
        self.s = s

    def __repr__(self):
        return f"NC({self.s!r})"

    def __eq__(self, o):
        return isinstance(o, NC) and o.s == self.s

    def __hash__(self):
        return hash(("NC", self.s))


def _nc_text(o):
    return o.s if isinstance(o, NC) else repr(o)


def _nc_scalar(o):
    """NC combines with scalars only; vectors, tables and sequences get their own (reflected) operator"""
    return not (hasattr(o, "_underlying") or isinstance(o, (list, tuple, range, dict, set)))


for _name, _sym in (("add", "+"), ("sub", "-"), ("mul", "*"), ("truediv", "/"), ("floordiv", "//"), ("mod", "%"), ("pow", "**")):
    setattr(NC, f"__{_name}__", (lambda sym: lambda self, o: NC(f"({self.s}{sym}{_nc_text(o)})") if _nc_scalar(o) else NotImplemented)(_sym))
    setattr(NC, f"__r{_name}__", (lambda sym: lambda self, o: NC(f"({_nc_text(o)}{sym}{self.s})") if _nc_scalar(o) else NotImplemented)(_sym))

# pools that only some families use: a mixed-type (object dtype) vector (C06), non-commutative elements (C05)
EXTRA = {"obj": [1, "a", 2.5, "b", (1, 2)], "nc": [NC("a"), NC("b")],
         # printf-style templates with exactly one slot, and arguments for them (a one-element tuple is an argument too)
         "tmpl": ["%s!", "<%s>", "%r|", "%5s"], "targ": ["x", "", ("a",), "long text"],
         # gap analysis (builder gA): element features no other pool has.
         # mix: numbers that are equal (and hash-equal) ACROSS types side by side - Vector([1.5, 2, True]) is a <float> vector
         # that keeps the raw int and bool, so a dtype "wider than its contents" and 1 == 1.0 == True in one vector
         "mix": [1, 1.0, True, 2.5, 0, 0.0, -0.0, False, 2, 2.0],
         # big: ints beyond 2**53 / 2**63 (not exactly representable as float, not a machine word)
         "big": [2 ** 53 + 1, 10 ** 20, -(2 ** 63) - 1, 2 ** 64, 3],
         # bytes: like str a scalar although iterable; b"ab" has as many items as a 2-element vector
         "bytes": [b"ab", b"", b"%s|", b"\xff\x00"],
         # datetimes and (again) timedeltas as element types of broadcast methods / properties
         "dtm": [datetime.datetime(2020, 1, 31, 23, 59, 58), datetime.datetime(1999, 12, 31), datetime.datetime(2024, 2, 29, 0, 0, 0, 5)]}


def pool(t):
    return POOLS[t] if t in POOLS else EXTRA[t]

PYTYPE = {"bool": bool, "int": int, "float": float, "complex": complex, "str": str, "date": D, "td": TD}

BINOPS = {
    "add": operator.add, "sub": operator.sub, "mul": operator.mul, "truediv": operator.truediv,
    "floordiv": operator.floordiv, "mod": operator.mod, "pow": operator.pow,
}
SYMBOL = {"add": "+", "sub": "-", "mul": "*", "truediv": "/", "floordiv": "//", "mod": "%", "pow": "**"}
UNOPS = {"neg": operator.neg, "pos": operator.pos, "abs": operator.abs}
CMPOPS = {"eq": operator.eq, "ne": operator.ne, "lt": operator.lt, "le": operator.le, "gt": operator.gt, "ge": operator.ge}
CMPSYM = {"eq": "==", "ne": "!=", "lt": "<", "le": "<=", "gt": ">", "ge": ">="}


def val(t, i):
    """pool value (None for index None)"""
    if i is None:
        return None
    p = pool(t)
    return p[i % len(p)]


def vals(t, idxs):
    return [val(t, i) for i in idxs]


def none_patterns(n):
    """all subsets of None positions, as tuples of bools (True = None)"""
    return list(itertools.product([False, True], repeat=n))


def fill(rng, t, pattern):
    """index list for a None pattern, values drawn from the pool of t"""
    k = len(pool(t))
    return [None if isnone else rng.randrange(k) for isnone in pattern]


def make_vector(t, xs, typed=True):
    """Vector of pool type t.  A vector without a non-None element gets an explicit dtype when `typed`
    (that is how slicing / masking produces empty typed vectors); otherwise it is left to inference."""
    from serif import Vector
    from serif.typing import DataType
    if typed and all(x is None for x in xs) and t in PYTYPE:
        return Vector(list(xs), dtype=DataType(PYTYPE[t], nullable=bool(xs)))
    return Vector(list(xs))


def res_code(I, f):
    """run f(); uid of the result, or -1 (raises) / -2 (raises TypeError)"""
    try:
        r = f()
    except TypeError:
        return -2
    except Exception:
        return -1
    return I.uid(r)


def has_address(v):
    return " at 0x" in repr(v)


def vec_obs(I, r, *inputs):
    """observation of a call that should return a 1-D vector: values, len, freshness"""
    from serif import Vector, Table
    if not isinstance(r, Vector) or isinstance(r, Table):
        return {"err": "other:not-a-vector:" + type(r).__name__}
    data = list(r)
    return {"ok": [I.uid(x) for x in data], "len": len(r), "fresh": all(r is not x for x in inputs)}


def run(f):
    """(result, None) or (None, err-class)"""
    try:
        return f(), None
    except Exception as e:  # the code under test raised: encode the class only
        return None, err_class(e)


def pyrepr(x):
    """source text for a pool value (for snippets)"""
    if isinstance(x, float):
        if math.isnan(x):
            return "float('nan')"
        if math.isinf(x):
            return "float('inf')" if x > 0 else "float('-inf')"
    if isinstance(x, TD):
        return f"timedelta(days={x.days}, seconds={x.seconds})"
    if isinstance(x, D):
        return f"date({x.year}, {x.month}, {x.day})"
    if isinstance(x, list):
        return "[" + ", ".join(pyrepr(e) for e in x) + "]"
    return repr(x)


def vec_src(t, xs, typed=True):
    if typed and all(x is None for x in xs) and t in PYTYPE:
        tn = {"date": "date", "td": "timedelta"}.get(t, PYTYPE[t].__name__)
        return f"Vector({pyrepr(list(xs))}, dtype=DataType({tn}, nullable={bool(xs)}))"
    return f"Vector({pyrepr(list(xs))})"


HEADER = ("from datetime import date, timedelta\nfrom serif import Vector, Table\n"
          "from serif.typing import DataType\n")
