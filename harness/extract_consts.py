"""Regenerate lean/Serif/Gen/Consts.lean from /repo's current working tree.

Everything here is *decision data* read or tabulated from the live source:
theorems in Serif/Props/* are stated about these definitions, so the kernel
re-checks them against what the code says now.  A pattern that is no longer
found emits nothing, the dependent theorem stops building, and the check
falls back to searching for a failing input.
"""
import ast, os, sys, warnings, datetime, io, re

REPO = os.environ.get("SERIF_REPO", "/repo")
SRC = os.path.join(REPO, "src")


def _fresh_import():
    if SRC not in sys.path:
        sys.path.insert(0, SRC)
    import serif  # noqa
    return serif


class Foo:  # three unrelated user classes: Kind.other 0,1,2
    pass


class Bar:
    pass


class Baz:
    pass


KIND_CODES = None


def kind_codes():
    global KIND_CODES
    if KIND_CODES is None:
        KIND_CODES = {bool: 1, int: 2, float: 3, complex: 4, str: 5, bytes: 6,
                      datetime.date: 7, datetime.datetime: 8, list: 9, dict: 10, tuple: 11,
                      object: 12, Foo: 13, Bar: 14, Baz: 15}
    return KIND_CODES


def rep_values():
    """one representative value per exact type; code 0 is None"""
    return [(0, None), (1, True), (2, 7), (3, 1.5), (4, 1 + 2j), (5, "a"), (6, b"a"),
            (7, datetime.date(2020, 1, 2)), (8, datetime.datetime(2020, 1, 2, 3, 4)),
            (9, [1]), (10, {1: 2}), (11, (1,)), (12, object()), (13, Foo()), (14, Bar()), (15, Baz())]


def lean_bool(b):
    return "true" if b else "false"


def lean_str(s):
    out = ['"']
    for ch in s:
        if ch == '"':
            out.append('\\"')
        elif ch == "\\":
            out.append("\\\\")
        elif ch == "\n":
            out.append("\\n")
        elif 32 <= ord(ch) < 127:
            out.append(ch)
        else:
            out.append("\\u{%x}" % ord(ch))
    out.append('"')
    return "".join(out)


def lean_list(items, per_line=6):
    if not items:
        return "[]"
    lines = []
    for i in range(0, len(items), per_line):
        lines.append("  " + ", ".join(items[i:i + per_line]))
    return "[\n" + ",\n".join(lines) + "]"


def _typing_functions():
    """`infer_kind` and `validate_scalar` of serif.typing — by name, or (renamed) the module-level callables that behave like them
    on a handful of probes"""
    import serif.typing as T
    from serif import DataType
    ik, vs = getattr(T, "infer_kind", None), getattr(T, "validate_scalar", None)

    def is_ik(f):
        try:
            return f(None) is None and f(1) is int and f(True) is bool and f("a") is str and f(1.5) is float
        except Exception:
            return False

    def raises(f, *a):
        try:
            f(*a)
            return False
        except TypeError:
            return True
        except Exception:
            return None

    def is_vs(f):
        return (raises(f, 1, DataType(int)) is False and raises(f, "a", DataType(int)) is True
                and raises(f, None, DataType(int)) is True and raises(f, None, DataType(int, True)) is False
                and raises(f, True, DataType(float)) is False)
    cands = [f for n, f in vars(T).items() if callable(f) and not isinstance(f, type) and getattr(f, "__module__", "") == T.__name__]
    if not (callable(ik) and is_ik(ik)):
        ik = next((f for f in cands if is_ik(f)), None)
    if not (callable(vs) and is_vs(vs)):
        vs = next((f for f in cands if is_vs(f)), None)
    if ik is None or vs is None:
        raise ImportError("infer_kind / validate_scalar not found in serif.typing, by name or by behaviour")
    return DataType, ik, vs


def section_typing(serif, out):
    DataType, infer_kind, validate_scalar = _typing_functions()
    kc = kind_codes()
    inv = {v: k for k, v in kc.items()}
    rows, vrows, krows = [], [], []
    with warnings.catch_warnings():
        warnings.simplefilter("ignore")
        for kcode, kind in sorted(inv.items()):
            for nullable in (False, True):
                d = DataType(kind, nullable)
                for tcode, val in rep_values():
                    r = d.promote_with(val)
                    rk = kc.get(r.kind)
                    if rk is None:
                        continue
                    rows.append(f"({kcode}, {lean_bool(nullable)}, {tcode}, {rk}, {lean_bool(r.nullable)})")
                    try:
                        validate_scalar(val, d)
                        ok = True
                    except TypeError:
                        ok = False
                    vrows.append(f"({kcode}, {lean_bool(nullable)}, {tcode}, {lean_bool(ok)})")
        for tcode, val in rep_values():
            k = infer_kind(val)
            krows.append(f"({tcode}, {'none' if k is None else 'some ' + str(kc[k])})")
    out.append("/-- `DataType(kind, nullable).promote_with(value)` tabulated on the live code:\n"
               "    (kind code, nullable, value tag code, result kind code, result nullable) -/")
    out.append("def promoteTable : List (Nat × Bool × Nat × Nat × Bool) := " + lean_list(rows, 4))
    out.append("")
    out.append("/-- `validate_scalar(value, dtype)` accepts? (kind code, nullable, value tag code, accepted) -/")
    out.append("def validateTable : List (Nat × Bool × Nat × Bool) := " + lean_list(vrows, 5))
    out.append("")
    out.append("/-- `infer_kind(value)` (value tag code, result kind code) -/")
    out.append("def inferKindTable : List (Nat × Option Nat) := " + lean_list(krows, 6))
    out.append("")
    # Vector._promote: which (current kind, target kind) pairs convert
    from serif import Vector
    from serif.errors import SerifTypeError
    prow = []
    samples = {1: [True], 2: [1], 3: [1.5], 4: [1j], 5: ["a"], 7: [datetime.date(2020, 1, 2)],
               8: [datetime.datetime(2020, 1, 2)]}
    for ccode, vals in samples.items():
        for tcode in samples:
            v = Vector(vals)
            try:
                if hasattr(v, "_promote"):
                    v._promote(inv[tcode])
                else:
                    # renamed: read the unambiguous rows off a write of a value of the target kind (a write of a NARROWER kind is
                    # accepted without promotion and says nothing about `_promote`: skipped)
                    v[0] = samples[tcode][0]
                    if tcode != ccode and kc.get(v.schema().kind) != tcode:
                        continue
                res = kc.get(v.schema().kind)
                prow.append(f"({ccode}, {tcode}, some {res})")
            except SerifTypeError:
                prow.append(f"({ccode}, {tcode}, none)")
            except Exception:
                continue
    out.append("/-- `Vector._promote(target)`: (current kind, target kind, resulting kind or none = SerifTypeError) -/")
    out.append("def promoteVecTable : List (Nat × Nat × Option Nat) := " + lean_list(prow, 5))
    out.append("")


def section_fingerprint(serif, out):
    """Vector._FP_P / _FP_B and the literals returned by _hash_element for None and NaN (read from the AST)"""
    from serif import Vector
    import serif.vector as _vm
    P = B = None
    for holder in (Vector, _vm):
        if isinstance(getattr(holder, "_FP_P", None), int) and isinstance(getattr(holder, "_FP_B", None), int):
            P, B = int(holder._FP_P), int(holder._FP_B)
            break
    if P is None:
        # constants renamed or moved: read them off the behaviour.  hash(-1) == -2, so fp([-1]) = (-2) % P = P - 2;
        # fp([1, 0]) = (hash(1) * B + hash(0)) % P = B % P
        P = int(Vector([-1]).fingerprint()) + 2
        B = int(Vector([1, 0]).fingerprint())
        probe = {(1, 1): (B + 1) % P, (2, 0, 0): (2 * B * B) % P, (-3, 5): ((-3 % P) * B + 5) % P, (7,): 7}
        for xs, want in probe.items():
            if int(Vector(list(xs)).fingerprint()) != want:
                raise RuntimeError("fingerprint constants could not be read off the behaviour")
    src = open(os.path.join(SRC, "serif", "vector.py")).read()
    tree = ast.parse(src)
    none_hash = nan_hash = None
    for node in ast.walk(tree):
        if isinstance(node, ast.FunctionDef) and node.name == "_hash_element":
            for sub in ast.walk(node):
                if isinstance(sub, ast.If) and sub.body and isinstance(sub.body[0], ast.Return) \
                        and isinstance(sub.body[0].value, ast.Constant) and isinstance(sub.body[0].value.value, int):
                    test = ast.unparse(sub.test)
                    if "is None" in test and none_hash is None:
                        none_hash = sub.body[0].value.value
                    elif "isnan" in test and nan_hash is None:
                        nan_hash = sub.body[0].value.value
    # literals not found as such (moved to a constant, computed …): ask the live function; failing that, take the
    # residue modulo P from the behaviour (all the model ever uses of an element hash is its value modulo P)
    for attempt in (lambda x: int(Vector._hash_element(x)), lambda x: int(Vector([x]).fingerprint())):
        try:
            if not none_hash:
                none_hash = attempt(None)
            if not nan_hash:
                nan_hash = attempt(float("nan"))
        except Exception:
            pass
    # the base a Table combines its columns' fingerprints with: its own `_FP_B` when it has one, else read off the behaviour
    # (fp of the table with columns [1] and [0] is (fp([1]) * BT + fp([0])) % P = BT % P)
    from serif import Table
    BT = None
    if isinstance(Table.__dict__.get("_FP_B"), int):
        BT = int(Table.__dict__["_FP_B"])
    else:
        try:
            BT = int(Table([Vector([1]), Vector([0])]).fingerprint())
        except Exception:
            BT = B
    out.append("/-- `Vector._FP_P`, `Vector._FP_B`, the base `Table` combines column fingerprints with, and the hash literals of\n"
               "    `_hash_element` (0 = not found) -/")
    out.append(f"def FP_P : Nat := {P}")
    out.append(f"def FP_B : Nat := {B}")
    out.append(f"def FP_BT : Nat := {BT}")
    out.append(f"def NONE_HASH : Nat := {none_hash or 0}")
    out.append(f"def NAN_HASH : Nat := {nan_hash or 0}")
    out.append("")


def section_fp_seeds(serif, out):
    """the accumulator a container-valued element (set / tuple / list) starts its rolling hash from, per kind and length,
    read off the behaviour through the public API: with `k` a string, fp(Vector([k, c])) = ((hash(k) % P) * B + h(c)) % P, and
    for a container c of n zeros h(c) = seed(kind, n) * B**n % P (a zero adds nothing).  Kinds: 1 set, 2 tuple, 3 list."""
    import warnings
    from serif import Vector
    with warnings.catch_warnings():
        warnings.simplefilter("ignore")
        P = int(Vector([-1]).fingerprint()) + 2
        B = int(Vector([1, 0]).fingerprint())
        hk = hash("k") % P

        def h_of(c):
            return (int(Vector(["k", c]).fingerprint()) - hk * B) % P
        rows = []
        for n in range(0, 7):
            zeros = [0] * n
            inv = pow(B, -n, P)
            for kind, c in ((2, tuple(zeros)), (3, list(zeros))):
                rows.append((kind, n, (h_of(c) * inv) % P))
        # a set holds distinct items: {0, 1, ..., n-1} in sorted order, the item hashes removed one by one
        for n in range(0, 7):
            h = h_of(set(range(n)))
            # h = (...((seed * B + 0) * B + 1) * B + ... + (n-1)) % P  =>  peel the items off from the right
            for x in reversed(range(n)):
                h = ((h - x) * pow(B, -1, P)) % P
            rows.append((1, n, h))
    out.append("/-- starting accumulator of the rolling hash of a container-valued element: ((kind, length), seed) with kind 1 = set,\n"
               "    2 = tuple, 3 = list; read off the behaviour of `fingerprint()` -/")
    out.append("def fpSeeds : List ((Nat × Nat) × Int) := [" + ", ".join(f"(({k}, {n}), {sd})" for k, n, sd in sorted(rows)) + "]")
    out.append("")


def _find_func(tree, cls, name):
    for node in ast.walk(tree):
        if isinstance(node, ast.ClassDef) and node.name == cls:
            for f in node.body:
                if isinstance(f, ast.FunctionDef) and f.name == name:
                    return f
    return None


def _defines_key_fn(node):
    for n in ast.walk(node):
        if isinstance(n, ast.FunctionDef) and n.name == "key_fn":
            return True
        if isinstance(n, ast.Assign) and any(isinstance(t, ast.Name) and t.id == "key_fn" for t in n.targets):
            return True
    return False


def _key_fn_stmt(body):
    """the smallest statement that defines `key_fn` and can be executed on its own: descend through loops
    (their iterables are not available), stop at a def / assignment / if that contains the definition"""
    for st in body:
        if not _defines_key_fn(st):
            continue
        if isinstance(st, (ast.For, ast.While, ast.With, ast.Try)):
            inner = _key_fn_stmt(st.body)
            if inner is not None:
                return inner
        return st
    return None


def sort_flag_table(path, cls):
    """truth table (is_none, reverse, na_last) -> flag of the key function of `cls.sort_by`, obtained by locating the
    statement that defines `key_fn` with ast and executing it for every (reverse, na_last) on a None and a non-None value"""
    src = open(path).read()
    fn = _find_func(ast.parse(src), cls, "sort_by")
    if fn is None:
        raise LookupError(f"{cls}.sort_by not found")
    st = _key_fn_stmt(fn.body)
    if st is None:
        raise LookupError(f"no key_fn inside {cls}.sort_by")
    code = compile(ast.Module(body=[st], type_ignores=[]), f"<{cls}.sort_by key_fn>", "exec")
    import inspect
    table = {}
    for is_none in (False, True):
        val = None if is_none else 1
        for rev in (False, True):
            for na_last in (False, True):
                env = {"data": [val], "rev": rev, "reverse": rev, "na_last": na_last}
                exec(code, env)
                kf = env["key_fn"]
                # arguments by parameter name: an index into `data`, the direction, na_last; anything else is the value
                args = []
                for pn, par in inspect.signature(kf).parameters.items():
                    if pn in ("i", "idx", "index"):
                        args.append(0)
                    elif pn in ("rev", "reverse"):
                        args.append(rev)
                    elif pn == "na_last":
                        args.append(na_last)
                    elif pn == "data":
                        args.append([val])
                    elif par.default is inspect.Parameter.empty:
                        args.append(val)
                    else:
                        break
                key = kf(*args)
                flag = key[0]
                if not isinstance(flag, bool):
                    raise TypeError("flag component of the sort key is not a bool")
                table[(is_none, rev, na_last)] = flag
    return table


def sort_flag_table_observed(cls):
    """fallback when `key_fn` cannot be located/executed: the flag table that the observable placement of None implies.
    With reverse=False the larger flag sorts last, with reverse=True first, so flag(None) = none_last XOR reverse."""
    import warnings
    from serif import Vector, Table
    table = {}
    with warnings.catch_warnings():
        warnings.simplefilter("ignore")
        for rev in (False, True):
            for na_last in (False, True):
                lasts = []
                for data in ([1, None], [None, 1]):
                    if cls == "Vector":
                        res = list(Vector(list(data)).sort_by(reverse=rev, na_last=na_last))
                    else:
                        t = Table({"k": list(data), "p": [0, 1]}).sort_by("k", reverse=rev, na_last=na_last)
                        res = list(t.cols()[0])
                    if sorted(map(repr, res)) != sorted(map(repr, data)):
                        raise ValueError("sort_by did not return a permutation")
                    lasts.append(res[-1] is None)
                if lasts[0] != lasts[1]:
                    raise ValueError("None placement depends on the input order")
                f_none = lasts[0] != rev
                table[(True, rev, na_last)] = f_none
                table[(False, rev, na_last)] = not f_none
    return table


def _emit_flag_table(out, name, doc, table):
    out.append(f"/-- {doc} -/")
    out.append(f"def {name} (isNone rev naLast : Bool) : Bool :=")
    if table is None:
        out.append("  (isNone && rev && naLast) && false   -- extraction failed: neutral value")
    else:
        out.append("  match isNone, rev, naLast with")
        for k in sorted(table):
            out.append(f"  | {lean_bool(k[0])}, {lean_bool(k[1])}, {lean_bool(k[2])} => {lean_bool(table[k])}")
    out.append("")


def section_sort(serif, out):
    """C14: the None-flag of the sort keys of Table.sort_by and Vector.sort_by"""
    errs = []
    for name, fname, cls in (("sortFlagTable", "table.py", "Table"), ("sortFlagVector", "vector.py", "Vector")):
        try:
            tbl = sort_flag_table(os.path.join(SRC, "serif", fname), cls)
        except Exception as e:
            try:
                tbl = sort_flag_table_observed(cls)      # the key function is written differently: observe the placement
            except Exception as e2:
                tbl = None
                errs.append(f"{name}: {type(e).__name__}: {e}; observed: {type(e2).__name__}: {e2}")
        _emit_flag_table(out, name, f"first component of the key tuple built by `key_fn` inside `{cls}.sort_by`, "
                         "executed on a None / non-None value for every (reverse, na_last)", tbl)
    if errs:
        raise LookupError("; ".join(errs))


def section_display(serif, out):
    """display.py: the module-level preview limits and the literal `set_repr_rows(None)` resets to (AST only)"""
    vals = {"reprRowsDefault": 0, "maxHeadCols": 0, "reprRowsReset": 0}
    try:
        tree = ast.parse(open(os.path.join(SRC, "serif", "display.py")).read())
        for node in tree.body:
            if isinstance(node, ast.Assign) and len(node.targets) == 1 and isinstance(node.targets[0], ast.Name):
                nm = node.targets[0].id
                if isinstance(node.value, ast.Constant) and type(node.value.value) is int and node.value.value >= 0:
                    if nm == "_REPR_ROWS_DEFAULT":
                        vals["reprRowsDefault"] = node.value.value
                    elif nm == "MAX_HEAD_COLS":
                        vals["maxHeadCols"] = node.value.value
            if isinstance(node, ast.FunctionDef) and node.name == "set_repr_rows":
                for sub in ast.walk(node):
                    if (isinstance(sub, ast.Assign) and isinstance(sub.targets[0], ast.Name)
                            and sub.targets[0].id == "_REPR_ROWS_DEFAULT" and isinstance(sub.value, ast.IfExp)
                            and isinstance(sub.value.orelse, ast.Constant) and type(sub.value.orelse.value) is int):
                        vals["reprRowsReset"] = sub.value.orelse.value
    finally:
        # where the literal was not found (the value is written as an expression, moved, …) read the value the live module
        # computes; neutral values (0) only if that fails too
        try:
            import serif.display as _d
            if not vals["maxHeadCols"] and type(_d.MAX_HEAD_COLS) is int:
                vals["maxHeadCols"] = _d.MAX_HEAD_COLS
            saved = _d._REPR_ROWS_DEFAULT
            try:
                if not vals["reprRowsReset"]:
                    _d.set_repr_rows(None)
                    if type(_d._REPR_ROWS_DEFAULT) is int:
                        vals["reprRowsReset"] = _d._REPR_ROWS_DEFAULT
                if not vals["reprRowsDefault"]:
                    vals["reprRowsDefault"] = vals["reprRowsReset"]
            finally:
                _d._REPR_ROWS_DEFAULT = saved
        except Exception:
            pass
        if not vals["reprRowsDefault"] or not vals["reprRowsReset"]:
            # the global was renamed or split: read both numbers off repr() itself — the number of rows of a long table that
            # a fresh import shows, and the number shown after set_repr_rows(3); set_repr_rows(None)
            try:
                import serif.display as _d
                from serif import Table

                def shown():
                    t = Table({"marker": list(range(100000, 100400))})
                    text = repr(t)
                    return sum(1 for i in range(100000, 100400) if str(i) in text)
                first = shown()
                _d.set_repr_rows(3)
                _d.set_repr_rows(None)
                after = shown()
                if not vals["reprRowsDefault"]:
                    vals["reprRowsDefault"] = first
                if not vals["reprRowsReset"]:
                    vals["reprRowsReset"] = after
                if first != after:
                    _d.set_repr_rows(first)
            except Exception:
                pass
        out.append("/-- `display._REPR_ROWS_DEFAULT` as assigned at module level -/")
        out.append(f"def reprRowsDefault : Nat := {vals['reprRowsDefault']}")
        out.append("/-- the value `set_repr_rows(None)` resets the global to -/")
        out.append(f"def reprRowsReset : Nat := {vals['reprRowsReset']}")
        out.append("/-- `display.MAX_HEAD_COLS` -/")
        out.append(f"def maxHeadCols : Nat := {vals['maxHeadCols']}")
        out.append("")


def section_names(serif, out):
    """reserved accessor names: naming._get_reserved_names() evaluated on the live classes (C17)"""
    try:
        try:
            from serif.naming import _get_reserved_names
            names = sorted(_get_reserved_names())
        except ImportError:
            # renamed / moved / cached elsewhere: a name is reserved iff a column stored under it is advertised under another
            # accessor (the trailing underscore); candidates are every public attribute of the three classes and the keywords
            import keyword, warnings as _w
            from serif import Vector, Table
            cands = set(keyword.kwlist)
            t0 = Table({"a": [1]})
            for obj in (Vector, Table, type(next(iter(t0)))):
                cands |= {n.lower() for n in dir(obj) if not n.startswith("_")}
            names = []
            with _w.catch_warnings():
                _w.simplefilter("ignore")
                for n in sorted(cands):
                    t = Table([Vector([1], name=n)])
                    acc = [a for a in dir(t) if getattr(type(t), a, None) is None and a.rstrip("_") == n.rstrip("_")]
                    if n + "_" in acc and n not in acc:
                        names.append(n)
            # keywords that are not lower-case (False, None, True) can never be a sanitised name: unobservable either way, kept
            names = sorted(set(names) | {k for k in keyword.kwlist if k != k.lower()})
        if not all(isinstance(n, str) for n in names):
            raise TypeError("reserved names are not strings")
    except Exception:
        out.append("/-- extraction failed: neutral value, the C17 theorems about it then fail -/")
        out.append("def reservedNames : List String := []")
        out.append("")
        raise
    out.append("/-- `naming._get_reserved_names()` on the live Vector/Table classes, sorted -/")
    out.append("def reservedNames : List String := " + lean_list([lean_str(n) for n in names], 8))
    out.append("")


def section_keywords(serif, out):
    """Python's keywords (the interpreter running the checks): an accessor that is one cannot be written after a dot (C17)"""
    import keyword
    out.append("/-- `keyword.kwlist` of the running interpreter -/")
    out.append("def pyKeywords : List String := " + lean_list([lean_str(k) for k in sorted(keyword.kwlist)], 8))
    out.append("")


def _promotable_observed():
    """the (current kind, required kind) pairs `Vector.__setitem__` widens by, read off its behaviour: a one-element vector of
    kind a is assigned a value of kind b; the pair counts when the write is accepted and the vector then reports kind b.
    (The constant `_PROMOTABLE` may be renamed, derived from another table or consulted in a helper; what the model needs is the
    relation the write path implements.)"""
    import datetime as _dt, warnings
    from serif import Vector
    samples = {bool: True, int: 1, float: 1.5, complex: 1 + 2j, str: "a", bytes: b"a", _dt.date: _dt.date(2020, 1, 2),
               _dt.datetime: _dt.datetime(2020, 1, 2, 3, 4)}
    pairs = set()
    with warnings.catch_warnings():
        warnings.simplefilter("ignore")
        for a, va in samples.items():
            for b, vb in samples.items():
                if a is b:
                    continue
                try:
                    v = Vector([va, va])
                    if v.schema() is None or v.schema().kind is not a:
                        continue
                    v[0] = vb
                    if v.schema().kind is b:
                        pairs.add((a, b))
                except Exception:
                    pass
    return pairs


def section_assign(serif, out):
    """vector._PROMOTABLE: the (current kind, required kind) pairs __setitem__ may widen by.
    Read from the module object; cross-checked against the literal in the source text."""
    kc = kind_codes()
    rows = []
    try:
        pairs = _promotable_observed()
        for a, b in pairs:
            if a in kc and b in kc:
                rows.append((kc[a], kc[b]))
            else:
                rows.append((99, 99))      # an unknown class in the set: makes the tie theorems fail
    except Exception:
        rows = []
    rows.sort()
    out.append("/-- `vector._PROMOTABLE` (current kind code, required kind code) -/")
    out.append("def promotable : List (Nat × Nat) := " + lean_list([f"({a}, {b})" for a, b in rows], 8))
    out.append("")




JOIN_METHODS = (("inner_join", "inner"), ("join", "left"), ("full_join", "full"))


def _join_tuples(tree):
    """For each join method of class Table: the three `expect (not) in (<str>, ...)` membership tuples.

    validExpect  – the tuple of the first `expect not in (...)` test,
    rightUnique / leftUnique – the tuples of the `expect in (...)` tests; the side is taken from the name the
    test is assigned to (contains 'right' / 'left'), falling back on source order (right check first).
    Returns {suffix: {"valid": [...]|None, "right": [...]|None, "left": [...]|None}}.
    """
    res = {}
    table = next((n for n in ast.walk(tree) if isinstance(n, ast.ClassDef) and n.name == "Table"), None)
    for meth, suffix in JOIN_METHODS:
        got = {"valid": None, "right": None, "left": None}
        res[suffix] = got
        fn = None if table is None else next(
            (n for n in table.body if isinstance(n, ast.FunctionDef) and n.name == meth), None)
        if fn is None:
            continue
        assigned = {}
        for n in ast.walk(fn):
            if isinstance(n, ast.Assign) and len(n.targets) == 1 and isinstance(n.targets[0], ast.Name):
                assigned[id(n.value)] = n.targets[0].id
        tests = []
        for n in ast.walk(fn):
            if (isinstance(n, ast.Compare) and isinstance(n.left, ast.Name) and n.left.id == "expect"
                    and len(n.ops) == 1 and isinstance(n.ops[0], (ast.In, ast.NotIn))
                    and isinstance(n.comparators[0], (ast.Tuple, ast.List, ast.Set))
                    and all(isinstance(e, ast.Constant) and isinstance(e.value, str) for e in n.comparators[0].elts)):
                tests.append((n.lineno, n.col_offset, n))
        tests.sort(key=lambda t: t[:2])
        ins = []
        for _, _, n in tests:
            vals = [e.value for e in n.comparators[0].elts]
            if isinstance(n.ops[0], ast.NotIn):
                if got["valid"] is None:
                    got["valid"] = vals
            else:
                ins.append((assigned.get(id(n), ""), vals))
        unnamed = []
        for name, vals in ins:
            side = "right" if "right" in name.lower() else "left" if "left" in name.lower() else None
            if side and got[side] is None:
                got[side] = vals
            else:
                unnamed.append(vals)
        for side in ("right", "left"):
            if got[side] is None and unnamed:
                got[side] = unnamed.pop(0)
    return res


EXPECT_POOL = ["one_to_one", "many_to_one", "one_to_many", "many_to_many", "", "one_to_one ", "ONE_TO_ONE", "one-to-one", "1:1",
               "many_to_many_", "many", "one", "any", "m:n", "none", "left", "inner"]


def _join_tuples_observed(suffix):
    """the same three lists read off the behaviour of the live method, on a pool of candidate `expect` strings: accepted =
    no exception with unique keys on both sides; right/left uniqueness checked = SerifValueError with a matching duplicate on
    that side only.  (Used when the membership tests are not written as literal tuples in the method body.)"""
    import warnings
    from serif import Table
    from serif.errors import SerifValueError
    meth = dict((s, m) for m, s in JOIN_METHODS)[suffix]
    got = {"valid": [], "right": [], "left": []}
    with warnings.catch_warnings():
        warnings.simplefilter("ignore")
        for e in EXPECT_POOL:
            def call(lk, rk):
                L, R = Table({"k": lk, "x": list(range(len(lk)))}), Table({"k": rk, "y": list(range(len(rk)))})
                return getattr(L, meth)(R, "k", "k", expect=e)
            try:
                call([1, 2], [1, 2])
            except Exception:
                continue
            got["valid"].append(e)
            for side, (lk, rk) in (("right", ([1, 2], [1, 1])), ("left", ([1, 1], [1, 2]))):
                try:
                    call(lk, rk)
                except SerifValueError:
                    got[side].append(e)
                except Exception:
                    pass
    return got


def section_joins(serif, out):
    """the `expect` membership tuples of inner_join / join / full_join, read with ast (never executed)"""
    tuples = None
    try:
        with open(os.path.join(SRC, "serif", "table.py")) as f:
            tuples = _join_tuples(ast.parse(f.read()))
    except Exception:
        tuples = {}
    for _, suffix in JOIN_METHODS:
        if any((tuples.get(suffix) or {}).get(w) is None for w in ("valid", "right", "left")):
            try:
                tuples[suffix] = _join_tuples_observed(suffix)
            except Exception:
                pass
    doc = {"valid": "accepted values of `expect` (anything else is rejected)",
           "right": "values of `expect` for which right-side key uniqueness is checked",
           "left": "values of `expect` for which left-side key uniqueness is checked"}
    lean = {"valid": "validExpect", "right": "rightUnique", "left": "leftUnique"}
    for _, suffix in JOIN_METHODS:
        for what in ("valid", "right", "left"):
            vals = (tuples.get(suffix) or {}).get(what)
            note = "" if vals is not None else "  -- NOT FOUND in the source: neutral value"
            out.append(f"/-- `Table.{dict((s, m) for m, s in JOIN_METHODS)[suffix]}`: {doc[what]} -/")
            out.append(f"def {lean[what]}_{suffix} : List String := "
                       + lean_list([lean_str(v) for v in (vals or [])], 6) + note)
    out.append("")


def section_index(serif, out):
    """C07: `typeutils.slice_length` executed on a whole small domain (translation by tabulation).
    One row per Nat, base-16 digits (n, start, stop, step, result): a slice member x is x+8, None is 15;
    the result r is r+1, a raise (or a non-int / negative result) is 0."""
    rows = []
    try:
        # by name, or (renamed / moved) found by its behaviour, or read off vector slicing
        from values import slice_length_fn
        slice_length = slice_length_fn()
        mem = [None, -3, -1, 0, 1, 2, 4]

        def enc(x):
            return 15 if x is None else x + 8
        for n in range(0, 4):
            for a in mem:
                for b in mem:
                    for c in (None, 1, -1, 2, -2, 0):
                        try:
                            r = slice_length(slice(a, b, c), n)
                            res = r + 1 if type(r) is int and 0 <= r < 15 else 0
                        except ValueError:
                            res = 0
                        rows.append(str((((n * 16 + enc(a)) * 16 + enc(b)) * 16 + enc(c)) * 16 + res))
    except Exception:
        rows = []          # neutral value: the non-vacuity theorem of Props/C07 then fails, which is the signal
    out.append("/-- `typeutils.slice_length(slice(start, stop, step), n)` tabulated on the live code, one packed row per\n"
               "    entry: base-16 digits (n, start, stop, step, result); member x ↦ x+8, None ↦ 15; result r ↦ r+1, raise ↦ 0 -/")
    out.append("def sliceLengthTable : List Nat := " + lean_list(rows, 12))
    out.append("")


def section_resolve_binary_name(serif, out):
    """`table._resolve_binary_name` executed on {None, 'a', 'b'}^2 (C18)"""
    rows = []
    try:
        try:
            from serif.table import _resolve_binary_name
        except ImportError:
            # renamed / moved / another result convention: read the rule off the behaviour — the name of the single result column
            # of table-with-table arithmetic for every pair of stored names
            import warnings
            from serif import Table, Vector

            def _resolve_binary_name(l, r):
                with warnings.catch_warnings():
                    warnings.simplefilter("ignore")
                    t = Table([Vector([1], name=l)]) + Table([Vector([1], name=r)])
                    return t.cols()[0].name
        dom = [None, "a", "b"]
        opt = lambda x: "none" if x is None else "some " + lean_str(x)
        for l in dom:
            for r in dom:
                res = _resolve_binary_name(l, r)
                name = res[0] if isinstance(res, tuple) else res
                if name is not None and not isinstance(name, str):
                    raise TypeError("unexpected result")
                rows.append(f"({opt(l)}, {opt(r)}, {opt(name)})")
    finally:
        out.append("/-- `_resolve_binary_name(left, right)[0]` on {None, 'a', 'b'}^2: (left, right, result name) -/")
        out.append("def resolveBinaryNameTable : List (Option String × Option String × Option String) := " + lean_list(rows, 3))
        out.append("")


def section_promotable(serif, out):
    """`vector._PROMOTABLE`: the (current kind, required kind) pairs `__setitem__` promotes through (C03, C08)"""
    rows = []
    try:
        kc = kind_codes()
        for a, b in sorted(_promotable_observed(), key=lambda p: (kc[p[0]], kc[p[1]])):
            rows.append(f"({kc[a]}, {kc[b]})")
    finally:
        out.append("/-- `_PROMOTABLE` as (current kind code, required kind code) -/")
        out.append("def promotablePairs : List (Nat × Nat) := " + lean_list(rows, 8))
        out.append("")




def generate():
    serif = _fresh_import()
    out = ["/- GENERATED by harness/extract_consts.py from /repo's working tree — do not edit. -/",
           "namespace Serif.Gen", ""]
    errors = []
    for sec in [v for k, v in list(globals().items()) if k.startswith('section_') and callable(v)]:
        try:
            sec(serif, out)
        except Exception as e:  # a section that cannot be extracted emits nothing
            errors.append(f"{sec.__name__}: {type(e).__name__}: {e}")
            out.append(f"-- section {sec.__name__} could not be extracted: {type(e).__name__}")
    out.append("end Serif.Gen")
    return "\n".join(out) + "\n", errors


def write_translated(path):
    """the Python->Lean translation of the decision functions (harness/py2lean.py); written next to Consts.lean"""
    import py2lean
    text, errors = py2lean.generate(os.path.join(SRC, "serif"))
    rel, rerrors = py2lean.generate_rel(os.path.join(SRC, "serif"))
    grp, gerrors = py2lean.generate_group(os.path.join(SRC, "serif"))
    ali, aerrors = py2lean.generate_alias(os.path.join(SRC, "serif"))
    rep, perrors = py2lean.generate_repr(os.path.join(SRC, "serif"))
    nam, nerrors = py2lean.generate_names(os.path.join(SRC, "serif"))
    vec, verrors = py2lean.generate_vec(os.path.join(SRC, "serif"))
    tab, terrors = py2lean.generate_tab(os.path.join(SRC, "serif"))
    srt, serrors = py2lean.generate_sort(os.path.join(SRC, "serif"))
    rerrors = rerrors + gerrors + aerrors + perrors + nerrors + verrors + terrors + serrors
    extra = []
    import tr
    for plug in tr.plugins():
        try:
            ptxt, perr = plug.generate(os.path.join(SRC, "serif"))
        except Exception as ex:  # a translator must never take the extraction down
            ptxt, perr = (f"/- GENERATED: translator {plug.__name__} failed ({type(ex).__name__}) -/\n", [(plug.__name__, f"{type(ex).__name__}: {ex}")])
        rerrors = rerrors + list(perr)
        extra.append((os.path.join(os.path.dirname(path), plug.GEN_FILE), ptxt))
    for pth, txt in tuple(extra) + ((path, text), (os.path.join(os.path.dirname(path), "TranslatedRel.lean"), rel),
                     (os.path.join(os.path.dirname(path), "TranslatedGroup.lean"), grp),
                     (os.path.join(os.path.dirname(path), "TranslatedAlias.lean"), ali),
                     (os.path.join(os.path.dirname(path), "TranslatedRepr.lean"), rep),
                     (os.path.join(os.path.dirname(path), "TranslatedNames.lean"), nam),
                     (os.path.join(os.path.dirname(path), "TranslatedVec.lean"), vec),
                     (os.path.join(os.path.dirname(path), "TranslatedTab.lean"), tab),
                     (os.path.join(os.path.dirname(path), "TranslatedSort.lean"), srt)):
        old = open(pth).read() if os.path.exists(pth) else None
        if old != txt:
            tmp = pth + ".tmp%d" % os.getpid()
            with open(tmp, "w") as f:
                f.write(txt)
            os.replace(tmp, pth)
    return errors + rerrors


def write(path):
    terr = write_translated(os.path.join(os.path.dirname(path), "Translated.lean"))
    text, errors = generate()
    errors = errors + [f"py2lean {n}: {e}" for n, e in terr]
    old = None
    if os.path.exists(path):
        old = open(path).read()
    if old != text:
        os.makedirs(os.path.dirname(path), exist_ok=True)
        tmp = path + ".tmp%d" % os.getpid()
        with open(tmp, "w") as f:
            f.write(text)
        os.replace(tmp, path)
    return old != text, errors


if __name__ == "__main__":
    here = os.path.dirname(os.path.abspath(__file__))
    changed, errors = write(os.path.join(here, "..", "lean", "Serif", "Gen", "Consts.lean"))
    print("changed" if changed else "unchanged", errors)
