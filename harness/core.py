"""Shared machinery of the serif verification checks.

One check run (see DESIGN.md §2.1):
  1. regenerate lean/Serif/Gen/Consts.lean from /repo's working tree
  2. lake build (driver must build; the property's theorem file may fail = broken obligation)
  3. axiom audit + forbidden-token grep
  4. correspondence / spec-on-code: generated cases are executed on the real code in-process,
     and every result is judged by the Lean driver (executable model + spec)
  5. verdicts, shrinking, known findings, replay files
  6. evidence file
Exit codes: 0 held, 1 violation, 2 infrastructure failure.
"""
import os, sys, json, time, subprocess, fcntl, hashlib, random, re, threading, traceback, importlib
import multiprocessing, gc, itertools, warnings

HERE = os.path.dirname(os.path.abspath(__file__))
VERIF = os.path.dirname(HERE)
LEAN = os.path.join(VERIF, "lean")
REPO = os.environ.get("SERIF_REPO", "/repo")
SRC = os.path.join(REPO, "src")
if SRC not in sys.path:
    sys.path.insert(0, SRC)
if HERE not in sys.path:
    sys.path.insert(0, HERE)
os.environ.setdefault("SERIF_VERIF", "1")

DRIVER = os.path.join(LEAN, ".lake", "build", "bin", "driver")
ALLOWED_AXIOMS = {"propext", "Classical.choice", "Quot.sound"}
FORBIDDEN = re.compile(r"\bsorry\b|\badmit\b|^\s*axiom\s|native_decide|bv_decide|implemented_by|\bunsafe\s|maxHeartbeats\s+0")

TRUSTED_BASE = [
    "Lean 4.33 kernel (thorough tier re-checks the property module with leanchecker)",
    "axioms allowed: propext, Classical.choice, Quot.sound (audited with #print axioms on every run); "
    "no native_decide, bv_decide, sorry, admit or user axioms (grep on every run)",
    "the correspondence machinery: harness/ generators, canonicalisation and interning of Python values "
    "(equality classes by Python ==/hash, ranks by Python <), the line protocol, lean/Driver.lean, "
    "harness/extract_consts.py",
    "CPython semantics used as parameters of the model: tuple/list slicing, zip(strict=True), stability of "
    "list.sort/sorted incl. reverse=True, dict lookup and insertion order, ==/hash consistency on keys, "
    "refcount-driven death of weak references, csv.reader, str.lower/strip, int()/float() parsing, f-string formatting",
    "theorems are about the Lean model; the model is tied to the code only on the inputs the correspondence run "
    "executed (counts below), through the constants regenerated from the source on this run, and — where this evidence lists a "
    "translation tie as 'holds' — through the statement-by-statement translation of the named functions (harness/py2lean.py and "
    "lean/Serif/Gen/PySupport.lean are then part of the trusted base; what each translation abstracts is stated in the docstrings of "
    "the generated lean/Serif/Gen/Translated*.lean files)",
]


def log(*a):
    print(*a, file=sys.stderr, flush=True)


# --------------------------------------------------------------------------------------
# build
# --------------------------------------------------------------------------------------

class BuildLock:
    def __enter__(self):
        os.makedirs(os.path.join(LEAN, ".lake"), exist_ok=True)
        self.f = open(os.path.join(LEAN, ".lake", "verif.lock"), "w")
        fcntl.flock(self.f, fcntl.LOCK_EX)
        return self

    def __exit__(self, *a):
        fcntl.flock(self.f, fcntl.LOCK_UN)
        self.f.close()


def run_cmd(cmd, cwd=None, timeout=1800, env=None):
    p = subprocess.run(cmd, cwd=cwd, stdout=subprocess.PIPE, stderr=subprocess.STDOUT, text=True,
                       timeout=timeout, env=env)
    return p.returncode, p.stdout


def regen_consts():
    import extract_consts
    return extract_consts.write(os.path.join(LEAN, "Serif", "Gen", "Consts.lean"))


def build(pid):
    """returns dict(driver_ok, props_ok, props_log, consts_errors)"""
    with BuildLock():
        changed, cerrors = regen_consts()
        rc, out = run_cmd(["lake", "build", "driver"], cwd=LEAN)
        res = {"driver_ok": rc == 0, "driver_log": out[-4000:], "consts_changed": changed,
               "consts_errors": cerrors}
        if rc != 0:
            res.update(props_ok=False, props_log=out[-6000:])
            return res
        rc, out = run_cmd(["lake", "build", f"Serif.Props.{pid}"], cwd=LEAN)
        res["props_ok"] = rc == 0
        res["props_log"] = "\n".join(l for l in out.splitlines() if not l.startswith("trace:"))[-6000:]
        return res


# supplementary translation ties (harness/py2lean.py -> lean/Serif/Gen/Translated{,Rel}.lean -> lean/Serif/Tie/*.lean)
TIES = {"C03": ["Serif.Tie.Typing", "Serif.Tie.Assign"], "C04": ["Serif.Tie.Typing"], "C08": ["Serif.Tie.Typing", "Serif.Tie.Assign"], "C07": ["Serif.Tie.Index"],
        "C18": ["Serif.Tie.Names", "Serif.Tie.Sanitize"], "C16": ["Serif.Tie.Fingerprint"], "C17": ["Serif.Tie.ColumnMap", "Serif.Tie.Sanitize"], "C19": ["Serif.Tie.Csv"],
        "C09": ["Serif.Tie.Join"], "C10": ["Serif.Tie.Join"], "C11": ["Serif.Tie.Join"],
        "C12": ["Serif.Tie.Group"], "C13": ["Serif.Tie.Group"], "C15": ["Serif.Tie.AliasTracker"], "C01": ["Serif.Tie.AliasTracker"],
        "C20": ["Serif.Tie.Repr"], "C05": ["Serif.Tie.Vec"], "C06": ["Serif.Tie.Vec"],
        "C02": ["Serif.Tie.Tab"], "C14": ["Serif.Tie.Sort"]}


def build_ties(pid, tier="quick"):
    """non-blocking: the translated definitions equal the model (for all inputs) — or the translator does not
    understand the current source; reported in the evidence, never a violation by itself"""
    out = {}
    import tr
    for mod in TIES.get(pid, []) + tr.ties().get(pid, []):
        path = os.path.join(LEAN, *mod.split(".")) + ".lean"
        if not os.path.exists(path):
            continue
        with BuildLock():
            rc, log = run_cmd(["lake", "build", mod], cwd=LEAN)
        thms = re.findall(r"^theorem\s+([A-Za-z0-9_.']+)", strip_comments(open(path).read()), re.M)
        axioms = []
        if rc == 0:
            # the same axiom audit as for the property theorems
            d = os.path.join(LEAN, ".lake", "audit")
            os.makedirs(d, exist_ok=True)
            ap = os.path.join(d, f"tie_{pid}_{os.getpid()}.lean")
            with open(ap, "w") as f:
                f.write(f"import {mod}\n" + "".join(f"#print axioms Serif.Tie.{n}\n" for n in thms))
            _, aout = run_cmd(["lake", "env", "lean", ap], cwd=LEAN)
            os.unlink(ap)
            for m in re.finditer(r"depends on axioms: \[([^\]]*)\]", aout.replace("\n", " ")):
                axioms += [a.strip() for a in m.group(1).split(",") if a.strip()]
            axioms = sorted(set(axioms))
            if any(a not in ("propext", "Classical.choice", "Quot.sound") for a in axioms) or "sorry" in aout:
                rc = 1
                log = "axiom audit of the tie theorems failed: " + ", ".join(axioms)
        checker = None
        if rc == 0 and tier == "thorough":
            # the toolchain's independent re-checker on the compiled tie module (thorough tier only)
            try:
                crc, cout = run_cmd(["lake", "env", "leanchecker", mod], cwd=LEAN, timeout=900)
                checker = f"leanchecker {mod}: rc={crc}"
                if crc != 0:
                    rc, log = 1, "leanchecker failed: " + cout[-600:]
            except Exception as ex:
                checker = f"leanchecker {mod}: not run ({type(ex).__name__})"
        out[mod] = {"status": "holds" if rc == 0 else "unavailable", "theorems": thms, "axioms": axioms, "checker": checker,
                    "log": "" if rc == 0 else "\n".join(l for l in log.splitlines() if not l.startswith("trace:"))[-600:]}
    return out


def theorem_names(pid):
    path = os.path.join(LEAN, "Serif", "Props", f"{pid}.lean")
    names = []
    if os.path.exists(path):
        txt = strip_comments(open(path).read())
        for m in re.finditer(r"^\s*theorem\s+([A-Za-z0-9_.'!?]+)", txt, re.M):
            names.append(m.group(1))
    return names


def strip_comments(txt):
    # remove nested block comments and line comments
    out, i, depth = [], 0, 0
    while i < len(txt):
        if txt.startswith("/-", i):
            depth += 1; i += 2
        elif txt.startswith("-/", i) and depth:
            depth -= 1; i += 2
        elif depth:
            if txt[i] == "\n":
                out.append("\n")
            i += 1
        elif txt.startswith("--", i):
            while i < len(txt) and txt[i] != "\n":
                i += 1
        else:
            out.append(txt[i]); i += 1
    return "".join(out)


def forbidden_tokens():
    hits = []
    for root, _, files in os.walk(LEAN):
        if ".lake" in root:
            continue
        for fn in files:
            if fn.endswith(".lean"):
                p = os.path.join(root, fn)
                for n, line in enumerate(strip_comments(open(p).read()).splitlines(), 1):
                    if FORBIDDEN.search(line):
                        hits.append(f"{os.path.relpath(p, VERIF)}:{n}: {line.strip()[:120]}")
    return hits


def audit(pid):
    """#print axioms for every theorem of Props/<pid>.lean -> dict name -> list of axioms"""
    names = theorem_names(pid)
    d = os.path.join(LEAN, ".lake", "audit")
    os.makedirs(d, exist_ok=True)
    path = os.path.join(d, f"{pid}_{os.getpid()}.lean")
    with open(path, "w") as f:
        f.write(f"import Serif.Props.{pid}\n")
        for n in names:
            f.write(f"#print axioms Serif.{pid}.{n}\n")
    rc, out = run_cmd(["lake", "env", "lean", path], cwd=LEAN)
    os.unlink(path)
    res = {}
    for m in re.finditer(r"'Serif\.%s\.([^']+)' (does not depend on any axioms|depends on axioms: \[([^\]]*)\])" % pid,
                         out.replace("\n", " ")):
        ax = [a.strip() for a in (m.group(3) or "").split(",") if a.strip()]
        res[m.group(1)] = ax
    return names, res, rc, out


# --------------------------------------------------------------------------------------
# driver
# --------------------------------------------------------------------------------------

class Driver:
    def __init__(self):
        self.p = subprocess.Popen([DRIVER], stdin=subprocess.PIPE, stdout=subprocess.PIPE, text=True, bufsize=1 << 16)
        self.n = 0

    def judge(self, wires):
        """wires: list of dicts with p, fam, case, impl. Returns list of verdict dicts."""
        lines = []
        for w in wires:
            self.n += 1
            w = dict(w); w["id"] = self.n
            lines.append(json.dumps(w, separators=(",", ":")))

        def feed():
            try:
                for i in range(0, len(lines), 64):
                    self.p.stdin.write("\n".join(lines[i:i + 64]) + "\n")
                    self.p.stdin.flush()
            except BrokenPipeError:
                pass
        t = threading.Thread(target=feed)
        t.start()
        out = []
        for _ in lines:
            l = self.p.stdout.readline()
            if not l:
                raise RuntimeError("driver died")
            out.append(json.loads(l))
        t.join()
        return out

    def close(self):
        try:
            self.p.stdin.close()
            self.p.wait(timeout=5)
        except Exception:
            self.p.kill()


# --------------------------------------------------------------------------------------
# case running
# --------------------------------------------------------------------------------------

def spec_hash(spec):
    return hashlib.sha1(json.dumps(spec, sort_keys=True, default=str).encode()).hexdigest()[:12]


def load_module(pid):
    return importlib.import_module(f"props.{pid.lower()}")


def corpus_specs(pid):
    d = os.path.join(VERIF, "corpus", pid)
    out = []
    if os.path.isdir(d):
        for fn in sorted(os.listdir(d)):
            if fn.endswith(".json"):
                try:
                    j = json.load(open(os.path.join(d, fn)))
                    out.append(j["spec"] if "spec" in j else j)
                except Exception:
                    pass
    return out


def exec_one(mod, spec):
    """run the implementation on spec; returns wire dict (never raises for impl errors)"""
    with warnings.catch_warnings():
        warnings.simplefilter("ignore")
        w = mod.execute(spec)
    w.setdefault("p", mod.PID)
    w.setdefault("fam", spec.get("fam", "?"))
    return w


def judge_specs(mod, drv, specs):
    """returns list of (spec, wire, verdict)"""
    wires, keep = [], []
    res = [None] * len(specs)
    for i, s in enumerate(specs):
        try:
            w = exec_one(mod, s)
        except Exception as e:
            tb = traceback.extract_tb(e.__traceback__)
            inner = tb[-1].filename if tb else ""
            if os.path.abspath(inner).startswith(os.path.abspath(SRC)):
                # the library itself raised where the harness expected an ordinary value (while building the inputs or
                # observing the result through the public API): that is a failing case, not an infrastructure problem
                res[i] = (s, {"impl": {"raised": type(e).__name__}},
                          {"ok": False, "why": "library raised " + "".join(traceback.format_exception_only(type(e), e)).strip()[:200]
                           + f" at {os.path.relpath(inner, SRC)}:{tb[-1].lineno} while the case was being built/observed",
                           "model": None})
            else:
                res[i] = (s, None, {"ok": None, "error": "harness: " + "".join(traceback.format_exception_only(type(e), e)).strip(),
                                    "trace": traceback.format_exc()[-1500:]})
            continue
        if w.get("skip"):
            res[i] = (s, w, {"ok": True, "skipped": True, "why": w.get("skip")})
            continue
        if w.get("py_fail"):
            res[i] = (s, w, {"ok": False, "why": w["py_fail"], "model": None})
            continue
        wires.append({k: w[k] for k in ("p", "fam", "case", "impl") if k in w}); keep.append((i, s, w))
    if wires:
        vs = drv.judge(wires)
        for (i, s, w), v in zip(keep, vs):
            res[i] = (s, w, v)
    return res


def worker(args):
    pid, tier, seed, shard, nshards, budget_s, search = args
    mod = load_module(pid)
    drv = Driver()
    rng = random.Random(seed)
    t0 = time.time()
    stats = {"evaluations": 0, "skipped": 0, "families": {}, "hist": {}, "distinct": set(), "nontrivial_distinct": set()}
    failures, errors, samples = [], [], {}
    gen_tier = "thorough" if search else tier
    specs_iter = itertools.chain(corpus_specs(pid) if shard == 0 else [], mod.generate(rng, gen_tier))
    batch, idx, timed_out = [], 0, False

    def flush():
        nonlocal batch
        if not batch:
            return
        for s, w, v in judge_specs(mod, drv, batch):
            fam = s.get("fam", "?")
            stats["evaluations"] += 1
            stats["families"][fam] = stats["families"].get(fam, 0) + 1
            if v.get("skipped"):
                stats["skipped"] += 1
                continue
            if v.get("ok") is None or "error" in v:
                if len(errors) < 5:
                    errors.append({"spec": s, "verdict": v})
                continue
            h = spec_hash(s)
            stats["distinct"].add(h)
            nt = True
            if hasattr(mod, "nontrivial"):
                try:
                    nt = bool(mod.nontrivial(s, w))
                except Exception:
                    nt = False
            if nt:
                stats["nontrivial_distinct"].add(h)
            if hasattr(mod, "histogram"):
                try:
                    for k in mod.histogram(s, w):
                        stats["hist"][k] = stats["hist"].get(k, 0) + 1
                except Exception:
                    pass
            if fam not in samples and nt:
                samples[fam] = {"spec": s, "impl": w.get("impl"), "verdict": {k: v.get(k) for k in ("ok", "why")}}
            if not v.get("ok"):
                if len(failures) < 40:
                    failures.append({"spec": s, "wire": {k: w.get(k) for k in ("case", "impl")}, "verdict": v})
                stats["fail_count"] = stats.get("fail_count", 0) + 1
        batch = []

    for spec in specs_iter:
        if idx % nshards == shard:
            batch.append(spec)
            if len(batch) >= 200:
                flush()
                if time.time() - t0 > budget_s:
                    timed_out = True
                    break
                if stats.get("fail_count", 0) >= 40:
                    break
        idx += 1
    flush()
    drv.close()
    stats["distinct"] = list(stats["distinct"])
    stats["nontrivial_distinct"] = list(stats["nontrivial_distinct"])
    stats["budget_exhausted"] = timed_out
    stats["generated_total"] = idx
    return {"stats": stats, "failures": failures, "errors": errors, "samples": samples}


def merge(results):
    tot = {"evaluations": 0, "skipped": 0, "families": {}, "hist": {}, "distinct": set(), "nontrivial_distinct": set(),
           "fail_count": 0, "budget_exhausted": False}
    failures, errors, samples = [], [], {}
    for r in results:
        s = r["stats"]
        tot["evaluations"] += s["evaluations"]; tot["skipped"] += s["skipped"]
        tot["fail_count"] += s.get("fail_count", 0)
        tot["budget_exhausted"] = tot["budget_exhausted"] or s["budget_exhausted"]
        for k, v in s["families"].items():
            tot["families"][k] = tot["families"].get(k, 0) + v
        for k, v in s["hist"].items():
            tot["hist"][k] = tot["hist"].get(k, 0) + v
        tot["distinct"].update(s["distinct"]); tot["nontrivial_distinct"].update(s["nontrivial_distinct"])
        failures += r["failures"]; errors += r["errors"]
        for k, v in r["samples"].items():
            samples.setdefault(k, v)
    return tot, failures, errors, samples


# --------------------------------------------------------------------------------------
# shrinking, findings, replay
# --------------------------------------------------------------------------------------

def shrink(mod, drv, spec, limit=200):
    if not hasattr(mod, "shrink"):
        return spec
    cur, evals, progress = spec, 0, True
    def candidates(spec):
        # a shrinker that re-executes the case (to concretise a seeded history) can hit the very failure it is shrinking
        try:
            yield from mod.shrink(spec)
        except Exception:
            return
    while progress and evals < limit:
        progress = False
        for cand in candidates(cur):
            evals += 1
            if evals > limit:
                break
            try:
                (_, w, v), = judge_specs(mod, drv, [cand])
            except Exception:
                continue
            if v.get("ok") is False:
                cur, progress = cand, True
                break
    return cur


def load_findings():
    p = os.path.join(VERIF, "known_findings.json")
    if os.path.exists(p):
        return json.load(open(p))
    return {"findings": [], "fixed": []}


def classify(mod, pid, spec, wire, verdict):
    """returns the known-finding entry matching this failing case, or None"""
    known = getattr(mod, "KNOWN", {})
    for f in load_findings().get("findings", []):
        if f.get("property") != pid:
            continue
        pred = known.get(f.get("id"))
        if pred is None:
            continue
        try:
            if pred(spec, wire, verdict):
                return f
        except Exception:
            pass
    return None


def write_replay(pid, payload):
    d = os.path.join(VERIF, "replays", pid)
    os.makedirs(d, exist_ok=True)
    h = hashlib.sha1(json.dumps(payload, sort_keys=True, default=str).encode()).hexdigest()[:12]
    path = os.path.join(d, f"{h}.json")
    with open(path, "w") as f:
        json.dump(payload, f, indent=1, default=str)
    return os.path.relpath(path, VERIF)


def write_evidence(pid, ev):
    d = os.path.join(VERIF, "evidence")
    os.makedirs(d, exist_ok=True)
    path = os.path.join(d, f"{pid}.json")
    tmp = path + ".tmp%d" % os.getpid()
    with open(tmp, "w") as f:
        json.dump(ev, f, indent=1, default=str)
    os.replace(tmp, path)


# --------------------------------------------------------------------------------------
# main entry
# --------------------------------------------------------------------------------------

def replay(pid, path):
    mod = load_module(pid)
    j = json.load(open(path))
    if j.get("kind") == "obligation":
        print(json.dumps(j, indent=1))
        return 0
    spec = j["spec"]
    b = build(pid)
    if not b["driver_ok"]:
        print("driver does not build:\n" + b["driver_log"]); return 2
    drv = Driver()
    rc = 0
    if j.get("case") is not None:
        v0 = drv.judge([{"p": pid, "fam": spec.get("fam", "?"), "case": j["case"], "impl": j.get("impl")}])[0]
        print("recorded trace re-judged:", json.dumps(v0, default=str))
        if v0.get("ok") is False:
            rc = 1
    (_, w, v), = judge_specs(mod, drv, [spec])
    drv.close()
    print("spec:   ", json.dumps(spec, default=str))
    if hasattr(mod, "snippet"):
        print("python:\n" + mod.snippet(spec))
    print("impl:   ", json.dumps(w.get("impl") if w else None, default=str))
    print("verdict:", json.dumps(v, default=str))
    if v.get("ok") is False or rc:
        print(f"VIOLATION property={pid} replay={path}")
        return 1
    return 0


def run_check(pid, tier="quick", seed=0, nproc=None):
    t0 = time.time()
    mod = load_module(pid)
    rd = os.path.join(VERIF, "replays", pid)
    if os.path.isdir(rd):
        for fn in os.listdir(rd):
            os.unlink(os.path.join(rd, fn))
    nproc = nproc or int(os.environ.get("VERIF_JOBS", "0")) or min(16, os.cpu_count() or 4)
    b = build(pid)
    if not b["driver_ok"]:
        log("infrastructure failure: driver does not build\n" + b["driver_log"])
        return 2
    obligations_broken = []
    names = theorem_names(pid)
    ax = {}
    if b["props_ok"]:
        names, ax, rc, out = audit(pid)
        for n in names:
            if n not in ax:
                obligations_broken.append({"theorem": n, "problem": "not reported by #print axioms", "log": out[-800:]})
            elif not set(ax[n]) <= ALLOWED_AXIOMS:
                obligations_broken.append({"theorem": n, "problem": "axioms " + ",".join(ax[n])})
    else:
        obligations_broken.append({"theorem": f"Serif.Props.{pid}", "problem": "does not build", "log": b["props_log"]})
    bad = forbidden_tokens()
    if bad:
        obligations_broken.append({"theorem": "*", "problem": "forbidden tokens", "log": "\n".join(bad)})
    checker_note = ""
    if tier == "thorough" and b["props_ok"]:
        rc, out = run_cmd(["lake", "env", "leanchecker", f"Serif.Props.{pid}"], cwd=LEAN, timeout=1500)
        checker_note = f"leanchecker Serif.Props.{pid}: rc={rc}"
        if rc != 0:
            obligations_broken.append({"theorem": f"Serif.Props.{pid}", "problem": "leanchecker failed", "log": out[-1500:]})

    ties = build_ties(pid, tier)
    budgets = getattr(mod, "BUDGET_S", {"quick": 40, "thorough": 420})
    search = bool(obligations_broken)
    budget = budgets["thorough" if search else tier]
    args = [(pid, tier, seed, i, nproc, budget, search) for i in range(nproc)]
    ctx = multiprocessing.get_context("fork")
    with ctx.Pool(nproc) as pool:
        results = pool.map(worker, args)
    stats, failures, errors, samples = merge(results)

    # ---- verdicts
    lines, nviol, known_hits = [], 0, {}
    drv = Driver()
    seen = set()
    failures.sort(key=lambda f: len(json.dumps(f["spec"], default=str)))
    for f in failures[:25]:
        small = shrink(mod, drv, f["spec"])
        (_, w, v), = judge_specs(mod, drv, [small])
        if v.get("ok") is not False:
            small = f["spec"]; (_, w, v), = judge_specs(mod, drv, [small])
            if v.get("ok") is not False:  # flaky: still report the original observation
                w, v = {"impl": f["wire"].get("impl"), "case": f["wire"].get("case")}, f["verdict"]
        kf = classify(mod, pid, small, w, v)
        if kf is not None:
            known_hits.setdefault(kf["id"], (kf, small))
            continue
        sig = (small.get("fam"), v.get("why"))
        if sig in seen and nviol >= 1:
            continue
        seen.add(sig)
        payload = {"property": pid, "kind": "concrete", "family": small.get("fam"), "seed": seed, "spec": small,
                   "impl": (w or {}).get("impl"), "verdict": v}
        if hasattr(mod, "snippet"):
            try:
                payload["python"] = mod.snippet(small)
            except Exception:
                pass
        if getattr(mod, "REPLAY_CASE", False) and w and w.get("case") is not None:
            payload["case"] = w["case"]      # the observed trace itself (re-execution may take other runtime choices)
        path = write_replay(pid, payload)
        lines.append(f"VIOLATION property={pid} replay={path}")
        nviol += 1
        if nviol >= 5:
            break
    drv.close()
    for kid, (kf, small) in known_hits.items():
        print(f"KNOWN-FINDING: property={pid} {kid}: {kf.get('what', '')} (e.g. {json.dumps(small, default=str)[:200]})")
    if errors and not failures:
        # harness/driver errors are infrastructure problems, never silently ignored
        log("harness/driver errors:\n" + json.dumps(errors[:3], indent=1, default=str)[:3000])
    if obligations_broken and nviol == 0:
        payload = {"property": pid, "kind": "obligation", "seed": seed, "broken": obligations_broken,
                   "note": "the proof obligation / tie no longer checks; the failing-input search over "
                           f"{stats['evaluations']} cases found no concrete violation"}
        path = write_replay(pid, payload)
        lines.append(f"VIOLATION property={pid} replay={path} no-failing-input-found")
        nviol += 1
    wall = time.time() - t0
    discharged = 0 if not b["props_ok"] else sum(1 for n in names if n in ax and set(ax[n]) <= ALLOWED_AXIOMS)
    axioms_used = sorted({a for v in ax.values() for a in v})
    ev = {
        "property_id": pid, "tier": tier, "seed": seed, "level": "proof",
        "coverage": {
            "obligations": len(names), "discharged": discharged,
            "checker_cmd": f"cd lean && lake build Serif.Props.{pid} && lake env lean <#print axioms of every theorem in Serif/Props/{pid}.lean>"
                           + (" && lake env leanchecker Serif.Props.%s" % pid if tier == "thorough" else ""),
            "trusted_base": TRUSTED_BASE + list(getattr(mod, "TRUSTED", [])),
            "theorems": names, "axioms_used": axioms_used, "checker_note": checker_note,
            "consts_regenerated_from_source": True, "consts_extraction_errors": b["consts_errors"],
            "translation_tie": ties,
            "evaluations": stats["evaluations"], "distinct_nontrivial": len(stats["nontrivial_distinct"]),
            "distinct_cases": len(stats["distinct"]), "skipped_cases": stats["skipped"],
            "rule": getattr(mod, "RULE", ""), "families": stats["families"], "input_distribution": stats["hist"],
            "samples": list(samples.values())[:6], "disagreements_checked": stats["fail_count"],
            "harness_errors": len(errors), "budget_exhausted": stats["budget_exhausted"],
            "search_mode": search, "known_findings_hit": sorted(known_hits),
            "workers": nproc,
        },
        "assumptions": list(getattr(mod, "ASSUMPTIONS", [])),
        "wall_s": round(wall, 2), "violations": nviol,
    }
    write_evidence(pid, ev)
    for l in lines:
        print(l)
    summary = (f"{pid} {tier} seed={seed}: theorems {discharged}/{len(names)} axioms={axioms_used} "
               f"cases={stats['evaluations']} nontrivial={len(stats['nontrivial_distinct'])} failing={stats['fail_count']} "
               f"harness_errors={len(errors)} violations={nviol} wall={wall:.1f}s")
    print(summary)
    if nviol:
        return 1
    if errors and stats["evaluations"] and len(errors) and stats["evaluations"] == stats["skipped"] + 0 and False:
        return 2
    if errors:
        return 2
    return 0
