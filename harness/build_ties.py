"""Pre-build every translation-tie module (setup step; never fails): the checks build the ties they report anyway, this only moves
the one-off compilation out of the first check run."""
import os, subprocess, sys, glob
LEAN = os.path.join(os.path.dirname(os.path.abspath(__file__)), "..", "lean")
mods = sorted("Serif.Tie." + os.path.basename(p)[:-5] for p in glob.glob(os.path.join(LEAN, "Serif", "Tie", "*.lean")))
r = subprocess.run(["lake", "build"] + mods, cwd=LEAN, stdout=subprocess.PIPE, stderr=subprocess.STDOUT, text=True)
if r.returncode != 0:
    for m in mods:          # one by one: a tie whose translator refuses the current source must not keep the others from building
        subprocess.run(["lake", "build", m], cwd=LEAN, stdout=subprocess.DEVNULL, stderr=subprocess.DEVNULL)
print("ties pre-built:", len(mods), "modules", "(all)" if r.returncode == 0 else "(some unavailable)")
sys.exit(0)
