"""Python values <-> wire encoding shared by all property harnesses."""
import datetime, math
from extract_consts import Foo, Bar, Baz, kind_codes

D = datetime.date
DT = datetime.datetime


_EXTRA_KINDS = {}


def kind_code(k):
    """wire code of a DataType.kind (a class)"""
    kc = kind_codes()
    if k in kc:
        return kc[k]
    # any other class: a code of its own, outside the named ones, numbered in order of first appearance in this process.
    # (It used to be 16 + hash(name) % 50: under one hash seed in fifty two different classes — Decimal and Fraction in one
    # key column — got the SAME code, the model then inferred a homogeneous column where the code has an object column, and the
    # check raised a false alarm on the unchanged tree about once in thirty runs.)
    if k not in _EXTRA_KINDS:
        _EXTRA_KINDS[k] = 16 + len(_EXTRA_KINDS)
    return _EXTRA_KINDS[k]


def tag_code(v):
    """wire code of the exact type of a scalar (0 = None)"""
    if v is None:
        return 0
    return kind_code(type(v))


def dtype_wire(dt):
    if dt is None:
        return None
    return [kind_code(dt.kind), bool(dt.nullable)]


# a few values of each exact type; index 0 is the canonical representative
POOL = {
    0: [None],
    1: [True, False],
    2: [7, 0, -3, 10**20],
    3: [1.5, 0.0, -2.25, float("inf")],
    4: [1 + 2j, 0j],
    5: ["a", "", "héllo"],
    6: [b"a", b""],
    7: [D(2020, 1, 2), D(1999, 12, 31)],
    8: [DT(2020, 1, 2, 3, 4), DT(1999, 12, 31)],
    9: [[1], []],
    10: [{1: 2}, {}],
    11: [(1,), ()],
    12: [object()],
    13: [Foo()],
    14: [Bar()],
    15: [Baz()],
}


def value_of(code, variant=0):
    p = POOL[code]
    return p[variant % len(p)]


def err_class(e):
    """small enum of exception classes (never messages)"""
    from serif.errors import SerifKeyError, SerifTypeError, SerifValueError, SerifIndexError
    from serif.alias_tracker import AliasError
    if isinstance(e, AliasError):
        return "alias"
    if isinstance(e, SerifTypeError):
        return "type"
    if isinstance(e, SerifValueError):
        return "value"
    if isinstance(e, SerifKeyError):
        return "key"
    if isinstance(e, SerifIndexError):
        return "index"
    if isinstance(e, AttributeError):
        return "attr"
    if isinstance(e, TypeError):
        return "pytype"
    if isinstance(e, ValueError):
        return "pyvalue"
    if isinstance(e, KeyError):
        return "pykey"
    if isinstance(e, IndexError):
        return "pyindex"
    if isinstance(e, AssertionError):
        return "assert"
    return "other:" + type(e).__name__


class Interner:
    """Per-case interning of scalars so that Lean never interprets Python values.

    uid : identity of the exact (type, repr) value — used to compare outputs
    eq  : equality class under Python's ==/hash (1 == True == 1.0 share a class)
    Values are sent as [tag, eq, uid].  None is uid 0 / eq 0.
    """

    def __init__(self):
        self.by_key = {}
        self.vals = [None]
        self.eqs = {}
        self.eq_of = [0]
        self.unhashable_eq = []

    def _key(self, v):
        if isinstance(v, float) and math.isnan(v):
            return ("float", "nan")
        return (type(v).__module__ + "." + type(v).__qualname__, repr(v))

    def uid(self, v):
        if v is None:
            return 0
        k = self._key(v)
        u = self.by_key.get(k)
        if u is None:
            u = len(self.vals)
            self.by_key[k] = u
            self.vals.append(v)
            self.eq_of.append(self._eq(v))
        return u

    def _eq(self, v):
        try:
            e = self.eqs.get(v)
            if e is None:
                e = len(self.eqs) + len(self.unhashable_eq) + 1
                self.eqs[v] = e
            return e
        except TypeError:
            for w, e in self.unhashable_eq:
                try:
                    if w == v:
                        return e
                except Exception:
                    pass
            e = len(self.eqs) + len(self.unhashable_eq) + 1
            self.unhashable_eq.append((v, e))
            return e

    def wire(self, v):
        u = self.uid(v)
        return [tag_code(v), self.eq_of[u], u]

    def wires(self, vs):
        return [self.wire(v) for v in vs]

    def value(self, uid):
        return self.vals[uid]



def storage(o):
    """the storage tuple of a live Vector/Table, found without relying on the attribute's name: `_underlying` when it exists,
    otherwise the tuple-valued instance attribute (the one as long as the object when there are several); None while the object
    is still under construction"""
    d = getattr(o, "__dict__", None)
    if not isinstance(d, dict):
        return None
    t = d.get("_underlying")
    if isinstance(t, tuple):
        return t
    if "_underlying" in d:
        return None
    cands = [v for v in d.values() if isinstance(v, tuple)]
    if len(cands) == 1:
        return cands[0]
    try:
        n = len(o)
    except Exception:
        return None
    cands = [v for v in cands if len(v) == n]
    return cands[0] if cands else None


def row_class():
    """the class of a table's row views (`serif.table.Row`, wherever it lives now)"""
    try:
        from serif.table import Row
        return Row
    except ImportError:
        import warnings
        from serif import Table
        with warnings.catch_warnings():
            warnings.simplefilter("ignore")
            return type(next(iter(Table({"a": [1]}))))


def slice_length_fn():
    """`typeutils.slice_length`, or (renamed / moved) the module-level function of the library that behaves like it on a handful
    of probes; as a last resort the number of elements vector slicing selects (small n only)"""
    try:
        from serif.typeutils import slice_length
        return slice_length
    except ImportError:
        pass
    import importlib
    probes = [((slice(0, 7, 5), 10), 2), ((slice(None), 3), 3), ((slice(None, None, -1), 4), 4), ((slice(5, 1, -2), 9), 2),
              ((slice(2, 2), 5), 0), ((slice(-3, None), 10), 3), ((slice(0, 10 ** 12, 7), 10 ** 12), (10 ** 12 + 6) // 7)]
    for mod in ("serif.typeutils", "serif.vector", "serif.table", "serif.typing"):
        try:
            m = importlib.import_module(mod)
        except Exception:
            continue
        for name, f in list(vars(m).items()):
            if callable(f) and not isinstance(f, type) and getattr(f, "__module__", None) == m.__name__:
                try:
                    if all(f(*a) == want for a, want in probes):
                        return f
                except Exception:
                    continue
    from serif import Vector

    def slice_length(sl, n):
        if n > 10 ** 5:
            return len(range(*sl.indices(n)))          # out of reach of the behavioural route: CPython's own answer
        return len(Vector(list(range(n)))[sl] if n else Vector([0])[1:][sl])
    return slice_length
